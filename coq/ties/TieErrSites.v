(** The error-construction sites found in /repo are the specified ones. *)
From Coq Require Import String List.
From PSA.Spec Require Import SpecErrSites.
From PSA.Gen Require Import GenErrSites.

Lemma tie_err_sites : gen_err_sites = spec_err_sites.
Proof. vm_compute. reflexivity. Qed.
