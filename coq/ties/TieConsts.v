(** Obligations tying the tables regenerated from /repo (gen/GenConsts.v)
    to the specified tables.  A changed constant, range, name, regular
    expression, accessor regex set or validation order breaks this file. *)
From Coq Require Import String.
From PSA Require Import Base Lines Lifecycle Regex Claims.
From PSA.Spec Require Import SpecTables.
From PSA.Gen Require Import GenConsts.

Lemma tie_consts_recognised : gen_consts_unrecognised = []%list.
Proof. vm_compute. reflexivity. Qed.

Lemma tie_lc : gen_lc = spec_lc.
Proof. vm_compute. reflexivity. Qed.

Lemma tie_ccfg : gen_ccfg = spec_ccfg.
Proof. vm_compute. reflexivity. Qed.
