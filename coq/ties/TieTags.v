(** The struct tags read from /repo are the specified ones. *)
From Coq Require Import String ZArith List.
From PSA Require Import Tags.
From PSA.Spec Require Import SpecTags.
From PSA.Gen Require Import GenTags.

Lemma tie_tags_recognised : gen_tags_unrecognised = nil.
Proof. vm_compute. reflexivity. Qed.
Lemma tie_p1_fields : gen_p1_fields = spec_p1_fields.
Proof. vm_compute. reflexivity. Qed.
Lemma tie_p2_fields : gen_p2_fields = spec_p2_fields.
Proof. vm_compute. reflexivity. Qed.
Lemma tie_swc_fields : gen_swc_fields = spec_swc_fields.
Proof. vm_compute. reflexivity. Qed.
Lemma tie_swcs_fields : gen_swcs_fields = spec_swcs_fields.
Proof. vm_compute. reflexivity. Qed.
Lemma tie_codec_modes : gen_codec_modes = spec_codec_modes.
Proof. vm_compute. reflexivity. Qed.
