(** What the source says about receiver effects is what the purity theorems assume. *)
From Coq Require Import String NArith List Bool.
From PSA Require Import Purity Effects.
From PSA.Gen Require Import GenEffects.
Import ListNotations.

(** every read-side method of /repo is effect-free by the syntactic criterion *)
Lemma tie_read_methods_pure : forallb fx_pure (read_methods gen_effects) = true.
Proof. vm_compute. reflexivity. Qed.

(** the read-side methods the model talks about exist *)
Lemma tie_read_methods_present :
  forallb (fun tn => match lookup_fx gen_effects (fst tn) (snd tn) with Some _ => true | None => false end)
    [("P1Claims", "Validate"); ("P2Claims", "Validate"); ("P1Claims", "MarshalCBOR"); ("P1Claims", "MarshalJSON");
     ("P1Claims", "GetNonce"); ("P2Claims", "GetNonce"); ("Evidence", "Verify"); ("Evidence", "MarshalJSON");
     ("SwComponents", "Values"); ("SwComponents", "IsEmpty"); ("SwComponents", "MarshalCBOR"); ("SwComponents", "MarshalJSON");
     ("SwComponent", "Validate")]%string = true.
Proof. vm_compute. reflexivity. Qed.

(** the effect configuration of the model instantiated from the source is the specified one *)
Lemma tie_fxcfg : fxcfg_of gen_effects = spec_fx.
Proof. vm_compute. reflexivity. Qed.

(** package-level state: the variables that exist, and the only function that writes one
    (registration of profiles, which is not part of the read side) *)
Lemma tie_pkg_vars : gen_pkg_vars =
  [("psatoken", "CertificationReferenceP1RE", "call:regexp.MustCompile"); ("psatoken", "CertificationReferenceP2RE", "call:regexp.MustCompile");
   ("psatoken", "ErrClaimNotInProfile", "call:fmt.Errorf"); ("psatoken", "ErrFieldNotInProfile", "call:fmt.Errorf");
   ("psatoken", "ErrMandatoryClaimMissing", "call:fmt.Errorf"); ("psatoken", "ErrMandatoryFieldMissing", "call:fmt.Errorf");
   ("psatoken", "ErrMissingMandatory", "call:errors.New"); ("psatoken", "ErrMissingOptional", "call:errors.New");
   ("psatoken", "ErrNotInProfile", "call:errors.New"); ("psatoken", "ErrOptionalClaimMissing", "call:fmt.Errorf");
   ("psatoken", "ErrOptionalFieldMissing", "call:fmt.Errorf"); ("psatoken", "ErrWrongProfile", "call:errors.New");
   ("psatoken", "ErrWrongSyntax", "call:errors.New");
   ("psatoken", "dm", "call:initCBORDecMode"); ("psatoken", "dmError", "call:initCBORDecMode");
   ("psatoken", "em", "call:initCBOREncMode"); ("psatoken", "emError", "call:initCBOREncMode");
   ("psatoken", "profilesRegister", "composite");
   ("encoding", "errEndOfStream", "call:errors.New"); ("encoding", "errNoProfile", "call:errors.New")]%string.
Proof. vm_compute. reflexivity. Qed.

Lemma tie_pkg_writes : gen_pkg_writes = [("psatoken", "registerProfileUnderName", "profilesRegister")]%string.
Proof. vm_compute. reflexivity. Qed.
