(** Extraction of the executable model.  ExtrOcamlBasic only: N, Z,
    positive, byte, string stay extracted datatypes. *)
From Coq Require Import Extraction ExtrOcamlBasic.
From PSA Require Import Run.
Extraction Language OCaml.
Extraction "model.ml" run_gen run_spec.
