(** C07 -- Decoding dispatches on the declared profile, defaulting to
    profile 1.  Theorems only; proofs in theories/RegistryProofs.v. *)
From Coq Require Import String.
From PSA Require Import Base Lines Lifecycle Regex Claims ClaimsSpec Cbor Tags Wire Codec Registry SetterProofs CodecProofs RegistryProofs.
From PSA.Spec Require Import SpecTables SpecTags.
Open Scope N_scope.

Theorem C07_dispatch_cbor_spec : forall reg v,
  dispatch_cbor reg v = match v with
                        | PAbsent | PNull => reg_lookup reg []
                        | PText s => reg_lookup reg s
                        | POther => None
                        end.
Proof. exact dispatch_cbor_spec. Qed.
Print Assumptions C07_dispatch_cbor_spec.

(** whatever is registered later, a token without profile claim is a profile-1 token *)
Theorem C07_default_is_profile1 : forall p1 p2 ext,
  reg_lookup (reg0 p1 p2 ++ ext)%list [] = Some {| en_key := []; en_name := p1; en_kind := K1; en_jtag := Lines.s2b "psa-profile"%string; en_type := 1 |}.
Proof. exact default_is_profile1. Qed.
Print Assumptions C07_default_is_profile1.

Theorem C07_json_default_and_unregistered : forall reg members,
  (filter (jmatches members) reg = [] -> existsb (jpresent members) reg = false -> dispatch_json reg members = reg_lookup reg []) /\
  (filter (jmatches members) reg = [] -> existsb (jpresent members) reg = true -> dispatch_json reg members = None).
Proof. intros reg members. split; intros F P; unfold dispatch_json; rewrite F, P; reflexivity. Qed.
Print Assumptions C07_json_default_and_unregistered.

Theorem C07_unregistered_profile_is_error : forall reg s members,
  (reg_lookup reg s = None -> dispatch_cbor reg (PText s) = None) /\
  (filter (jmatches members) reg = [] -> existsb (jpresent members) reg = true -> dispatch_json reg members = None).
Proof. exact unregistered_profile_is_error. Qed.
Print Assumptions C07_unregistered_profile_is_error.

(** an accepted token is judged under, and reports, the profile it declares *)
Theorem C07_validated_under_declared : forall (b : bytes) (c : claims),
  decode_cbor spec_ccfg W b = DOk c -> validate spec_ccfg c = Ok tt ->
  (c_kind c = K1 /\ c_canon c = prof1 spec_ccfg \/ c_kind c = K2 /\ c_canon c = prof2 spec_ccfg) /\
  get_profile c = Ok (c_canon c).
Proof. exact validated_under_declared. Qed.
Print Assumptions C07_validated_under_declared.

Theorem C07_new_claims_report_their_profile :
  get_profile (new_p1 spec_ccfg true) = Ok (prof1 spec_ccfg) /\ get_profile (new_p1 spec_ccfg false) = Ok (prof1 spec_ccfg) /\
  get_profile (new_p2 spec_ccfg) = Ok (prof2 spec_ccfg).
Proof. exact new_claims_report_their_profile. Qed.
Print Assumptions C07_new_claims_report_their_profile.

(** JSON: an accepted document was decoded into the claims type of a built-in profile and,
    once validated, reports exactly that profile *)
From PSA Require Import Json JsonCodec JsonCross.
Theorem C07_json_validated_under_declared : forall (j : json) (c : claims),
  decode_json spec_ccfg W j = DOk c -> validate spec_ccfg c = Ok tt ->
  ((c_kind c = K1 /\ c_canon c = prof1 spec_ccfg) \/ (c_kind c = K2 /\ c_canon c = prof2 spec_ccfg)) /\
  get_profile c = Ok (c_canon c).
Proof. exact json_validated_under_declared. Qed.
Print Assumptions C07_json_validated_under_declared.
