(** C19 -- An Evidence never verifies for claims other than the ones last
    signed or decoded.  Theorems only; proofs in theories/EvidenceProofs.v.
    Signatures are idealised (theories/Evidence.v): [SigBy k alg prot
    payload] verifies exactly under key k with algorithm alg over exactly
    that protected header and payload.  [key_alg] / [alg_known] are
    arbitrary parameters (no assumption on them). *)
From Coq Require Import ZArith.
From PSA Require Import Base Lines Lifecycle Regex Claims ClaimsSpec Cbor Tags Wire Codec Evidence SetterProofs CodecProofs EvidenceProofs.
From PSA.Spec Require Import SpecTables SpecTags.
Open Scope N_scope.

Theorem C19_failed_op_no_token : forall key_alg alg_known (e : ev) (o : eop) (t : token),
  snd (step spec_ccfg W key_alg alg_known e o) = OutTok t ->
  exists v s c p, o = ESign v s /\ sg_beh s = SignsOk /\ e_claims e = Some c /\ encode_cbor W c = Some p /\
                  t = Tok (Some (sg_alg s)) (Some p) (Some (SigBy (sg_key s) (sg_alg s) (Some (sg_alg s)) p)) /\
                  (v = true -> validate spec_ccfg c = Ok tt).
Proof. exact failed_op_no_token. Qed.
Print Assumptions C19_failed_op_no_token.

(** the binding clause, over ALL histories (arbitrary operation lists with
    arbitrary signer behaviours and arbitrary tokens fed to the decoder) *)
Theorem C19_verified_claims_are_signed_payload : forall key_alg alg_known (ops : list eop) (k : N),
  let e0 := {| e_claims := None; e_msg := None |} in
  all_states_ok key_alg alg_known e0 ops -> dirty_run key_alg alg_known false e0 ops = false ->
  let e := fst (run spec_ccfg W key_alg alg_known e0 ops) in
  verify_ok spec_ccfg W key_alg alg_known e k = true ->
  exists m p, e_msg e = Some m /\ m_payload m = Some p /\
              m_sig m = Some (SigBy k (key_alg k) (Some (key_alg k)) p) /\
              match e_claims e with
              | None => True
              | Some c => exists c', decode_cbor spec_ccfg W p = DOk c' /\ view c' = view c
              end.
Proof. exact verified_claims_are_signed_payload. Qed.
Print Assumptions C19_verified_claims_are_signed_payload.

Theorem C19_failed_sign_then_verify_fails : forall key_alg alg_known (e : ev) v s k,
  snd (step spec_ccfg W key_alg alg_known e (ESign v s)) = OutErr ->
  verify_ok spec_ccfg W key_alg alg_known (fst (step spec_ccfg W key_alg alg_known e (ESign v s))) k = false.
Proof. exact failed_sign_then_verify_fails. Qed.
Print Assumptions C19_failed_sign_then_verify_fails.

Theorem C19_failure_not_sticky : forall key_alg alg_known (e e' : ev) v s,
  e_claims e = e_claims e' ->
  snd (step spec_ccfg W key_alg alg_known e (ESign v s)) = snd (step spec_ccfg W key_alg alg_known e' (ESign v s)).
Proof. exact sign_outcome_depends_on_claims_only. Qed.
Print Assumptions C19_failure_not_sticky.

Theorem C19_every_signed_token_verifies : forall key_alg alg_known (e : ev) v s t,
  claims_state_ok e ->
  snd (step spec_ccfg W key_alg alg_known e (ESign v s)) = OutTok t ->
  key_alg (sg_key s) = sg_alg s -> alg_known (sg_alg s) = true ->
  forall e', verify_ok spec_ccfg W key_alg alg_known (fst (step spec_ccfg W key_alg alg_known e' (EDecode t))) (sg_key s) = true /\
             exists c c', e_claims e = Some c /\ e_claims (fst (step spec_ccfg W key_alg alg_known e' (EDecode t))) = Some c' /\ view c' = view c.
Proof. exact signed_token_verifies. Qed.
Print Assumptions C19_every_signed_token_verifies.

Theorem C19_verification_needs_alg_payload_signature : forall key_alg alg_known (e : ev) (k : N),
  verify_ok spec_ccfg W key_alg alg_known e k = true ->
  exists m a p, e_msg e = Some m /\ m_alg m = Some a /\ m_payload m = Some p /\
                m_sig m = Some (SigBy k a (Some a) p) /\ key_alg k = a /\ alg_known a = true.
Proof. exact verify_needs_alg_payload_sig. Qed.
Print Assumptions C19_verification_needs_alg_payload_signature.
