(** C05 -- No input bytes can make a decode entry point (or what it returns)
    panic.  PARTIAL: Go run-time panics are explicit in the model of
    psatoken's own code ([Panic] outcome of validators, getters, setters;
    bounds checks of the hand-rolled header reader), and the model never
    produces one; the third-party decoders (fxamacker/cbor, encoding/json,
    go-cose, eat) are represented by total Coq functions -- that they never
    panic is an assumption, exercised by the correspondence and the
    all-entry-points sweep.  Proofs in theories/ClaimsProofs.v,
    SetterProofs.v, EmbeddedProofs.v. *)
From Coq Require Import ZArith.
From PSA Require Import Base Lines Lifecycle Regex Claims ClaimsSpec ClaimsProofs SetterProofs Cbor Wire Codec Embedded EmbeddedProofs.
From PSA.Spec Require Import SpecTables.
Open Scope N_scope.

(** whatever a decoder returns can be validated and read through every getter without panicking *)
Theorem C05_validate_never_panics : forall c : claims, validate spec_ccfg c <> Panic.
Proof. exact validate_never_panics. Qed.
Print Assumptions C05_validate_never_panics.

Theorem C05_getters_never_panic : forall (id : claimid) (c : claims), status spec_ccfg id c <> Panic.
Proof. exact getter_never_panics. Qed.
Print Assumptions C05_getters_never_panic.

Theorem C05_setters_never_panic : forall (c : claims) (o : sop), snd (apply_sop spec_ccfg c o) <> Panic.
Proof. exact setter_never_panics. Qed.
Print Assumptions C05_setters_never_panic.

(** the hand-rolled reader: a lone tag head, an empty input and unbacked
    length fields are errors (the index and slice expressions of FromCBOR
    are guarded in the model exactly where the fixed code guards them) *)
Example C05_reader_edge_cases :
  from_cbor [] = None /\ from_cbor [xc0] = None /\ from_cbor [xd9; xd9; xf7] = None /\
  from_cbor [xa1] = None /\ from_cbor [xbf] = None /\ from_cbor [xa0] = Some [] /\ from_cbor [xbf; xff] = Some [].
Proof. vm_compute. repeat split. Qed.

(** a component list with a null element decodes, and validating / reading it is an error, not a panic (defect D1, fixed) *)
Example C05_null_component :
  get_swc spec_ccfg {| c_kind := K2; c_profile := None; c_client := None; c_lc := None; c_impl := None; c_boot := None;
                       c_cert := None; c_swc := Some [None]; c_nosw := None; c_nonce := None; c_inst := None; c_vsi := None; c_canon := [] |}
  = Err e_syntax.
Proof. reflexivity. Qed.
