(** C08 -- Validating entry points never let an invalid claims-set through.
    Theorems only; proofs in theories/EvidenceProofs.v.  The JSON gates are
    covered by the same composition in theories/Json.v (see C12). *)
From Coq Require Import ZArith.
From PSA Require Import Base Lines Lifecycle Regex Claims ClaimsSpec ClaimsProofs Cbor Tags Wire Codec Evidence Gates SetterProofs CodecProofs EvidenceProofs.
From PSA.Spec Require Import SpecTables SpecTags.
Open Scope N_scope.

Theorem C08_gates_block : forall key_alg alg_known (c : claims) (e : ev) (s : signer),
  validate spec_ccfg c <> Ok tt ->
  validate_and_encode spec_ccfg W c = None /\
  step spec_ccfg W key_alg alg_known e (ESetClaims c) = (e, OutErr) /\
  snd (step spec_ccfg W key_alg alg_known {| e_claims := Some c; e_msg := e_msg e |} (ESign true s)) = OutErr.
Proof. exact gates_block. Qed.
Print Assumptions C08_gates_block.

Theorem C08_gates_transparent : forall key_alg alg_known (c : claims) (e : ev) (s : signer),
  validate spec_ccfg c = Ok tt ->
  validate_and_encode spec_ccfg W c = encode_cbor W c /\
  step spec_ccfg W key_alg alg_known e (ESetClaims c) = ({| e_claims := Some c; e_msg := e_msg e |}, OutOk) /\
  step spec_ccfg W key_alg alg_known {| e_claims := Some c; e_msg := e_msg e |} (ESign true s) =
  step spec_ccfg W key_alg alg_known {| e_claims := Some c; e_msg := e_msg e |} (ESign false s).
Proof. exact gates_transparent. Qed.
Print Assumptions C08_gates_transparent.

Theorem C08_decode_gate : forall b : bytes,
  (forall c, decode_and_validate spec_ccfg W b = DOk c -> decode_cbor spec_ccfg W b = DOk c /\ validate spec_ccfg c = Ok tt) /\
  (forall c, decode_cbor spec_ccfg W b = DOk c -> validate spec_ccfg c = Ok tt -> decode_and_validate spec_ccfg W b = DOk c) /\
  (forall c, decode_cbor spec_ccfg W b = DOk c -> validate spec_ccfg c <> Ok tt -> decode_and_validate spec_ccfg W b = DErr).
Proof. exact decode_gate. Qed.
Print Assumptions C08_decode_gate.

(** what passes a gate is accepted when read back (uses C01 and C09) *)
Theorem C08_emitted_is_accepted : forall (c : claims) (b : bytes),
  claims_wire_ok c -> validate_and_encode spec_ccfg W c = Some b ->
  exists c', decode_and_validate spec_ccfg W b = DOk c' /\ view c' = view c.
Proof.
  intros c b Ok E. unfold validate_and_encode in E. destruct (validate spec_ccfg c) as [[]| |] eqn:V; try discriminate.
  destruct (encode_decode_roundtrip c b Ok E) as (c' & D & Vw). exists c'. split; [|exact Vw].
  unfold decode_and_validate. rewrite D.
  rewrite <- (validate_view c'), Vw, (validate_view c), V. reflexivity.
Qed.
Print Assumptions C08_emitted_is_accepted.

(** the JSON gates *)
From PSA Require Import Json JsonCodec JsonCross FormatProofs.
Theorem C08_json_gates : forall (c : claims) (j : json),
  (validate spec_ccfg c <> Ok tt -> validate_and_encode_json spec_ccfg W c = None) /\
  (validate spec_ccfg c = Ok tt -> validate_and_encode_json spec_ccfg W c = encode_json W c) /\
  (forall c', decode_and_validate_json spec_ccfg W j = DOk c' -> decode_json spec_ccfg W j = DOk c' /\ validate spec_ccfg c' = Ok tt) /\
  (forall c', decode_json spec_ccfg W j = DOk c' -> validate spec_ccfg c' = Ok tt -> decode_and_validate_json spec_ccfg W j = DOk c') /\
  (forall c', decode_json spec_ccfg W j = DOk c' -> validate spec_ccfg c' <> Ok tt -> decode_and_validate_json spec_ccfg W j = DErr).
Proof. exact json_gates. Qed.
Print Assumptions C08_json_gates.

Theorem C08_json_emitted_is_accepted : forall (c : claims) (j : json), builtin c -> texts_utf8 c ->
  validate_and_encode_json spec_ccfg W c = Some j ->
  exists c', decode_and_validate_json spec_ccfg W j = DOk c' /\ view c' = view c.
Proof. exact json_emitted_is_accepted. Qed.
Print Assumptions C08_json_emitted_is_accepted.
