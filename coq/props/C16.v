(** C16 -- Profile registry is append-only; every claims instance is
    independent.  Theorems only; proofs in theories/RegistryProofs.v.  The
    register is modelled as an append-only association list
    (theories/Registry.v); instance independence (no shared mutable state
    between the results of factories / decoders) is a fact about the Go heap:
    observed by the harness (mutate one instance through every setter,
    re-read all others), not proved. *)
From PSA Require Import Base Lines Claims Registry RegistryProofs.
From Coq Require Import Permutation.
Open Scope N_scope.

Theorem C16_register_existing_fails_unchanged : forall reg key name k jt ty e,
  reg_lookup reg key = Some e -> register reg key name k jt ty = (reg, false).
Proof. exact register_existing_fails_unchanged. Qed.
Print Assumptions C16_register_existing_fails_unchanged.

Theorem C16_register_untagged_fails_unchanged : forall reg key name k ty,
  register reg key name k None ty = (reg, false).
Proof. exact register_untagged_fails_unchanged. Qed.
Print Assumptions C16_register_untagged_fails_unchanged.

Theorem C16_register_result : forall reg key name k jt ty reg' b,
  register reg key name k jt ty = (reg', b) ->
  (b = false /\ reg' = reg) \/
  (b = true /\ reg_lookup reg key = None /\ exists t, jt = Some t /\
   reg' = (reg ++ [{| en_key := key; en_name := name; en_kind := k; en_jtag := t; en_type := ty |}])%list).
Proof. exact register_result. Qed.
Print Assumptions C16_register_result.

Theorem C16_lookup_monotone : forall reg e' key e,
  reg_lookup reg key = Some e -> reg_lookup (reg ++ [e'])%list key = Some e.
Proof. exact lookup_monotone. Qed.
Print Assumptions C16_lookup_monotone.

(** a new registration changes the outcome only for tokens declaring that profile *)
Theorem C16_register_frame_cbor : forall reg e' v,
  reg_lookup reg (en_key e') = None ->
  (forall s, v = PText s -> s <> en_key e') -> en_key e' <> [] ->
  dispatch_cbor (reg ++ [e'])%list v = dispatch_cbor reg v.
Proof. exact register_frame_cbor. Qed.
Print Assumptions C16_register_frame_cbor.

Theorem C16_register_frame_json : forall reg e' members,
  jmatches members e' = false ->
  (jpresent members e' = false \/ existsb (jpresent members) reg = true) ->
  reg_lookup reg [] <> None -> en_key e' <> [] ->
  dispatch_json (reg ++ [e'])%list members = dispatch_json reg members.
Proof. exact register_frame_json. Qed.
Print Assumptions C16_register_frame_json.

(** JSON dispatch gives the same outcome whatever order the register is iterated in *)
Theorem C16_json_dispatch_order_independent : forall reg reg' members,
  Permutation reg reg' ->
  (forall d d', In d reg -> In d' reg -> en_key d = [] -> en_key d' = [] -> en_name d = en_name d') ->
  option_map en_name (dispatch_json reg' members) = option_map en_name (dispatch_json reg members).
Proof. intros. rewrite !dispatch_json_name_ok. apply json_dispatch_order_independent; assumption. Qed.
Print Assumptions C16_json_dispatch_order_independent.
