(** C20 -- Only a well-formed tagged COSE_Sign1 carrying a claims map is
    evidence.  Theorems only; proofs in theories/CoseProofs.v.  One
    direction, as the property states it. *)
From PSA Require Import Base Lines Lifecycle Regex Claims Cbor Tags Wire Codec Cose CoseProofs.
From PSA.Spec Require Import SpecTables.
Open Scope N_scope.

(** if decoding succeeds, the input is the byte d2 (tag 18) followed by a
    complete, tag-free, definite-length array of exactly four elements
    beginning with the byte 84 and with nothing after it: a byte-string
    protected header, an unprotected header map, a byte-string payload and a
    non-empty byte-string signature; the payload is itself a complete CBOR
    map which decodes to the returned claims *)
Theorem C20_evidence_decode_sound : forall cc w (b : bytes) (v : envelope) (c : claims),
  decode_evidence cc w b = DOk (v, c) ->
  exists r u,
    b = xd2 :: r /\ hd_error r = Some x84 /\
    parse_all r = Some (CArray [CBytes (v_prot v); u; CBytes (v_payload v); CBytes (v_sig v)]) /\
    (exists m, u = CMap m) /\ v_sig v <> [] /\
    decode_cbor cc w (v_payload v) = DOk c /\
    exists kvs, parse_all (v_payload v) = Some (CMap kvs).
Proof. exact evidence_decode_sound. Qed.
Print Assumptions C20_evidence_decode_sound.

(** rejected shapes (each computed on the model; the correspondence runs the same inputs on the library) *)
Example C20_rejected_shapes :
  let w := {| w_p1 := []; w_p2 := []; w_swc := [] |} in
  (* COSE_Mac0 tag 17 *) cose_decode [xd1; x84; x40; xa0; x41; xa0; x41; x00] = DErr /\
  (* untagged *)         cose_decode [x84; x40; xa0; x41; xa0; x41; x00] = DErr /\
  (* three elements *)   cose_decode [xd2; x83; x40; xa0; x41] = DErr /\
  (* empty signature *)  cose_decode [xd2; x84; x40; xa0; x41; xa0; x40] = DErr /\
  (* nil payload *)      cose_decode [xd2; x84; x40; xa0; xf6; x41; x00] = DErr /\
  (* trailing byte *)    cose_decode [xd2; x84; x40; xa0; x41; xa0; x41; x00; x00] = DErr /\
  (* accepted *)         (exists v, cose_decode [xd2; x84; x40; xa0; x41; xa0; x41; x00] = DOk v).
Proof. cbv zeta. repeat split; try (vm_compute; reflexivity). eexists. vm_compute. reflexivity. Qed.
