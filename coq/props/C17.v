(** C17 -- Read-side API is safe for concurrent use.  PARTIAL: what is proved
    is the result half of the property at call granularity: threads perform
    their calls one at a time in an arbitrary order chosen by a scheduler;
    a call is a read-side call on the shared objects or any call on the
    thread's own objects.  For EVERY schedule each thread is where it would
    be after running some of its calls alone, the shared objects are
    untouched, and any two complete schedules -- a concurrent one and the
    sequential one, which is proved to be complete -- leave every thread with
    the same outputs.  Data races inside a call are below this granularity:
    they are excluded by the effect tables regenerated from the source (no
    read-side method writes through its receiver; package-level state is
    written by profile registration only) and observed with the Go race
    detector.  Proofs in theories/ConcProofs.v, PurityProofs.v. *)
From Coq Require Import String ZArith List.
From PSA Require Import Base Lines Claims Tags Wire Codec Evidence Purity PurityProofs RunEv RunPur Conc ConcProofs RunConc.
Import ListNotations.

Section C17.
Variable cc : ccfg.
Variable w : wcfg.
Variable c0 : claims.

Notation rstep := (rstepB spec_fx cc w).
Notation wstep := (wstepB spec_fx cc w c0).

Lemma rstep_pure : forall s o, consistent s -> fst (rstep s o) = s.
Proof.
  intros s o C. unfold rstepB. pose proof (read_preserves_state cc w key_alg alg_known s o C) as H.
  destruct (pstep spec_fx cc w key_alg alg_known s o) as [s' out]. exact H.
Qed.

Theorem C17_every_schedule_tracks_solo_runs : forall c sched, consistent (g_sh c) ->
  tracks pstate pstate rop wop bytes rstep wstep c (run_sched pstate pstate rop wop bytes rstep wstep c sched).
Proof. intros c sched. exact (schedule_independent _ _ _ _ _ rstep wstep consistent rstep_pure c sched). Qed.

Theorem C17_complete_schedules_agree : forall c s1 s2, consistent (g_sh c) ->
  finished pstate pstate rop wop bytes (run_sched pstate pstate rop wop bytes rstep wstep c s1) ->
  finished pstate pstate rop wop bytes (run_sched pstate pstate rop wop bytes rstep wstep c s2) ->
  g_sh (run_sched pstate pstate rop wop bytes rstep wstep c s1) = g_sh c /\
  g_sh (run_sched pstate pstate rop wop bytes rstep wstep c s2) = g_sh c /\
  forall i, nth_error (g_th (run_sched pstate pstate rop wop bytes rstep wstep c s1)) i =
            nth_error (g_th (run_sched pstate pstate rop wop bytes rstep wstep c s2)) i.
Proof. intros c s1 s2. exact (complete_schedules_agree _ _ _ _ _ rstep wstep consistent rstep_pure c s1 s2). Qed.

Theorem C17_sequential_run_is_a_complete_schedule : forall c, consistent (g_sh c) ->
  finished pstate pstate rop wop bytes
    (run_sched pstate pstate rop wop bytes rstep wstep c (seq_sched pstate rop wop bytes 0 (g_th c))).
Proof.
  intros c C.
  exact (sequential_schedule_complete _ _ _ _ _ rstep wstep consistent rstep_pure (g_th c) [] c C eq_refl (fun t (H : In t []) => match H with end)).
Qed.

Theorem C17_shared_start_state_consistent : forall k,
  consistent (fst (start cc w key_alg alg_known c0 (mk_signer k))).
Proof. intro k. exact (start_consistent cc w key_alg alg_known c0 (mk_signer k)). Qed.
End C17.
Print Assumptions C17_every_schedule_tracks_solo_runs.
Print Assumptions C17_complete_schedules_agree.
Print Assumptions C17_sequential_run_is_a_complete_schedule.
Print Assumptions C17_shared_start_state_consistent.
