(** C14 -- Security-lifecycle values map to the specified state, totally.
    Theorems only; proofs live in theories/LifecycleProofs.v and
    theories/ClaimsProofs.v.  The model is instantiated with the specified
    tables; ties/TieConsts.v shows the tables regenerated from /repo are
    equal to them. *)
From PSA Require Import Base Lines Lifecycle Claims LifecycleProofs.
From PSA.Spec Require Import SpecTables.
Open Scope N_scope.

(** every value (not only the 65 536 a uint16 can hold) maps to the state
    whose 256-value page contains it, and to the invalid state otherwise *)
Theorem C14_mapping_total : forall v : N, lc_to_state spec_lc v = spec_state v.
Proof. exact lc_to_state_spec. Qed.
Print Assumptions C14_mapping_total.

(** the validator accepts exactly the values whose state is not invalid *)
Theorem C14_validator_iff : forall v : N, validate_lc spec_lc v = Ok tt <-> spec_state v <> 7.
Proof. exact validate_lc_iff. Qed.
Print Assumptions C14_validator_iff.

Theorem C14_validator_error_class : forall v : N, spec_state v = 7 -> validate_lc spec_lc v = Err e_syntax.
Proof. exact validate_lc_err. Qed.
Print Assumptions C14_validator_error_class.

(** state names are the specified strings *)
Theorem C14_state_names : forall s : N, lc_state_name spec_lc s = spec_name s.
Proof. exact lc_names_spec. Qed.
Print Assumptions C14_state_names.

(** both profiles' setters and getters accept a value iff its state is not
    invalid, whatever the claims-set held before *)
Theorem C14_setter_iff : forall (c : claims) (v : N),
  snd (set_lc spec_ccfg c v) = Ok tt <-> spec_state v <> 7.
Proof. exact set_lc_iff. Qed.
Print Assumptions C14_setter_iff.

Theorem C14_setter_effect : forall (c : claims) (v : N),
  (spec_state v <> 7 -> c_lc (fst (set_lc spec_ccfg c v)) = Some v) /\
  (spec_state v = 7 -> fst (set_lc spec_ccfg c v) = c).
Proof. exact set_lc_effect. Qed.
Print Assumptions C14_setter_effect.

Theorem C14_getter_iff : forall (c : claims) (v : N),
  c_lc c = Some v -> (get_lc spec_ccfg c = Ok v <-> spec_state v <> 7).
Proof. exact get_lc_iff. Qed.
Print Assumptions C14_getter_iff.

(** non-vacuity: both outcomes occur *)
Example C14_witness : spec_state 0x30a5 = 3 /\ spec_state 0x6100 = 7 /\ spec_state 0x8000 = 7.
Proof. vm_compute. repeat split. Qed.
