(** C15 -- Embedding-aware codec merges, round-trips and matches the plain
    codec.  Proofs in theories/EmbeddedProofs.v.  The header theorem and the
    map-shape theorem hold for every entry count / every map; the round trip
    is proved by exhaustive computation for the finite family of struct
    shapes of the harness x every subset of set fields (representative
    values), and tied to the library for random values by correspondence. *)
From Coq Require Import String ZArith.
From PSA Require Import Base Lines Cbor Wire Embedded RunEmb EmbeddedProofs EmbeddedRoundtrip EmbeddedFlat EmbeddedDeep.
Open Scope N_scope.

Theorem C15_header_correct : forall n : N, n < 2 ^ 32 -> map_header n = head 5 n.
Proof. exact header_correct. Qed.
Print Assumptions C15_header_correct.

Theorem C15_output_is_one_map : forall m : list (Z * cbor),
  N.of_nat (length m) < 2 ^ 32 ->
  to_cbor (map (fun kv => (fst kv, enc (snd kv))) m) = enc (CMap (map (fun kv => (enc_int (fst kv), snd kv)) m)).
Proof. exact to_cbor_is_map. Qed.
Print Assumptions C15_output_is_one_map.

Theorem C15_roundtrip_all_shapes_all_subsets :
  forallb (fun name => forallb (roundtrip_ok name) (masks 5))
          ["flat"; "emb1"; "emb2"; "iface"; "ifacenil"; "allopt"]%string = true.
Proof. exact roundtrip_all_shapes_all_subsets. Qed.
Print Assumptions C15_roundtrip_all_shapes_all_subsets.

Theorem C15_all_empty_struct_roundtrips :
  exists sh, shape_of (s2b "allopt") = Some sh /\ serialize sh = Some [xa0] /\ populate [xa0] sh = Some sh.
Proof. exact all_empty_roundtrip. Qed.
Print Assumptions C15_all_empty_struct_roundtrips.

Theorem C15_duplicate_and_missing_are_errors :
  (exists sh, shape_of (s2b "dup") = Some sh /\ serialize (fst (fill_mask 64 sh 3 0)) = None) /\
  (exists sh, shape_of (s2b "flat") = Some sh /\ populate [xa0] sh = None) /\
  from_cbor [xa2; x01; x02; x01; x03] = None.
Proof. exact duplicate_and_missing_are_errors. Qed.
Print Assumptions C15_duplicate_and_missing_are_errors.

(** the reader inverts the writer: every map of scalar values, distinct int64 keys, fewer than 2^32 entries *)
Theorem C15_reader_inverts_writer : forall l : list (Z * cbor),
  pairs_ok l -> N.of_nat (length l) < 2 ^ 32 ->
  from_cbor (to_cbor (map (fun kv => (fst kv, enc (snd kv))) l)) = Some (map (fun kv => (fst kv, enc (snd kv))) l).
Proof. exact from_cbor_to_cbor. Qed.
Print Assumptions C15_reader_inverts_writer.

(** structs without embedding: populate (serialize s) = s for every shape and every well-typed value assignment *)
Theorem C15_flat_struct_roundtrip : forall its : list item,
  Forall flat_item its -> Forall item_ok its -> NoDup (keys_of its) -> N.of_nat (length its) < 2 ^ 32 ->
  exists b, serialize its = Some b /\ populate b (map clear_item its) = Some its.
Proof. exact flat_struct_roundtrip. Qed.
Print Assumptions C15_flat_struct_roundtrip.

(** every struct shape following the claims convention (embedded structs and interfaces to any depth the
    codec supports, keys pairwise distinct over all levels) and every well-typed value assignment *)
Theorem C15_struct_roundtrip : forall its : list item,
  shape_ok 16 its -> NoDup (keys_of (flatten 16 its)) -> N.of_nat (length (flatten 16 its)) < 2 ^ 32 ->
  exists b, serialize its = Some b /\ populate b (deep_clear 16 its) = Some its.
Proof. exact struct_roundtrip. Qed.
Print Assumptions C15_struct_roundtrip.
