(** C09 -- CBOR encode/decode is the identity on claims and stable on bytes.
    Theorems only; proofs in theories/CborProofs.v, CodecProofs.v,
    FormatProofs.v.  [claims_wire_ok] spells out what a claims-set needs in
    order to exist on the wire at all (valid UTF-8 texts, sizes a CBOR head
    can express, the profile's canonical name); every valid claims-set of a
    built-in profile with valid UTF-8 texts satisfies it
    ([C09_valid_is_wire_ok]).  Without the UTF-8 premise the statement is
    false of the faithful model AND of the library (open finding K2):
    [C09_invalid_utf8_refuted]. *)
From Coq Require Import String.
From PSA Require Import Base Lines Lifecycle Regex Claims ClaimsSpec ClaimsProofs Cbor CborProofs Utf8 Tags Wire Codec SetterProofs CodecProofs FormatProofs.
From PSA.Spec Require Import SpecTables SpecTags.
Open Scope N_scope.

(** byte-level CBOR: decoding the encoding of ANY representable data item
    (within the decoder's nesting limit) returns it and consumes exactly its bytes *)
Theorem C09_cbor_item_roundtrip : forall (t : cbor) (fuel : nat) (rest : bytes),
  wf t -> (depth t <= fuel)%nat -> parse fuel (enc t ++ rest)%list = Some (t, rest).
Proof. exact parse_enc. Qed.
Print Assumptions C09_cbor_item_roundtrip.

(** decoding the encoding of a claims-set yields a claims-set with the same
    observable content: every getter and validation give the same result *)
Theorem C09_decode_encode_identity : forall (c : claims) (b : bytes),
  claims_wire_ok c -> encode_cbor W c = Some b ->
  exists c', decode_cbor spec_ccfg W b = DOk c' /\ view c' = view c /\
             (forall id, status spec_ccfg id c' = status spec_ccfg id c) /\
             validate spec_ccfg c' = validate spec_ccfg c.
Proof.
  intros c b Ok E. destruct (encode_decode_roundtrip c b Ok E) as (c' & D & V).
  exists c'. split; [exact D|]. split; [exact V|]. split.
  - intro id. rewrite <- (status_view id c'), <- (status_view id c), V. reflexivity.
  - rewrite <- (validate_view c'), <- (validate_view c), V. reflexivity.
Qed.
Print Assumptions C09_decode_encode_identity.

(** ... and encoding that again yields the identical bytes *)
Theorem C09_reencode_byte_stable : forall (c : claims) (b : bytes),
  claims_wire_ok c -> (c_kind c = K1 \/ comps c <> []) -> encode_cbor W c = Some b ->
  exists c', decode_cbor spec_ccfg W b = DOk c' /\ encode_cbor W c' = Some b.
Proof.
  intros c b Ok H E. destruct (encode_decode_roundtrip c b Ok E) as (c' & D & V).
  exists c'. split; [exact D|]. rewrite (encode_depends_on_view c c' V H). exact E.
Qed.
Print Assumptions C09_reencode_byte_stable.

(** the second clause: a claims-set that need not be valid either fails to
    encode or re-encodes to bytes that decode to the same getter results --
    this is [C09_decode_encode_identity], which does not assume validity *)

Theorem C09_valid_is_wire_ok : forall c : claims,
  conformant c = true -> builtin c -> texts_utf8 c -> claims_wire_ok c.
Proof. exact valid_is_wire_ok. Qed.
Print Assumptions C09_valid_is_wire_ok.

Theorem C09_valid_always_encodes : forall c : claims,
  claims_wire_ok c -> validate spec_ccfg c = Ok tt -> encode_cbor W c <> None.
Proof.
  intros c Ok V E. unfold encode_cbor, encode_tree in E. change (w_swc W) with spec_swc_fields in E.
  destruct (enc_fields_gen (claim_value spec_swc_fields) (tags_of W (c_kind c)) c) eqn:EF; [discriminate|].
  exact (valid_encodes c Ok V EF).
Qed.
Print Assumptions C09_valid_always_encodes.

(** open finding K2: a text claim that is not valid UTF-8 validates, is
    emitted, and the emitted bytes do not decode *)
Definition rep (n : nat) (b : byte) : bytes := repeat b n.
Definition k2_claims : claims := {|
  c_kind := K1; c_profile := None; c_client := Some 1%Z; c_lc := Some 0x3000; c_impl := Some (rep 32 x01);
  c_boot := Some (rep 32 x02); c_cert := None; c_swc := None; c_nosw := Some 1;
  c_nonce := Some [rep 32 x03]; c_inst := Some (x01 :: rep 32 x04); c_vsi := Some [xff; xfe]; c_canon := prof1 spec_ccfg |}.
Example C09_invalid_utf8_refuted :
  validate spec_ccfg k2_claims = Ok tt /\
  exists b, encode_cbor W k2_claims = Some b /\ decode_cbor spec_ccfg W b = DErr.
Proof. split; [vm_compute; reflexivity|]. eexists. split. { vm_compute. reflexivity. } vm_compute. reflexivity. Qed.

(** non-vacuity: a wire-representable valid claims-set *)
Definition ok_claims : claims := {|
  c_kind := K2; c_profile := Some (PStr (prof2 spec_ccfg)); c_client := Some (-5)%Z; c_lc := Some 0x3000; c_impl := Some (rep 32 x01);
  c_boot := None; c_cert := Some (Lines.s2b "1234567890123-12345"%string);
  c_swc := Some [Some {| sw_mtype := Some [x42]; sw_mval := Some (rep 32 x05); sw_version := None; sw_signer := Some (rep 48 x06); sw_mdesc := None |}];
  c_nosw := None; c_nonce := Some [rep 64 x03]; c_inst := Some (x01 :: rep 32 x04); c_vsi := None; c_canon := prof2 spec_ccfg |}.
Example C09_witness :
  validate spec_ccfg ok_claims = Ok tt /\
  exists b, encode_cbor W ok_claims = Some b /\ decode_cbor spec_ccfg W b = DOk ok_claims.
Proof. split; [vm_compute; reflexivity|]. eexists. split. { vm_compute. reflexivity. } vm_compute. reflexivity. Qed.
