(** C01 -- Validate() accepts a claims-set iff it satisfies its profile's
    rules.  Theorems only; proofs in theories/ClaimsProofs.v.  [conformant]
    (theories/ClaimsSpec.v) is the declarative transcription of the rules;
    [spec_ccfg] is the specified table, tied to /repo by ties/TieConsts.v. *)
From Coq Require Import String.
From PSA Require Import Base Lines Lifecycle Regex Claims ClaimsSpec ClaimsProofs.
From PSA.Spec Require Import SpecTables.
Open Scope N_scope.

Theorem C01_validate_iff_conformant : forall c : claims,
  validate spec_ccfg c = Ok tt <-> conformant c = true.
Proof. exact validate_iff_conformant. Qed.
Print Assumptions C01_validate_iff_conformant.

Theorem C01_validate_never_panics : forall c : claims, validate spec_ccfg c <> Panic.
Proof. exact validate_never_panics. Qed.
Print Assumptions C01_validate_never_panics.

(** the verdict depends on nothing else: claims-sets that agree on
    everything the rules mention get the same verdict *)
Theorem C01_depends_on_nothing_else : forall c c' : claims,
  erase c = erase c' -> (validate spec_ccfg c = Ok tt <-> validate spec_ccfg c' = Ok tt).
Proof. exact validate_depends_only_on_rules. Qed.
Print Assumptions C01_depends_on_nothing_else.

(** after a successful validation every mandatory getter succeeds with a
    conformant value and every optional getter returns a conformant value
    or the missing-optional error *)
Theorem C01_getters_after_validate : forall c : claims,
  validate spec_ccfg c = Ok tt ->
  (exists v, get_client c = Ok v) /\
  (exists v, get_lc spec_ccfg c = Ok v /\ lc_page_ok v = true) /\
  (exists v, get_impl spec_ccfg c = Ok v /\ blen v = 32) /\
  (exists v, get_nonce spec_ccfg c = Ok v /\ hash_size v = true) /\
  (exists v, get_inst spec_ccfg c = Ok v /\ blen v = 33 /\ hd_error v = Some x01) /\
  (exists v, get_profile c = Ok v /\ v = c_canon c) /\
  (exists l, get_swc spec_ccfg c = Ok l /\ forallb swc_wf l = true /\ (c_kind c = K2 -> l <> [])) /\
  ((exists v, get_boot spec_ccfg c = Ok v /\ (match c_kind c with K1 => blen v = 32 | K2 => 8 <= blen v <= 32 end)) \/
   (c_kind c = K2 /\ get_boot spec_ccfg c = Err e_opt)) /\
  ((exists v, get_cert spec_ccfg c = Ok v /\ cert_format (c_kind c) v = true) \/ get_cert spec_ccfg c = Err e_opt) /\
  ((exists v, get_vsi c = Ok v /\ v <> []) \/ get_vsi c = Err e_opt).
Proof. exact getters_after_validate. Qed.
Print Assumptions C01_getters_after_validate.

(** the regular expressions of the specified table denote the formats *)
Theorem C01_cert_formats : forall s : bytes,
  re_match spec_re1 s = ean13 s /\ re_match spec_re2 s = ean13_5 s.
Proof. intro s. split; [apply RegexProofs.re1_is_ean13 | apply RegexProofs.re2_is_ean13_5]. Qed.
Print Assumptions C01_cert_formats.

(** non-vacuity: a conformant claims-set of each profile, and near misses *)
Definition rep (n : nat) (b : byte) : bytes := repeat b n.
Definition ex_swc : swc := {| sw_mtype := None; sw_mval := Some (rep 32 x11); sw_version := None; sw_signer := Some (rep 48 x22); sw_mdesc := None |}.
Definition ex_p1 : claims := {|
  c_kind := K1; c_profile := None; c_client := Some (-1)%Z; c_lc := Some 0x3000; c_impl := Some (rep 32 x01);
  c_boot := Some (rep 32 x02); c_cert := Some (Lines.s2b "1234567890123"%string); c_swc := Some []; c_nosw := Some 1;
  c_nonce := Some [rep 64 x03]; c_inst := Some (x01 :: rep 32 x04); c_vsi := None; c_canon := prof1 spec_ccfg |}.
Definition ex_p2 : claims := {|
  c_kind := K2; c_profile := Some (PStr (prof2 spec_ccfg)); c_client := Some 7%Z; c_lc := Some 0x60ff; c_impl := Some (rep 32 x01);
  c_boot := Some (rep 8 x02); c_cert := Some (Lines.s2b "1234567890123-12345"%string); c_swc := Some [Some ex_swc]; c_nosw := None;
  c_nonce := Some [rep 32 x03]; c_inst := Some (x01 :: rep 32 x04); c_vsi := Some [x41]; c_canon := prof2 spec_ccfg |}.
Example C01_witnesses :
  conformant ex_p1 = true /\ conformant ex_p2 = true /\
  conformant (upd_boot ex_p2 (Some (rep 7 x02))) = false /\
  conformant (upd_cert ex_p2 (Some (Lines.s2b "1234567890123"%string))) = false /\
  conformant (upd_swc ex_p1 (Some [Some ex_swc]) (Some 1)) = false.
Proof. vm_compute. repeat split. Qed.
