(** C02 -- A modified token or a different key never verifies.  PARTIAL:
    the structure is proved (what the signature binds, what verification
    requires); unforgeability is the explicit hypothesis [sig_ideal], which
    remains a premise of the closed theorems.  Proofs in theories/CoseProofs.v. *)
From Coq Require Import ZArith.
From PSA Require Import Base Lines Lifecycle Regex Claims Cbor CborProofs Tags Wire Codec Cose CoseProofs.
Open Scope N_scope.

(** the signed bytes determine protected header and payload (no cryptography involved) *)
Theorem C02_sig_structure_injective : forall p1 pl1 p2 pl2 : bytes,
  blen p1 < 2 ^ 64 -> blen pl1 < 2 ^ 64 -> blen p2 < 2 ^ 64 -> blen pl2 < 2 ^ 64 ->
  sig_structure p1 pl1 = sig_structure p2 pl2 -> p1 = p2 /\ pl1 = pl2.
Proof. exact sig_structure_injective. Qed.
Print Assumptions C02_sig_structure_injective.

Theorem C02_tamper_rejected :
  forall (sigvalid : N -> Z -> bytes -> bytes -> bool) (key_alg : N -> Z),
  (forall k a m k' a' m' s, sigvalid k a m s = true -> sigvalid k' a' m' s = true -> k = k' /\ a = a' /\ m = m') ->
  forall (vo vt : envelope) (k vk : N),
  sizes_ok vo -> sizes_ok vt ->
  verify_env sigvalid key_alg vo k = true ->
  v_sig vt = v_sig vo ->
  (v_prot vt <> v_prot vo \/ v_payload vt <> v_payload vo \/ vk <> k) ->
  verify_env sigvalid key_alg vt vk = false.
Proof. exact tamper_rejected. Qed.
Print Assumptions C02_tamper_rejected.

Theorem C02_foreign_signature_rejected :
  forall (sigvalid : N -> Z -> bytes -> bytes -> bool) (key_alg : N -> Z),
  (forall k a m k' a' m' s, sigvalid k a m s = true -> sigvalid k' a' m' s = true -> k = k' /\ a = a' /\ m = m') ->
  forall (vt : envelope) (vk k2 : N) (a2 : Z) (p2 pl2 : bytes),
  sizes_ok vt -> blen p2 < 2 ^ 64 -> blen pl2 < 2 ^ 64 ->
  sigvalid k2 a2 (sig_structure p2 pl2) (v_sig vt) = true ->
  (v_prot vt <> p2 \/ v_payload vt <> pl2 \/ vk <> k2) ->
  verify_env sigvalid key_alg vt vk = false.
Proof. exact foreign_signature_rejected. Qed.
Print Assumptions C02_foreign_signature_rejected.

Theorem C02_verify_needs_algorithm :
  forall (sigvalid : N -> Z -> bytes -> bytes -> bool) (key_alg : N -> Z) (v : envelope) (vk : N),
  verify_env sigvalid key_alg v vk = true -> exists a, v_alg v = Some a /\ a = key_alg vk.
Proof. exact verify_needs_algorithm. Qed.
Print Assumptions C02_verify_needs_algorithm.

Theorem C02_decoded_has_payload_and_signature : forall (b : bytes) (v : envelope),
  cose_decode b = DOk v -> v_sig v <> [].
Proof. exact decoded_has_payload_and_signature. Qed.
Print Assumptions C02_decoded_has_payload_and_signature.

(** the ideal-signature hypothesis is satisfiable by a scheme in which a signature verifies *)
Theorem C02_hypothesis_satisfiable :
  exists sigvalid : N -> Z -> bytes -> bytes -> bool,
    (forall k a m k' a' m' s, sigvalid k a m s = true -> sigvalid k' a' m' s = true -> k = k' /\ a = a' /\ m = m') /\
    (exists k a m s, sigvalid k a m s = true).
Proof. exact ideal_scheme_exists. Qed.
