(** C11 -- Setters accept exactly what validation accepts and are
    all-or-nothing.  Theorems only; proofs in theories/SetterProofs.v.
    [apply_sop] is the operational setter of the model (the function the
    correspondence harness runs), [accepted]/[write] its declarative
    decomposition, [view] the observable part of a claims-set (an empty
    component container equals no container). *)
From PSA Require Import Base Lines Lifecycle Regex Claims ClaimsSpec ClaimsProofs SetterProofs.
From PSA.Spec Require Import SpecTables.
Open Scope N_scope.

(** a setter succeeds iff the value is acceptable; success writes exactly
    that claim; failure leaves the claims-set observably unchanged *)
Theorem C11_setter_spec : forall (c : claims) (o : sop),
  (accepted (c_kind c) o = true /\ snd (apply_sop spec_ccfg c o) = Ok tt /\
   view (fst (apply_sop spec_ccfg c o)) = view (write o c)) \/
  (accepted (c_kind c) o = false /\ (exists e, snd (apply_sop spec_ccfg c o) = Err e) /\
   view (fst (apply_sop spec_ccfg c o)) = view c).
Proof. exact apply_sop_spec. Qed.
Print Assumptions C11_setter_spec.

Theorem C11_setter_succeeds_iff : forall (c : claims) (o : sop),
  snd (apply_sop spec_ccfg c o) = Ok tt <-> accepted (c_kind c) o = true.
Proof. exact setter_succeeds_iff. Qed.
Print Assumptions C11_setter_succeeds_iff.

(** "acceptable" is what the same profile's validation accepts for that
    claim (the clear operation being exempt) *)
Theorem C11_accepted_is_validation_rule : forall (c : claims) (o : sop),
  is_clear (c_kind c) o = false ->
  accepted (c_kind c) o = conf_of (slot o) (write o c).
Proof. exact accepted_iff_validation_accepts. Qed.
Print Assumptions C11_accepted_is_validation_rule.

Theorem C11_getter_returns_set_value : forall (c : claims) (o : sop),
  accepted (c_kind c) o = true ->
  match o with
  | OClient v => get_client (write o c) = Ok v
  | OLc v => get_lc spec_ccfg (write o c) = Ok v
  | OImpl v => get_impl spec_ccfg (write o c) = Ok v
  | OBoot v => get_boot spec_ccfg (write o c) = Ok v
  | OCert v => get_cert spec_ccfg (write o c) = Ok v
  | ONonce v => get_nonce spec_ccfg (write o c) = Ok v
  | OInst v => get_inst spec_ccfg (write o c) = Ok v
  | OVsi v => get_vsi (write o c) = Ok v
  | OSwc (Some (s :: l)) => get_swc spec_ccfg (write o c) = Ok (s :: l)
  | OSwc _ => True
  end.
Proof. exact getter_returns_set_value. Qed.
Print Assumptions C11_getter_returns_set_value.

Theorem C11_failure_unchanged : forall (c : claims) (o : sop) (e : goerr),
  snd (apply_sop spec_ccfg c o) = Err e -> view (fst (apply_sop spec_ccfg c o)) = view c.
Proof. exact setter_failure_unchanged. Qed.
Print Assumptions C11_failure_unchanged.

Theorem C11_setters_never_panic : forall (c : claims) (o : sop), snd (apply_sop spec_ccfg c o) <> Panic.
Proof. exact setter_never_panics. Qed.
Print Assumptions C11_setters_never_panic.

(** getters and validation only see the view *)
Theorem C11_view_is_observable : forall (id : claimid) (c : claims),
  status spec_ccfg id (view c) = status spec_ccfg id c /\ validate spec_ccfg (view c) = validate spec_ccfg c.
Proof. intros id c. split; [apply status_view | apply validate_view]. Qed.
Print Assumptions C11_view_is_observable.

(** for every history of setter calls, from any start: the observable
    final state is the closed form over the last accepted call per claim --
    order and repetition are irrelevant *)
Theorem C11_history_closed_form : forall (ops : list sop) (c : claims),
  view (run_sops spec_ccfg ops c) = view (final (filter (accepted (c_kind c)) ops) c).
Proof. exact history_closed_form. Qed.
Print Assumptions C11_history_closed_form.

Theorem C11_order_irrelevant : forall (ops1 ops2 : list sop) (c : claims),
  final (filter (accepted (c_kind c)) ops1) c = final (filter (accepted (c_kind c)) ops2) c ->
  view (run_sops spec_ccfg ops1 c) = view (run_sops spec_ccfg ops2 c).
Proof. exact order_irrelevant. Qed.
Print Assumptions C11_order_irrelevant.

(** from a constructor, after any history that leaves every mandatory
    claim present, the claims-set validates *)
Theorem C11_mandatory_set_validates : forall (ops : list sop) (c0 : claims),
  (c0 = new_p1 spec_ccfg true \/ c0 = new_p1 spec_ccfg false \/ c0 = new_p2 spec_ccfg) ->
  mandatory_present (run_sops spec_ccfg ops c0) ->
  validate spec_ccfg (run_sops spec_ccfg ops c0) = Ok tt.
Proof. exact mandatory_set_validates. Qed.
Print Assumptions C11_mandatory_set_validates.

(** non-vacuity: a history with rejected calls interleaved that ends valid *)
Definition rep (n : nat) (b : byte) : bytes := repeat b n.
Definition ex_comp : swc := {| sw_mtype := None; sw_mval := Some (rep 32 x11); sw_version := None; sw_signer := Some (rep 32 x22); sw_mdesc := None |}.
Definition ex_hist : list sop :=
  [OImpl (rep 31 x01); OImpl (rep 32 x01); OClient 5%Z; OLc 0x8000; OLc 0x2001; ONonce (rep 48 x03); OInst (x00 :: rep 32 x04);
   OInst (x01 :: rep 32 x04); OSwc (Some [ex_comp]); OBoot (rep 7 x05); OImpl (rep 33 x09)].
Example C11_witness :
  validate spec_ccfg (run_sops spec_ccfg ex_hist (new_p2 spec_ccfg)) = Ok tt /\
  c_impl (run_sops spec_ccfg ex_hist (new_p2 spec_ccfg)) = Some (rep 32 x01) /\
  c_boot (run_sops spec_ccfg ex_hist (new_p2 spec_ccfg)) = None.
Proof. vm_compute. repeat split. Qed.
