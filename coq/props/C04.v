(** C04 -- CBOR acceptance equals profile conformance; accepted values equal
    the wire.  PARTIAL (see DESIGN.md): proved are the exactness of every
    scalar conversion of the typed decoder (no wrap-around, no coercion),
    that unknown integer keys and repeated keys do not influence the result,
    that acceptance implies validity of the decoded claims (C08) and -- via
    C09 -- that for every token the library itself can emit the decoded
    values are exactly the wire values.  The full biconditional "accept iff
    every known key has the right CBOR type" is REFUTED for the faithful
    model and for the library (open finding K1): [C04_array_as_bytes_refuted]. *)
From Coq Require Import ZArith Permutation.
From PSA Require Import Base Lines Lifecycle Regex Claims ClaimsSpec ClaimsProofs Cbor Utf8 Tags Wire WireProofs Codec Gates SetterProofs CodecProofs EvidenceProofs DecodeProofs DecodePerm DecodeExt.
From PSA.Spec Require Import SpecTables SpecTags.
Open Scope N_scope.

Theorem C04_integer_claims_exact : forall bits v z, dec_int bits v = Some z ->
  (exists n, v = CUint n /\ n < 2 ^ (bits - 1) /\ z = Z.of_N n) \/
  (exists n, v = CNint n /\ n < 2 ^ (bits - 1) /\ z = (- Z.of_N n - 1)%Z) \/
  (exists n, v = CSimple n /\ z = Z.of_N n).
Proof. exact dec_int_exact. Qed.
Print Assumptions C04_integer_claims_exact.

Theorem C04_unsigned_claims_exact : forall bits v n, dec_uint bits v = Some n ->
  (v = CUint n /\ n < 2 ^ bits) \/ (v = CSimple n).
Proof. exact dec_uint_exact. Qed.
Print Assumptions C04_unsigned_claims_exact.

Theorem C04_text_claims_exact : forall v s, dec_text v = Some s -> v = CText s /\ utf8_valid s = true.
Proof. exact dec_text_exact. Qed.
Print Assumptions C04_text_claims_exact.

Theorem C04_bytes_claims_exact : forall v b, dec_bytes v = Some b -> v = CBytes b \/ exists l, v = CArray l.
Proof. exact dec_bytes_exact. Qed.
Print Assumptions C04_bytes_claims_exact.

Theorem C04_unknown_keys_ignored : forall A tags (setf : field_tag -> cbor -> A -> option A) z v,
  (- 2 ^ 63 <= z < 2 ^ 63)%Z -> find_field tags z = None ->
  forall pre post found a err,
  dec_pairs tags setf (pre ++ (enc_int z, v) :: post) found a err = dec_pairs tags setf (pre ++ post) found a err.
Proof. intros A. exact (@dec_pairs_skip_unknown A). Qed.
Print Assumptions C04_unknown_keys_ignored.

Theorem C04_repeated_key_ignored : forall A tags (setf : field_tag -> cbor -> A -> option A) z v post found a err,
  (- 2 ^ 63 <= z < 2 ^ 63)%Z -> zmem z found = true ->
  dec_pairs tags setf ((enc_int z, v) :: post) found a err = dec_pairs tags setf post found a err.
Proof. intros A. exact (@dec_pairs_dup_ignored A). Qed.
Print Assumptions C04_repeated_key_ignored.

Theorem C04_accepted_is_valid : forall (b : bytes) (c : claims),
  decode_and_validate spec_ccfg W b = DOk c -> decode_cbor spec_ccfg W b = DOk c /\ validate spec_ccfg c = Ok tt.
Proof. intros b c. apply (decode_gate b). Qed.
Print Assumptions C04_accepted_is_valid.

(** for every token the library can emit, the decoded claims are the wire values *)
Theorem C04_values_equal_wire_for_emitted : forall (c : claims) (b : bytes),
  claims_wire_ok c -> encode_cbor W c = Some b ->
  exists c', decode_cbor spec_ccfg W b = DOk c' /\ view c' = view c.
Proof. exact encode_decode_roundtrip. Qed.
Print Assumptions C04_values_equal_wire_for_emitted.

Example C04_array_as_bytes_refuted :
  exists c, decode_and_validate spec_ccfg W (enc k1_token) = DOk c /\ c_impl c = Some (rep 32 x07) /\
            lenient_cbor spec_ccfg W (enc k1_token) = true.
Proof. exact array_as_bytes_refuted. Qed.

(** key order: two tokens whose claims maps hold the same pairs in a different order (integer keys
    pairwise distinct) get the same verdict and the same claims-set *)
Theorem C04_key_order_irrelevant : forall b b' kvs kvs',
  parse_all b = Some (CMap kvs) -> parse_all b' = Some (CMap kvs') ->
  Permutation kvs kvs' -> NoDup (int_keys kvs) ->
  decode_cbor spec_ccfg W b = decode_cbor spec_ccfg W b'.
Proof. exact decode_cbor_order_irrelevant. Qed.
Print Assumptions C04_key_order_irrelevant.

(** what the verdict depends on: two tokens inside the modelled space whose claims maps agree on the FIRST value
    under every known integer key (265 and the claim keys of both profiles), and on whether some key is malformed,
    get the same verdict and the same claims-set -- order, repeated keys, unknown keys and text keys are irrelevant *)
Theorem C04_only_first_known_values_matter : forall b1 b2 kvs1 kvs2,
  parse_all b1 = Some (CMap kvs1) -> parse_all b2 = Some (CMap kvs2) ->
  (forall kvs, kvs = kvs1 \/ kvs = kvs2 ->
     unmodelled_pairs selector_tags kvs = false /\ modelled spec_p1_fields spec_swc_fields kvs /\ modelled spec_p2_fields spec_swc_fields kvs) ->
  (forall z, known_key z -> first_val kvs1 z = first_val kvs2 z) -> has_bad_key kvs1 = has_bad_key kvs2 ->
  decode_cbor spec_ccfg W b1 = decode_cbor spec_ccfg W b2.
Proof. exact decode_cbor_extensional. Qed.
Print Assumptions C04_only_first_known_values_matter.
