(** C03 -- Sign -> decode -> verify round trip binds exactly the validated
    claims.  Theorems only; proofs in theories/EvidenceProofs.v (which uses
    the wire round trip of C09).  Signatures are idealised. *)
From Coq Require Import ZArith.
From PSA Require Import Base Lines Lifecycle Regex Claims ClaimsSpec Cbor Tags Wire Codec Evidence SetterProofs CodecProofs EvidenceProofs.
From PSA.Spec Require Import SpecTables SpecTags.
Open Scope N_scope.

Theorem C03_sign_roundtrip : forall key_alg alg_known (c : claims) (s : signer) (m0 : option msg),
  claims_wire_ok c -> validate spec_ccfg c = Ok tt -> sg_beh s = SignsOk ->
  key_alg (sg_key s) = sg_alg s -> alg_known (sg_alg s) = true ->
  exists p c',
    encode_cbor W c = Some p /\
    step spec_ccfg W key_alg alg_known {| e_claims := Some c; e_msg := m0 |} (ESign true s) =
      ({| e_claims := Some c; e_msg := Some {| m_alg := Some (sg_alg s); m_payload := Some p;
                                                m_sig := Some (SigBy (sg_key s) (sg_alg s) (Some (sg_alg s)) p) |} |},
       OutTok (Tok (Some (sg_alg s)) (Some p) (Some (SigBy (sg_key s) (sg_alg s) (Some (sg_alg s)) p)))) /\
    decode_cbor spec_ccfg W p = DOk c' /\ view c' = view c /\
    (forall e', verify_ok spec_ccfg W key_alg alg_known
                  (fst (step spec_ccfg W key_alg alg_known e' (EDecode (Tok (Some (sg_alg s)) (Some p) (Some (SigBy (sg_key s) (sg_alg s) (Some (sg_alg s)) p)))))) (sg_key s) = true) /\
    verify_ok spec_ccfg W key_alg alg_known
      (fst (step spec_ccfg W key_alg alg_known {| e_claims := Some c; e_msg := m0 |} (ESign true s))) (sg_key s) = true.
Proof. exact sign_roundtrip. Qed.
Print Assumptions C03_sign_roundtrip.

Theorem C03_decoded_claims_are_payload : forall key_alg alg_known (e : ev) a p sg c,
  e_claims (fst (step spec_ccfg W key_alg alg_known e (EDecode (Tok a (Some p) (Some sg))))) = Some c ->
  decode_cbor spec_ccfg W p = DOk c.
Proof. exact decoded_claims_are_payload. Qed.
Print Assumptions C03_decoded_claims_are_payload.
