(** C18 -- Reading, validating, encoding and verifying do not change anything.
    The read side of the API is modelled as a state machine over what a
    caller holds (a claims-set, the Evidence that signed it, an Evidence
    decoded from the token); its successor states are computed by the
    functions that model the calls (validation, codecs, Evidence.step) and by
    the effect summary read from the source (receiver kinds / receiver
    writes of the marshallers).  Proofs in theories/PurityProofs.v.
    Aliasing of the caller's input buffer is a property of the Go heap that
    this value-level model cannot express: it is decided by the harness
    (buffer overwritten after decoding) only. *)
From Coq Require Import String ZArith List.
From PSA Require Import Base Lines Claims Cbor Tags Wire Codec Evidence Purity PurityProofs.
Import ListNotations.

Section C18.
Variable cc : ccfg.
Variable w : wcfg.
Variable key_alg : N -> Z.
Variable alg_known : Z -> bool.

Theorem C18_read_call_preserves_state : forall s o, consistent s ->
  fst (pstep spec_fx cc w key_alg alg_known s o) = s.
Proof. exact (read_preserves_state cc w key_alg alg_known). Qed.

Theorem C18_read_histories_are_invisible : forall s ops, consistent s ->
  prun spec_fx cc w key_alg alg_known s ops = (s, map (fun o => snd (pstep spec_fx cc w key_alg alg_known s o)) ops).
Proof. exact (reads_invisible cc w key_alg alg_known). Qed.

Theorem C18_repeated_call_same_result : forall s ops o, consistent s ->
  snd (pstep spec_fx cc w key_alg alg_known (fst (prun spec_fx cc w key_alg alg_known s ops)) o) =
  snd (pstep spec_fx cc w key_alg alg_known s o).
Proof. exact (read_repeatable cc w key_alg alg_known). Qed.

Theorem C18_start_states_consistent : forall c sg, consistent (fst (start cc w key_alg alg_known c sg)).
Proof. exact (start_consistent cc w key_alg alg_known). Qed.

Theorem C18_verify_erasable : forall ops e,
  run cc w key_alg alg_known e (erase_verify ops) =
  (fst (run cc w key_alg alg_known e ops), erase_verify_out ops (snd (run cc w key_alg alg_known e ops))).
Proof. exact (verify_erasable cc w key_alg alg_known). Qed.
End C18.
Print Assumptions C18_read_call_preserves_state.
Print Assumptions C18_read_histories_are_invisible.
Print Assumptions C18_repeated_call_same_result.
Print Assumptions C18_start_states_consistent.
Print Assumptions C18_verify_erasable.
