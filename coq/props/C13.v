(** C13 -- Errors carry the documented sentinel class.  Theorems only;
    proofs in theories/ErrorProofs.v.  The domain excludes a hand-built
    zero eat.Profile (no constructor or decoder produces one): premise
    [c_profile c <> Some PZero]. *)
From PSA Require Import Base Lines Lifecycle Regex Claims ClaimsSpec ClaimsProofs ErrorProofs.
From PSA.Spec Require Import SpecTables SpecErrSites.
Open Scope N_scope.

(** every getter either succeeds or fails with exactly the class of the
    cause: absent mandatory -> missing-mandatory, absent optional ->
    missing-optional, malformed -> wrong-syntax, profile mismatch -> wrong-profile *)
Theorem C13_getter_error_class : forall (id : claimid) (c : claims),
  c_profile c <> Some PZero ->
  match cause_of id c with
  | None => status spec_ccfg id c = Ok tt
  | Some k => exists e, status spec_ccfg id c = Err e /\ (forall t, err_is e t = sent_eqb (class_of k) t)
  end.
Proof. exact getter_classified. Qed.
Print Assumptions C13_getter_error_class.

(** validation ignores missing-optional causes and reports exactly the
    class of an offending claim *)
Theorem C13_validate_error_class : forall (c : claims) (e : goerr),
  c_profile c <> Some PZero ->
  validate spec_ccfg c = Err e ->
  exists id k, cause_of id c = Some k /\ k <> AbsentOptional /\ (forall t, err_is e t = sent_eqb (class_of k) t).
Proof. exact validate_error_classified. Qed.
Print Assumptions C13_validate_error_class.

Theorem C13_causes_agree_with_rules : forall (id : claimid) (c : claims),
  c_profile c <> Some PZero ->
  (conf_of id c = true <-> (cause_of id c = None \/ cause_of id c = Some AbsentOptional)).
Proof. exact cause_none_iff_conf. Qed.
Print Assumptions C13_causes_agree_with_rules.

(** setters reject with the wrong-syntax class and nothing else *)
Theorem C13_setter_error_class : forall (c : claims) (e : goerr),
  (forall v, snd (set_lc spec_ccfg c v) = Err e -> only e WrongSyntax) /\
  (forall v, snd (set_impl spec_ccfg c v) = Err e -> only e WrongSyntax) /\
  (forall v, snd (set_boot spec_ccfg c v) = Err e -> only e WrongSyntax) /\
  (forall v, snd (set_cert spec_ccfg c v) = Err e -> only e WrongSyntax) /\
  (forall v, snd (set_nonce spec_ccfg c v) = Err e -> only e WrongSyntax) /\
  (forall v, snd (set_inst spec_ccfg c v) = Err e -> only e WrongSyntax) /\
  (forall v, snd (set_vsi c v) = Err e -> only e WrongSyntax).
Proof. exact setter_error_class. Qed.
Print Assumptions C13_setter_error_class.

Theorem C13_set_components_error_class : forall (c : claims) (v : option (list swc)) (e : goerr),
  snd (set_swc spec_ccfg c v) = Err e ->
  exists k, list_cause (match v with Some l => l | None => [] end) = Some k /\ only e (class_of k).
Proof. exact set_swc_error_class. Qed.
Print Assumptions C13_set_components_error_class.

(** the error filter: nil exactly for nil, missing-optional and
    not-in-profile errors (under any wrapping); every other error unchanged *)
Theorem C13_filter_nil_iff : forall e : option goerr,
  filter_error e = None <->
  (e = None \/ exists x, e = Some x /\ (err_is x MissingOptional = true \/ err_is x NotInProfile = true)).
Proof. exact filter_error_nil_iff. Qed.
Print Assumptions C13_filter_nil_iff.

Theorem C13_filter_unchanged : forall (e : option goerr) (x : goerr), filter_error e = Some x -> e = Some x.
Proof. exact filter_error_unchanged. Qed.
Print Assumptions C13_filter_unchanged.

(** every error-construction site of getters, setters and validators in
    the specified site list (tied to /repo by ties/TieErrSites.v) wraps a
    sentinel, propagates a classified error, or is whitelisted by name *)
Theorem C13_error_sites_classified : forallb site_ok spec_err_sites = true.
Proof. exact spec_err_sites_classified. Qed.
Print Assumptions C13_error_sites_classified.

Example C13_witness :
  err_is (EWrap [EOpaque; EWrap [ESent NotInProfile]]) NotInProfile = true /\
  filter_error (Some (EWrap [EOpaque; EWrap [ESent NotInProfile]])) = None /\
  filter_error (Some (EWrap [ESent WrongSyntax; EOpaque])) = Some (EWrap [ESent WrongSyntax; EOpaque]).
Proof. vm_compute. repeat split. Qed.
