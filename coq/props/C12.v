(** C12 -- JSON round-trips and is equivalent to the CBOR form.  Proved at
    the level of JSON value trees (the text layer of encoding/json is
    trusted): for EVERY valid claims-set of a built-in profile with UTF-8
    texts the JSON encoder succeeds and the dispatching decoder gives back an
    observably equal, valid claims-set; CBOR -> claims -> JSON -> claims ->
    CBOR reproduces the bytes; base64 decoding inverts encoding on every byte
    string; every member is the documented name of a claim with that claim's
    value, in declaration order, absent omitempty claims omitted.  Proofs in
    theories/JsonProofs.v, JsonRoundtrip.v, JsonCross.v. *)
From Coq Require Import String ZArith List.
From PSA Require Import Base Lines Cbor Tags Wire Claims ClaimsSpec Codec SetterProofs CodecProofs FormatProofs Json JsonCodec JsonProofs JsonRoundtrip JsonCross.
From PSA.Spec Require Import SpecTables SpecTags.
Import ListNotations.

Theorem C12_base64_roundtrip : forall b : bytes, b64_dec (b64_encode b) = Some b.
Proof. exact b64_dec_enc. Qed.
Print Assumptions C12_base64_roundtrip.

Theorem C12_byte_claims_are_base64 : forall (o : option bytes) (j : json),
  j_optbytes TBytes o = Some j -> exists b, o = Some b /\ j = JStr (b64_encode b) /\ jd_bytes j = Some (Some b).
Proof. exact bytes_claims_are_base64. Qed.
Print Assumptions C12_byte_claims_are_base64.

Theorem C12_members_are_documented_claims :
  forall {A} (value : field_tag -> A -> option (option json)) (a : A) ts m,
  jfields_gen value ts a = Some m ->
  forall kv, In kv m -> exists f, In f ts /\ f_json_skip f = false /\ fst kv = s2b (f_json f) /\
                                  (value f a = Some (Some (snd kv)) \/
                                   (value f a = Some None /\ snd kv = JNull /\ f_json_omitempty f = false)).
Proof. exact @jfields_members. Qed.
Print Assumptions C12_members_are_documented_claims.

Theorem C12_members_in_declaration_order :
  forall {A} (value : field_tag -> A -> option (option json)) (a : A) ts m,
  jfields_gen value ts a = Some m ->
  subseq (map fst m) (map (fun f => s2b (f_json f)) (filter (fun f => negb (f_json_skip f)) ts)).
Proof. exact @jfields_order. Qed.
Print Assumptions C12_members_in_declaration_order.

Theorem C12_member_names :
  map f_json (filter (fun f => negb (f_json_skip f)) spec_p1_fields) =
    ["psa-profile"; "psa-client-id"; "psa-security-lifecycle"; "psa-implementation-id"; "psa-boot-seed"; "psa-hwver";
     "psa-software-components"; "psa-no-software-measurements"; "psa-nonce"; "psa-instance-id"; "psa-verification-service-indicator"]%string /\
  map f_json (filter (fun f => negb (f_json_skip f)) spec_p2_fields) =
    ["eat-profile"; "psa-client-id"; "psa-security-lifecycle"; "psa-implementation-id"; "psa-boot-seed"; "psa-certification-reference";
     "psa-software-components"; "psa-nonce"; "psa-instance-id"; "psa-verification-service-indicator"]%string /\
  map f_json spec_swc_fields = ["measurement-type"; "measurement-value"; "version"; "signer-id"; "measurement-description"]%string.
Proof. exact json_member_names. Qed.
Print Assumptions C12_member_names.

Theorem C12_roundtrip_witnesses :
  (exists j c', encode_json W0 jw1 = Some j /\ decode_json spec_ccfg W0 j = DOk c' /\
                validate spec_ccfg c' = Ok tt /\ encode_cbor W0 c' = encode_cbor W0 jw1) /\
  (exists j, encode_json W0 jw2 = Some j /\ decode_json spec_ccfg W0 j = DOk jw2).
Proof. exact json_roundtrip_witnesses. Qed.
Print Assumptions C12_roundtrip_witnesses.

(** the property as stated *)
Theorem C12_json_roundtrip_of_valid : forall c : claims,
  validate spec_ccfg c = Ok tt -> builtin c -> texts_utf8 c ->
  exists j c', encode_json W c = Some j /\ decode_json spec_ccfg W j = DOk c' /\ view c' = view c /\ validate spec_ccfg c' = Ok tt.
Proof. exact json_roundtrip_valid. Qed.
Print Assumptions C12_json_roundtrip_of_valid.

Theorem C12_json_roundtrip_wire_ok : forall c j,
  claims_wire_ok c -> profile_claim_ok c -> encode_json W c = Some j ->
  exists c', decode_json spec_ccfg W j = DOk c' /\ view c' = view c.
Proof. exact json_encode_decode_roundtrip. Qed.
Print Assumptions C12_json_roundtrip_wire_ok.

Theorem C12_cbor_json_cbor : forall c b c2 j c3,
  claims_wire_ok c -> profile_claim_ok c -> (c_kind c = K1 \/ comps c <> []) ->
  encode_cbor W c = Some b -> decode_cbor spec_ccfg W b = DOk c2 ->
  encode_json W c2 = Some j -> decode_json spec_ccfg W j = DOk c3 ->
  encode_cbor W c3 = Some b.
Proof. exact cbor_json_cbor. Qed.
Print Assumptions C12_cbor_json_cbor.
