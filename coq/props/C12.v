(** C12 -- JSON round-trips and is equivalent to the CBOR form.  PARTIAL:
    proved for every input are the base64 layer (decode after encode is the
    identity on every byte string), the shape of the JSON form (every member
    is the documented name of a claim with that claim's value, in declaration
    order, absent omitempty claims omitted, byte strings as base64) and the
    member-name tables; the round trip of whole claims-sets and the
    CBOR/JSON cross conversion are proved for witnesses and tied to the
    library by correspondence plus a direct oracle.  Proofs in
    theories/JsonProofs.v. *)
From Coq Require Import String ZArith List.
From PSA Require Import Base Lines Cbor Tags Wire Claims Codec Json JsonCodec JsonProofs.
From PSA.Spec Require Import SpecTables SpecTags.
Import ListNotations.

Theorem C12_base64_roundtrip : forall b : bytes, b64_dec (b64_encode b) = Some b.
Proof. exact b64_dec_enc. Qed.
Print Assumptions C12_base64_roundtrip.

Theorem C12_byte_claims_are_base64 : forall (o : option bytes) (j : json),
  j_optbytes TBytes o = Some j -> exists b, o = Some b /\ j = JStr (b64_encode b) /\ jd_bytes j = Some (Some b).
Proof. exact bytes_claims_are_base64. Qed.
Print Assumptions C12_byte_claims_are_base64.

Theorem C12_members_are_documented_claims :
  forall {A} (value : field_tag -> A -> option (option json)) (a : A) ts m,
  jfields_gen value ts a = Some m ->
  forall kv, In kv m -> exists f, In f ts /\ f_json_skip f = false /\ fst kv = s2b (f_json f) /\
                                  (value f a = Some (Some (snd kv)) \/
                                   (value f a = Some None /\ snd kv = JNull /\ f_json_omitempty f = false)).
Proof. exact @jfields_members. Qed.
Print Assumptions C12_members_are_documented_claims.

Theorem C12_members_in_declaration_order :
  forall {A} (value : field_tag -> A -> option (option json)) (a : A) ts m,
  jfields_gen value ts a = Some m ->
  subseq (map fst m) (map (fun f => s2b (f_json f)) (filter (fun f => negb (f_json_skip f)) ts)).
Proof. exact @jfields_order. Qed.
Print Assumptions C12_members_in_declaration_order.

Theorem C12_member_names :
  map f_json (filter (fun f => negb (f_json_skip f)) spec_p1_fields) =
    ["psa-profile"; "psa-client-id"; "psa-security-lifecycle"; "psa-implementation-id"; "psa-boot-seed"; "psa-hwver";
     "psa-software-components"; "psa-no-software-measurements"; "psa-nonce"; "psa-instance-id"; "psa-verification-service-indicator"]%string /\
  map f_json (filter (fun f => negb (f_json_skip f)) spec_p2_fields) =
    ["eat-profile"; "psa-client-id"; "psa-security-lifecycle"; "psa-implementation-id"; "psa-boot-seed"; "psa-certification-reference";
     "psa-software-components"; "psa-nonce"; "psa-instance-id"; "psa-verification-service-indicator"]%string /\
  map f_json spec_swc_fields = ["measurement-type"; "measurement-value"; "version"; "signer-id"; "measurement-description"]%string.
Proof. exact json_member_names. Qed.
Print Assumptions C12_member_names.

Theorem C12_roundtrip_witnesses :
  (exists j c', encode_json W0 jw1 = Some j /\ decode_json spec_ccfg W0 j = DOk c' /\
                validate spec_ccfg c' = Ok tt /\ encode_cbor W0 c' = encode_cbor W0 jw1) /\
  (exists j, encode_json W0 jw2 = Some j /\ decode_json spec_ccfg W0 j = DOk jw2).
Proof. exact json_roundtrip_witnesses. Qed.
Print Assumptions C12_roundtrip_witnesses.
