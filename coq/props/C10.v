(** C10 -- Emitted CBOR is exactly the profile's wire format.  Theorems
    only; proofs in theories/FormatProofs.v / CodecProofs.v.  The keys, wire
    types and omitempty flags are those of the specified tag tables
    (spec/SpecTags.v: profile 1 -75000..-75010, profile 2 10/256/265/
    2394..2400, components 1/2/4/5/6), tied to /repo by ties/TieTags.v. *)
From Coq Require Import String ZArith.
From PSA Require Import Base Lines Lifecycle Regex Claims ClaimsSpec ClaimsProofs Cbor CborProofs Utf8 Tags Wire WireProofs Codec SetterProofs CodecProofs FormatProofs.
From PSA.Spec Require Import SpecTables SpecTags.
Open Scope N_scope.

(** one definite-length map, and nothing follows it *)
Theorem C10_single_map_nothing_follows : forall (c : claims) (b : bytes),
  claims_wire_ok c -> encode_cbor W c = Some b ->
  exists kvs, b = enc (CMap kvs) /\ parse_all b = Some (CMap kvs) /\
              enc_fields_gen (claim_value spec_swc_fields) (tags_k (c_kind c)) c = Some kvs.
Proof. exact emitted_is_single_map. Qed.
Print Assumptions C10_single_map_nothing_follows.

(** no duplicate keys *)
Theorem C10_keys_distinct : forall (c : claims) (kvs : list (cbor * cbor)),
  enc_fields_gen (claim_value spec_swc_fields) (tags_k (c_kind c)) c = Some kvs -> NoDup (map fst kvs).
Proof. exact emitted_keys_distinct. Qed.
Print Assumptions C10_keys_distinct.

(** precisely the profile's integer keys, each with the claim's value in the
    table's wire type *)
Theorem C10_pairs_are_claims : forall (c : claims) (kvs : list (cbor * cbor)),
  enc_fields_gen (claim_value spec_swc_fields) (tags_k (c_kind c)) c = Some kvs ->
  forall kv, In kv kvs ->
  exists f, In f (tags_k (c_kind c)) /\ f_skip f = false /\ fst kv = enc_int (f_key f) /\
            (claim_value spec_swc_fields f c = Some (Some (snd kv)) \/
             (claim_value spec_swc_fields f c = Some None /\ snd kv = c_null)).
Proof. exact emitted_pairs_are_claims. Qed.
Print Assumptions C10_pairs_are_claims.

(** every claim that is set is emitted under its key *)
Theorem C10_set_claims_are_emitted : forall (c : claims) (kvs : list (cbor * cbor)) (f : field_tag) (v : cbor),
  enc_fields_gen (claim_value spec_swc_fields) (tags_k (c_kind c)) c = Some kvs ->
  In f (tags_k (c_kind c)) -> f_skip f = false -> claim_value spec_swc_fields f c = Some (Some v) ->
  In (enc_int (f_key f), v) kvs.
Proof. intros c kvs f v. apply enc_fields_emits. Qed.
Print Assumptions C10_set_claims_are_emitted.

(** for a valid claims-set absent optional claims are omitted, never null *)
Theorem C10_no_null_for_valid : forall (c : claims) (kvs : list (cbor * cbor)),
  conformant c = true ->
  enc_fields_gen (claim_value spec_swc_fields) (tags_k (c_kind c)) c = Some kvs ->
  forall kv, In kv kvs -> snd kv <> c_null.
Proof. exact conformant_emits_no_null. Qed.
Print Assumptions C10_no_null_for_valid.

(** a single nonce is a bare byte string; profile 1 never emits both the
    component list and the no-measurements flag for a valid claims-set *)
Theorem C10_single_nonce_is_bstr : forall (c : claims) (f : field_tag) (b : bytes),
  c_nonce c = Some [b] -> slot_of_name (f_name f) = SNonce ->
  forall v, claim_value spec_swc_fields f c = Some (Some v) -> v = CBytes b.
Proof.
  intros c f b N Sl v V. unfold claim_value in V. rewrite Sl, N in V.
  destruct (kind_of_type (f_type f)); try discriminate V.
  - injection V as <-. reflexivity.
  - destruct (nonce_len_ok b); [|discriminate V]. injection V as <-. reflexivity.
Qed.
Print Assumptions C10_single_nonce_is_bstr.

Theorem C10_p1_never_list_and_flag : forall c : claims,
  c_kind c = K1 -> conformant c = true -> comps c <> [] -> c_nosw c = None.
Proof.
  intros c K Cf Ne. pose proof (conformant_each c CSwc Cf) as H. cbn [conf_of] in H. unfold conf_swc in H.
  destruct (comps c) as [|o l]; [congruence|]. rewrite K in H.
  destruct (c_nosw c); [|reflexivity]. rewrite andb_false_r in H. discriminate.
Qed.
Print Assumptions C10_p1_never_list_and_flag.

(** the specified key tables, as the property text lists them *)
Example C10_key_tables :
  map f_key (filter (fun f => negb (f_skip f)) spec_p1_fields) = [-75000; -75001; -75002; -75003; -75004; -75005; -75006; -75007; -75008; -75009; -75010]%Z /\
  map f_key (filter (fun f => negb (f_skip f)) spec_p2_fields) = [265; 2394; 2395; 2396; 2397; 2398; 2399; 10; 256; 2400]%Z /\
  map f_key spec_swc_fields = [1; 2; 4; 5; 6]%Z.
Proof. vm_compute. repeat split. Qed.
