(** C06 -- Decoding terminates with memory proportional to the input size.
    PARTIAL: termination is structural (every decoder of the model is a Coq
    Fixpoint on the input or on fuel bounded by its length); for psatoken's
    own allocation decision -- the pre-sized map of the hand-rolled header
    reader -- the bound is proved; the allocation behaviour of fxamacker /
    encoding/json / go-cose behind their well-formedness pre-check is
    assumed and measured by the harness (1 MiB + 1 KiB per input byte, 5 s). *)
From PSA Require Import Base Lines Cbor Wire Embedded EmbeddedProofs.
Open Scope N_scope.

(** for EVERY input, the map the reader pre-allocates has at most half as
    many entries as the input has bytes *)
Theorem C06_prealloc_bounded_by_input : forall data : bytes, 2 * snd (from_cbor_alloc data) <= blen data.
Proof. exact prealloc_bounded_by_input. Qed.
Print Assumptions C06_prealloc_bounded_by_input.

(** length fields chosen by the sender: 2^32-1, 2^31 entries with little or no data are rejected, nothing reserved (defect D7, fixed) *)
Example C06_hostile_headers :
  from_cbor_alloc [xc0] = (None, 0) /\ from_cbor_alloc [xba; xff; xff; xff; xff] = (None, 0) /\
  from_cbor_alloc [xba; x80; x00; x00; x00; x01; x00] = (None, 0).
Proof. exact hostile_headers. Qed.

(** what the reader returns is bounded by what it was given, whatever lengths the input declares *)
From PSA Require Import EmbeddedBound.
Theorem C06_reader_output_bounded : forall (data : bytes) (m : fmap), from_cbor data = Some m ->
  (2 * length m <= length data /\ total_raw m <= length data)%nat.
Proof. exact from_cbor_output_bounded. Qed.
Print Assumptions C06_reader_output_bounded.
