(** Printing of observations in the format the Go harness uses. *)
From Coq Require Import String.
From PSA Require Import Base Lines.
Open Scope N_scope.

Definition tok_err (e : goerr) : bytes := s2b "e" ++ err_bits e.

Definition tok_res_unit (r : res unit) : bytes :=
  match r with Ok _ => s2b "ok" | Err e => tok_err e | Panic => s2b "panic" end.

Definition tok_res_bytes (r : res bytes) : bytes :=
  match r with Ok v => s2b "ok:" ++ hex_of v | Err e => tok_err e | Panic => s2b "panic" end.

Definition tok_res_N (r : res N) : bytes :=
  match r with Ok v => s2b "ok:" ++ dec_of_N v | Err e => tok_err e | Panic => s2b "panic" end.

Definition tok_res_Z (r : res Z) : bytes :=
  match r with Ok v => s2b "ok:" ++ dec_of_Z v | Err e => tok_err e | Panic => s2b "panic" end.

Definition tok_opt_N (o : option N) : bytes :=
  match o with None => s2b "_" | Some v => dec_of_N v end.

Definition kv (k : string) (v : bytes) : bytes := s2b k ++ s2b "=" ++ v.

Definition bad_input : bytes := s2b "?".
