(** Runner for read-side histories:
      PUR <k> <13 claims tokens> <rop>*
    c: the claims-set; e: a fresh Evidence holding c, signed (non-validating) with key k;
    d: DecodeEvidenceFromCOSE of the token (the harness overwrites the buffer afterwards).
    rops:  v g c j vc vj          on c: Validate, all getters, Encode CBOR/JSON, ValidateAndEncode CBOR/JSON
           eV<k> ej eg            on e: Verify with key k, MarshalJSON, getters of e.Claims
           dV<k> dg dv dc dj dm   on d: Verify, getters, Validate, Encode CBOR/JSON of d.Claims, MarshalJSON
    per call: <result>/<same | changed:<objects>> *)
From Coq Require Import String.
From PSA Require Import Base Lines Lifecycle Regex Claims Cbor Tags Wire Codec Evidence Gates Json JsonCodec Purity Obs CaseClaims RunHist RunEv.
Open Scope N_scope.

Definition parse_rop (t : bytes) : option rop :=
  let mk tg c := Some {| r_on := tg; r_call := c |} in
  let call (r : bytes) : option rcall :=
    if bytes_eqb r (s2b "v") then Some RValidate
    else if bytes_eqb r (s2b "g") then Some RGetters
    else if bytes_eqb r (s2b "c") then Some (REncCbor false)
    else if bytes_eqb r (s2b "j") || bytes_eqb r (s2b "m") then Some (REncJson false)
    else if bytes_eqb r (s2b "vc") then Some (REncCbor true)
    else if bytes_eqb r (s2b "vj") then Some (REncJson true)
    else match r with
         | x56 :: kd => option_map RVerify (parse_N kd)
         | _ => None
         end in
  match t with
  | x65 :: r => match call r with Some (RValidate) | Some (REncCbor _) | Some (REncJson true) => None | Some c => mk OnSigned c | None => None end
  | x64 :: r => match call r with Some (REncCbor true) | Some (REncJson true) => None | Some c => mk OnDecoded c | None => None end
  | _ => match call t with Some (RVerify _) => None | Some c => mk OnClaims c | None => None end
  end.

Definition print_rout (cc : ccfg) (o : rout) : bytes :=
  match o with
  | ONa => s2b "na"
  | OUnit r => tok_res_unit r
  | OGetters c => join_with x2c (obs_getters cc c)
  | OBytes (Some b) => s2b "ok:" ++ hex_of b
  | OBytes None => s2b "err"
  | OJson (Some j) => s2b "ok:" ++ jprint 8 j
  | OJson None => s2b "err"
  | OBool true => s2b "ok"
  | OBool false => s2b "err"
  end.

(** structural comparison of states (printing them at every step is too slow) *)
Definition opt_eqb {A} (f : A -> A -> bool) (a b : option A) : bool :=
  match a, b with Some x, Some y => f x y | None, None => true | _, _ => false end.
Fixpoint list_eqb {A} (f : A -> A -> bool) (a b : list A) : bool :=
  match a, b with [], [] => true | x :: r, y :: r' => f x y && list_eqb f r r' | _, _ => false end.
Definition profv_eqb (a b : profv) : bool :=
  match a, b with PStr x, PStr y | POid x, POid y => bytes_eqb x y | PZero, PZero => true | _, _ => false end.
Definition swc_eqb (a b : swc) : bool :=
  opt_eqb bytes_eqb (sw_mtype a) (sw_mtype b) && opt_eqb bytes_eqb (sw_mval a) (sw_mval b) &&
  opt_eqb bytes_eqb (sw_version a) (sw_version b) && opt_eqb bytes_eqb (sw_signer a) (sw_signer b) &&
  opt_eqb bytes_eqb (sw_mdesc a) (sw_mdesc b).
Definition claims_eqb (a b : claims) : bool :=
  match c_kind a, c_kind b with K1, K1 | K2, K2 => true | _, _ => false end &&
  opt_eqb profv_eqb (c_profile a) (c_profile b) && opt_eqb Z.eqb (c_client a) (c_client b) &&
  opt_eqb N.eqb (c_lc a) (c_lc b) && opt_eqb bytes_eqb (c_impl a) (c_impl b) && opt_eqb bytes_eqb (c_boot a) (c_boot b) &&
  opt_eqb bytes_eqb (c_cert a) (c_cert b) && opt_eqb (list_eqb (opt_eqb swc_eqb)) (c_swc a) (c_swc b) &&
  opt_eqb N.eqb (c_nosw a) (c_nosw b) && opt_eqb (list_eqb bytes_eqb) (c_nonce a) (c_nonce b) &&
  opt_eqb bytes_eqb (c_inst a) (c_inst b) && opt_eqb bytes_eqb (c_vsi a) (c_vsi b) && bytes_eqb (c_canon a) (c_canon b).
Definition msg_eqb (a b : msg) : bool :=
  opt_eqb Z.eqb (m_alg a) (m_alg b) && opt_eqb bytes_eqb (m_payload a) (m_payload b) && opt_eqb sigv_eqb (m_sig a) (m_sig b).
Definition ev_eqb (a b : ev) : bool :=
  opt_eqb claims_eqb (e_claims a) (e_claims b) && opt_eqb msg_eqb (e_msg a) (e_msg b).

Definition changed_tok (s s' : pstate) : bytes :=
  let dc := negb (claims_eqb (ps_c s) (ps_c s')) in
  let de := negb (opt_eqb ev_eqb (ps_e s) (ps_e s')) in
  let dd := negb (opt_eqb ev_eqb (ps_d s) (ps_d s')) in
  if dc || de || dd then
    s2b "changed:" ++ (if dc then s2b "c" else []) ++ (if de then s2b "e" else []) ++ (if dd then s2b "d" else [])
  else s2b "same".

Fixpoint run_pur_ops (fx : fxcfg) (cc : ccfg) (w : wcfg) (s : pstate) (ops : list bytes) : option (list bytes) :=
  match ops with
  | [] => Some []
  | t :: r =>
      match parse_rop t with
      | Some o =>
          let '(s', out) := pstep fx cc w key_alg alg_known s o in
          match run_pur_ops fx cc w s' r with
          | Some rest => Some ((print_rout cc out ++ x2f :: changed_tok s s') :: rest)
          | None => None
          end
      | None => None
      end
  end.

Definition run_pur (fx : fxcfg) (cc : ccfg) (w : wcfg) (args : list bytes) : bytes :=
  match args with
  | tk :: rest =>
      match parse_N tk, parse_claims rest with
      | Some k, Some (c, ops) =>
          match c_kind c, c_swc c, c_profile c with
          | K2, Some [], _ => s2b "*"
          | _, _, Some (POid _) => s2b "*"
          | _, _, _ =>
              let sg := {| sg_key := k; sg_alg := key_alg k; sg_beh := SignsOk |} in
              let unmodelled := match encode_cbor w c with
                                | Some b => match decode_cbor cc w b with DUnmodelled => true | _ => false end
                                | None => false
                                end in
              if unmodelled then s2b "*"
              else
                let '(s0, st) := start cc w key_alg alg_known c sg in
                match run_pur_ops fx cc w s0 ops with
                | Some out => join_sp ((if st =? 2 then s2b "sig,dec" else if st =? 1 then s2b "sig,nodec" else s2b "nosig") :: out)
                | None => bad_input
                end
          end
      | _, _ => bad_input
      end
  | [] => bad_input
  end.
