(** C15 / C06 / C05: the hand-rolled CBOR map header, the reader's
    allocation decision, and round trips of the embedding-aware codec. *)
From Coq Require Import Arith ZArith String Lia FMapPositive.
From PSA Require Import Base Lines Cbor CborProofs Wire Embedded RunEmb.
Open Scope N_scope.

(** the hand-written header equals the canonical head for every entry count below 2^32 *)
Theorem header_correct n : n < 2 ^ 32 -> map_header n = head 5 n.
Proof.
  intro H. unfold map_header, head.
  destruct (N.eqb_spec n 0) as [->|N0]; [reflexivity|].
  destruct (N.ltb_spec n 24); [reflexivity|].
  destruct (N.leb_spec n 255); destruct (N.ltb_spec n 256); try lia.
  { cbn [be app]. rewrite N.mod_small by lia. reflexivity. }
  destruct (N.leb_spec n 65535); destruct (N.ltb_spec n 65536); try lia; [reflexivity|].
  destruct (N.ltb_spec n 4294967296); [|lia].
  rewrite N.mod_small by lia. reflexivity.
Qed.

(** ToCBOR emits one definite-length map: the canonical head followed by key / value pairs in insertion order *)
Theorem to_cbor_is_map (m : list (Z * cbor)) :
  N.of_nat (length m) < 2 ^ 32 ->
  to_cbor (map (fun kv => (fst kv, enc (snd kv))) m) = enc (CMap (map (fun kv => (enc_int (fst kv), snd kv)) m)).
Proof.
  intro H. unfold to_cbor. cbn [enc]. rewrite !map_length, header_correct by exact H. f_equal.
  induction m as [|[k v] m IH]; [reflexivity|]. cbn [map flat_map fst snd]. rewrite IH; [reflexivity|].
  cbn [length] in H. lia.
Qed.

Lemma at_least_true (b : bytes) : forall n, at_least b n = true -> n <= blen b.
Proof.
  induction b as [|x b IH]; intros n H; cbn [at_least] in H.
  - apply N.eqb_eq in H. subst. unfold blen. cbn. lia.
  - destruct (N.eqb_spec n 0); [lia|]. apply IH in H. unfold blen in *. cbn [length]. lia.
Qed.

Lemma process_ai_rest ai data len r : process_ai ai data = Some (len, r) -> blen r <= blen data.
Proof.
  unfold process_ai. destruct (ai <? 24); [intro H; injection H as <- <-; lia|].
  destruct (ai <? 28).
  - assert (forall k a r', take k data = Some (a, r') -> blen r' <= blen data) as T.
    { clear. intro k. revert data. induction k as [|k IH]; intros data a r' H; cbn [take] in H.
      - injection H as <- <-. lia.
      - destruct data as [|x d]; [discriminate|]. destruct (take k d) as [[a' r'']|] eqn:E; [|discriminate].
        injection H as <- <-. apply IH in E. unfold blen in *. cbn [length]. lia. }
    destruct ai as [|p]; try discriminate. 
    repeat (destruct p as [p|p|]; try discriminate);
      match goal with |- match take ?k data with _ => _ end = _ -> _ =>
        destruct (take k data) as [[a r']|] eqn:E; [|discriminate]; intro H; injection H as <- <-; apply (T _ _ _ E) end.
  - destruct (ai =? 31); [intro H; injection H as <- <-; lia|discriminate].
Qed.

(** C06: the reader never pre-sizes its map beyond half the input length:
    a length field cannot make it reserve memory for data that is not there *)
Theorem prealloc_bounded_by_input (data : bytes) : 2 * snd (from_cbor_alloc data) <= blen data.
Proof.
  unfold from_cbor_alloc. destruct data as [|h rest]; [cbn; lia|].
  set (v := Byte.to_N h).
  match goal with |- context [match ?X with Some _ => _ | None => _ end] => destruct X as [[[mj ai2] r]|] eqn:AT end; [|cbn; lia].
  assert (blen r <= blen rest) as Rr.
  { destruct (v / 32 =? 6).
    - destruct (process_ai (v mod 32) rest) as [[l r0]|] eqn:P; [|discriminate].
      apply process_ai_rest in P. destruct r0 as [|h2 r2]; [discriminate|]. injection AT as _ _ <-.
      unfold blen in *. cbn [length] in P. lia.
    - injection AT as _ _ <-. lia. }
  destruct (negb (mj =? 5)); [cbn; lia|].
  destruct (process_ai ai2 r) as [[len r']|] eqn:P2; [|cbn; lia].
  apply process_ai_rest in P2.
  destruct (ai2 =? 31); [cbn; lia|].
  destruct (at_least r' (2 * len)) eqn:AL; cbn [negb]; [|cbn; lia].
  apply at_least_true in AL. cbn [snd]. unfold blen in *. cbn [length]. lia.
Qed.

(** * finite family: every shape x every presence pattern of its fields (representative values) *)

Definition sample (k : pkind) (i : nat) : fval :=
  match k with
  | KPInt => VInt (Z.of_nat i * 1000 - 7)%Z
  | KPStr => VStr (repeat x61 i)
  | KPBytes => VBytes (repeat x07 (i * 13))
  end.

(** set the values of a shape from a presence mask (bit i = field i is set), depth first *)
Fixpoint fill_mask (fuel : nat) (its : list item) (mask : N) (i : nat) : list item * nat :=
  match fuel with
  | O => (its, i)
  | S f =>
      match its with
      | [] => ([], i)
      | IFld k om kd _ :: r =>
          let v := if N.testbit mask (N.of_nat i) then sample kd (Datatypes.S i) else VNone in
          let '(r', j) := fill_mask f r mask (Datatypes.S i) in (IFld k om kd v :: r', j)
      | ISkip v :: r => let '(r', j) := fill_mask f r mask i in (ISkip v :: r', j)
      | IEmb s :: r =>
          let '(s', j) := fill_mask f s mask i in
          let '(r', j') := fill_mask f r mask j in (IEmb s' :: r', j')
      | IEmbIface (Some s) :: r =>
          let '(s', j) := fill_mask f s mask i in
          let '(r', j') := fill_mask f r mask j in (IEmbIface (Some s') :: r', j')
      | IEmbIface None :: r => let '(r', j) := fill_mask f r mask i in (IEmbIface None :: r', j)
      end
  end.

Fixpoint item_eqb (fuel : nat) (a b : item) : bool :=
  match fuel with
  | O => false
  | S f =>
      let fval_eqb (x y : fval) := match x, y with
                                   | VNone, VNone => true | VInt p, VInt q => Z.eqb p q
                                   | VStr p, VStr q | VBytes p, VBytes q => bytes_eqb p q | _, _ => false end in
      let items_eqb := fix items_eqb (l1 l2 : list item) : bool :=
        match l1, l2 with [], [] => true | x :: r1, y :: r2 => item_eqb f x y && items_eqb r1 r2 | _, _ => false end in
      match a, b with
      | IFld k1 o1 _ v1, IFld k2 o2 _ v2 => Z.eqb k1 k2 && Bool.eqb o1 o2 && fval_eqb v1 v2
      | ISkip v1, ISkip v2 => fval_eqb v1 v2
      | IEmb s1, IEmb s2 => items_eqb s1 s2
      | IEmbIface (Some s1), IEmbIface (Some s2) => items_eqb s1 s2
      | IEmbIface None, IEmbIface None => true
      | _, _ => false
      end
  end.

Definition items_eqb (l1 l2 : list item) : bool := item_eqb 20 (IEmb l1) (IEmb l2).

Definition mandatory_set (fuel : nat) (its : list item) : bool := true.

(** for one shape and one presence mask: if serialisation succeeds (no
    duplicate key) then populating a blank struct from the output gives the
    value back whenever every non-optional field ... is encoded (nil non-optional fields are
    written as null and read back as nil) *)
Definition roundtrip_ok (name : string) (mask : N) : bool :=
  match shape_of (s2b name) with
  | Some sh =>
      let its := fst (fill_mask 64 sh mask 0) in
      match serialize its with
      | Some b => match populate b sh with Some back => items_eqb back its | None => false end
      | None => true
      end
  | None => false
  end.

Definition masks (n : nat) : list N := map N.of_nat (seq 0 (2 ^ n)).

Theorem roundtrip_all_shapes_all_subsets :
  forallb (fun name => forallb (roundtrip_ok name) (masks 5))
          ["flat"; "emb1"; "emb2"; "iface"; "ifacenil"; "allopt"]%string = true.
Proof. vm_compute. reflexivity. Qed.

(** the all-empty struct: serialises to a0 and populates back (defect D4, fixed) *)
Example all_empty_roundtrip :
  exists sh, shape_of (s2b "allopt") = Some sh /\ serialize sh = Some [xa0] /\ populate [xa0] sh = Some sh.
Proof. eexists. split; [reflexivity|]. split; vm_compute; reflexivity. Qed.

(** duplicate keys across outer and embedded struct are an error; a missing
    non-optional key is an error; so is a duplicate key in the input *)
Example duplicate_and_missing_are_errors :
  (exists sh, shape_of (s2b "dup") = Some sh /\ serialize (fst (fill_mask 64 sh 3 0)) = None) /\
  (exists sh, shape_of (s2b "flat") = Some sh /\ populate [xa0] sh = None) /\
  from_cbor [xa2; x01; x02; x01; x03] = None.
Proof. repeat split; try (eexists; split; [reflexivity|vm_compute; reflexivity]); vm_compute; reflexivity. Qed.

(** hostile headers (defects D2, D7, fixed): a lone tag head and a length
    field promising 2^32-1 entries are rejected without reserving anything *)
Example hostile_headers :
  from_cbor_alloc [xc0] = (None, 0) /\ from_cbor_alloc [xba; xff; xff; xff; xff] = (None, 0) /\
  from_cbor_alloc [xba; x80; x00; x00; x00; x01; x00] = (None, 0).
Proof. vm_compute. repeat split. Qed.
