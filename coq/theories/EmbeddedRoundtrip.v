(** C15: the hand-rolled reader inverts the hand-rolled writer -- for EVERY map of scalar values
    (integers, texts, byte strings, null: what the serialisers store for pointer-typed claims),
    any number of entries below 2^32, keys pairwise distinct. *)
From Coq Require Import Arith ZArith String Lia ZifyN ZifyNat ZifyBool FMapPositive.
From PSA Require Import Base Lines Cbor CborProofs Tags Wire Embedded EmbeddedProofs.
Open Scope N_scope.
Ltac Zify.zify_post_hook ::= Z.div_mod_to_equations.

(** scalar items *)
Definition flat (t : cbor) : Prop :=
  match t with CUint _ | CNint _ | CBytes _ | CText _ => True | CSimple n => n = 22 | _ => False end.

Definition hl_of (ai : N) : nat :=
  if ai =? 24 then 2%nat else if ai =? 25 then 3%nat else if ai =? 26 then 5%nat else if ai =? 27 then 9%nat else 1%nat.

Lemma head_length m n : length (head m n) = hl_of (ai_of n).
Proof.
  unfold head, ai_of, hl_of.
  destruct (N.ltb_spec n 24); [destruct (N.eqb_spec n 24), (N.eqb_spec n 25), (N.eqb_spec n 26), (N.eqb_spec n 27); try lia; reflexivity|].
  destruct (N.ltb_spec n 256); [cbn; reflexivity|].
  destruct (N.ltb_spec n 65536); [cbn [length]; rewrite be_length; reflexivity|].
  destruct (N.ltb_spec n 4294967296); cbn [length]; rewrite be_length; reflexivity.
Qed.

Lemma firstn_app_len {T} (a r : list T) : firstn (length a) (a ++ r) = a.
Proof. induction a as [|x a IH]; cbn; [reflexivity|]. rewrite IH. reflexivity. Qed.
Lemma skipn_app_len {T} (a r : list T) : skipn (length a) (a ++ r) = r.
Proof. induction a as [|x a IH]; cbn; [reflexivity|]. exact IH. Qed.

Lemma item_len_flat f t r : flat t -> wf t -> item_len (S f) (enc t ++ r) = Some (length (enc t)).
Proof.
  intros F W. destruct t as [n|n|b|b| | | |n| ]; cbn [flat] in F; try contradiction; cbn [wf] in W; cbn [enc item_len].
  - rewrite parse_head_head by lia. fold (hl_of (ai_of n)). rewrite head_length. reflexivity.
  - rewrite parse_head_head by lia. fold (hl_of (ai_of n)). rewrite head_length. reflexivity.
  - rewrite <- app_assoc, parse_head_head by lia. fold (hl_of (ai_of (blen b))).
    rewrite app_length, head_length. unfold blen. rewrite Nat2N.id. reflexivity.
  - rewrite <- app_assoc, parse_head_head by lia. fold (hl_of (ai_of (blen b))).
    rewrite app_length, head_length. unfold blen. rewrite Nat2N.id. reflexivity.
  - subst n. reflexivity.
Qed.

Lemma flat_depth t : flat t -> depth t = 0%nat.
Proof. destruct t; cbn; try contradiction; reflexivity. Qed.

Lemma raw_first_flat t r : flat t -> wf t -> raw_first (enc t ++ r) = Some (t, enc t, r).
Proof.
  intros F W. unfold raw_first, parse_first. rewrite parse_enc by (auto; rewrite flat_depth by exact F; unfold max_nesting; lia).
  change 40%nat with (S 39). rewrite item_len_flat by assumption. rewrite firstn_app_len, skipn_app_len. reflexivity.
Qed.

From PSA Require Import Lifecycle Regex Claims ClaimsSpec Codec SetterProofs CodecProofs.

Definition key_ok (k : Z) : Prop := (- 2 ^ 63 <= k < 2 ^ 63)%Z.

Lemma enc_int_flat k : flat (enc_int k).
Proof. unfold enc_int. destruct k; exact I. Qed.

Lemma enc_int_wf k : key_ok k -> wf (enc_int k).
Proof. unfold key_ok, enc_int. intro H. destruct k; cbn [wf]; lia. Qed.

Lemma key_as_int_enc k : key_ok k -> key_as_int (enc_int k) = Some k.
Proof.
  intro H. unfold key_as_int.
  assert (has_tag 40 (enc_int k) = false) as -> by (unfold enc_int; destruct k; reflexivity).
  apply (dec_int_enc 64 k); [exact H|lia].
Qed.

Lemma zpos_inj a b : zpos a = zpos b -> a = b.
Proof. destruct a, b; cbn; intro H; try discriminate; try reflexivity; injection H as ->; reflexivity. Qed.

(** the seen-set holds exactly the keys read so far *)
Definition seen_is (s : seen) (ks : list Z) : Prop :=
  forall k, PositiveMap.mem (zpos k) s = existsb (Z.eqb k) ks.

Lemma seen_empty : seen_is (PositiveMap.empty unit) [].
Proof. intro k. rewrite PositiveMap.mem_find, PositiveMap.gempty. reflexivity. Qed.

Lemma seen_add s ks k : seen_is s ks -> seen_is (PositiveMap.add (zpos k) tt s) (k :: ks).
Proof.
  intros H k'. rewrite PositiveMap.mem_find. cbn [existsb].
  destruct (Z.eqb_spec k' k) as [->|Ne].
  - rewrite PositiveMap.gss. reflexivity.
  - rewrite PositiveMap.gso by (intro X; apply zpos_inj in X; congruence).
    rewrite <- PositiveMap.mem_find. apply H.
Qed.

(** one pair *)
Lemma read_pair_ok s acc ks k v r : seen_is s ks -> key_ok k -> flat v -> wf v -> ~ In k ks ->
  read_pair (s, acc) (enc (enc_int k) ++ enc v ++ r) = Some (PositiveMap.add (zpos k) tt s, (k, enc v) :: acc, r).
Proof.
  intros Hs Hk Fv Wv Nin. unfold read_pair.
  rewrite (raw_first_flat (enc_int k) (enc v ++ r) (enc_int_flat k) (enc_int_wf k Hk)).
  rewrite (key_as_int_enc k Hk). rewrite (raw_first_flat v r Fv Wv). cbn [fst snd].
  rewrite (Hs k).
  assert (existsb (Z.eqb k) ks = false) as ->.
  { destruct (existsb (Z.eqb k) ks) eqn:E; [|reflexivity]. apply existsb_exists in E. destruct E as (x & Hx & Ex).
    apply Z.eqb_eq in Ex. subst x. contradiction. }
  reflexivity.
Qed.

Definition pairs_ok (l : list (Z * cbor)) : Prop :=
  NoDup (map fst l) /\ Forall (fun kv => key_ok (fst kv) /\ flat (snd kv) /\ wf (snd kv)) l.

Definition body (l : list (Z * cbor)) : bytes := flat_map (fun kv => enc (enc_int (fst kv)) ++ enc (snd kv)) l.

Lemma body_cons k v l : body ((k, v) :: l) = enc (enc_int k) ++ enc v ++ body l.
Proof. unfold body. cbn [flat_map fst snd]. rewrite <- app_assoc. reflexivity. Qed.

Lemma read_pairs_ok : forall l s acc ks r, seen_is s ks -> pairs_ok l -> (forall k, In k (map fst l) -> ~ In k ks) ->
  exists s', read_pairs (length l) (s, acc) (body l ++ r) = Some ((s', rev_append (map (fun kv => (fst kv, enc (snd kv))) l) acc), r).
Proof.
  induction l as [|[k v] l IH]; intros s acc ks r Hs [ND Fa] Dis.
  - exists s. reflexivity.
  - cbn [map fst] in ND. inversion ND as [|? ? Hnotin ND']. subst. inversion Fa as [|? ? [Hk [Fv Wv]] Fa']. subst. cbn [fst snd] in *.
    cbn [length read_pairs]. rewrite body_cons, <- !app_assoc.
    rewrite (read_pair_ok s acc ks k v (body l ++ r) Hs Hk Fv Wv (Dis k (or_introl eq_refl))).
    destruct (IH (PositiveMap.add (zpos k) tt s) ((k, enc v) :: acc) (k :: ks) r (seen_add s ks k Hs) (conj ND' Fa')) as [s' E].
    + intros k' Hin [<-|Hin']; [contradiction|]. apply (Dis k' (or_intror Hin) Hin').
    + exists s'. cbv beta iota. refine (eq_trans E _). reflexivity.
Qed.

(** the writer's header as the reader takes it apart *)
Lemma head5_split n r : n < 2 ^ 32 ->
  exists h hr, head 5 n = h :: hr /\ Byte.to_N h / 32 = 5 /\ Byte.to_N h mod 32 = ai_of n /\
               process_ai (ai_of n) (hr ++ r) = Some (n, r).
Proof.
  intro Hn. unfold head, ai_of, process_ai.
  destruct (N.ltb_spec n 24) as [H24|H24].
  { exists (byte_of_N (5 * 32 + n)), []. destruct (first_byte 5 n) as [A B]; [lia|lia|]. split; [reflexivity|split; [exact A|split; [exact B|]]].
    destruct (N.ltb_spec n 24); [reflexivity|lia]. }
  destruct (N.ltb_spec n 256) as [H8|H8].
  { exists (byte_of_N (5 * 32 + 24)), (be 1 n). destruct (first_byte 5 24) as [A B]; [lia|lia|]. split; [reflexivity|split; [exact A|split; [exact B|]]].
    cbn -[be take]. rewrite take_app by apply be_length. rewrite unbe_be by (cbn; lia). reflexivity. }
  destruct (N.ltb_spec n 65536) as [H16|H16].
  { exists (byte_of_N (5 * 32 + 25)), (be 2 n). destruct (first_byte 5 25) as [A B]; [lia|lia|]. split; [reflexivity|split; [exact A|split; [exact B|]]].
    cbn -[be take]. rewrite take_app by apply be_length. rewrite unbe_be by (cbn; lia). reflexivity. }
  destruct (N.ltb_spec n 4294967296) as [H32|H32]; [|lia].
  exists (byte_of_N (5 * 32 + 26)), (be 4 n). destruct (first_byte 5 26) as [A B]; [lia|lia|]. split; [reflexivity|split; [exact A|split; [exact B|]]].
  cbn -[be take]. rewrite take_app by apply be_length. rewrite unbe_be by (cbn; lia). reflexivity.
Qed.

Lemma body_of_map l : flat_map (fun kv : Z * bytes => enc (enc_int (fst kv)) ++ snd kv) (map (fun kv : Z * cbor => (fst kv, enc (snd kv))) l) = body l.
Proof. unfold body. induction l as [|[k v] l IH]; cbn; [reflexivity|]. rewrite IH. reflexivity. Qed.

Lemma body_length l : (2 * length l <= length (body l))%nat.
Proof.
  unfold body. induction l as [|[k v] l IH]; cbn [flat_map length]; [lia|]. rewrite !app_length.
  pose proof (enc_nonempty (enc_int k)). pose proof (enc_nonempty v). cbn [fst snd]. lia.
Qed.

(** FromCBOR (ToCBOR m) = m *)
Theorem from_cbor_to_cbor (l : list (Z * cbor)) :
  pairs_ok l -> N.of_nat (length l) < 2 ^ 32 ->
  from_cbor (to_cbor (map (fun kv => (fst kv, enc (snd kv))) l)) = Some (map (fun kv => (fst kv, enc (snd kv))) l).
Proof.
  intros Ok Hn. unfold to_cbor. rewrite map_length, body_of_map, header_correct by exact Hn.
  destruct (head5_split (N.of_nat (length l)) (body l) Hn) as (h & hr & Eh & Mj & Ai & Pa). rewrite Eh.
  unfold from_cbor, from_cbor_alloc. cbn [app]. rewrite Mj, Ai. cbn [N.eqb Pos.eqb negb].
  rewrite Pa.
  assert (ai_of (N.of_nat (length l)) =? 31 = false) as ->.
  { unfold ai_of. destruct (N.ltb_spec (N.of_nat (length l)) 24); [apply N.eqb_neq; lia|].
    destruct (N.of_nat (length l) <? 256); [reflexivity|]. destruct (N.of_nat (length l) <? 65536); [reflexivity|].
    destruct (N.of_nat (length l) <? 4294967296); reflexivity. }
  rewrite at_least_le by (pose proof (body_length l); unfold blen; lia). cbn [negb].
  rewrite Nat2N.id.
  destruct (read_pairs_ok l (PositiveMap.empty unit) [] [] [] seen_empty Ok (fun k _ H => H)) as [s' E].
  rewrite app_nil_r in E. unfold st0. cbn [fst].
  refine (eq_trans (f_equal (fun x => match x with Some (st, _) => Some (rev_append (snd st) []) | None => None end) E) _).
  cbn [snd]. rewrite !rev_append_rev, !app_nil_r, rev_involutive. reflexivity.
Qed.

(** non-vacuity: a map with negative / large keys and all four kinds of scalar value *)
Example roundtrip_witness :
  let l := [(1, CUint 7); (-3, CText (s2b "v")); (70000, CBytes [x01; x02]); (12, CSimple 22); (-75001, CNint 41)]%Z in
  pairs_ok l /\ from_cbor (to_cbor (map (fun kv => (fst kv, enc (snd kv))) l)) = Some (map (fun kv => (fst kv, enc (snd kv))) l).
Proof.
  cbv zeta. split; [|vm_compute; reflexivity].
  split; [cbn; repeat constructor; cbn; intuition discriminate|].
  repeat constructor; unfold key_ok; cbn; lia.
Qed.
