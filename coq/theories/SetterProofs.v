(** C11: setters accept exactly what validation accepts, are
    all-or-nothing, and a history of setter calls ends in a state that
    depends only on the last accepted call per claim. *)
From Coq Require Import Arith ZifyN ZifyBool ZifyNat.
From PSA Require Import Base Lifecycle Regex Claims ClaimsSpec LifecycleProofs RegexProofs ClaimsProofs.
From PSA.Spec Require Import SpecTables.
Open Scope N_scope.

(** which claim a setter call addresses *)
Definition slot (o : sop) : claimid :=
  match o with
  | OClient _ => CClient | OLc _ => CLc | OImpl _ => CImpl | OBoot _ => CBoot | OCert _ => CCert
  | ONonce _ => CNonce | OInst _ => CInst | OVsi _ => CVsi | OSwc _ => CSwc
  end.

(** the value is one the profile's rules accept for that claim (declarative) *)
Definition accepted (k : kind) (o : sop) : bool :=
  match o with
  | OClient _ => true
  | OLc v => lc_page_ok v
  | OImpl v => blen v =? 32
  | OBoot v => match k with K1 => blen v =? 32 | K2 => (8 <=? blen v) && (blen v <=? 32) end
  | OCert v => cert_format k v
  | ONonce v => hash_size v
  | OInst v => (blen v =? 33) && match v with x :: _ => Byte.to_N x =? 1 | [] => false end
  | OVsi v => match v with [] => false | _ => true end
  | OSwc None => true
  | OSwc (Some l) => forallb swc_wf l
  end.

(** the effect of an accepted call: only the addressed claim changes *)
Definition write (o : sop) (c : claims) : claims :=
  match o with
  | OClient v => upd_client c (Some v)
  | OLc v => upd_lc c (Some v)
  | OImpl v => upd_impl c (Some v)
  | OBoot v => upd_boot c (Some v)
  | OCert v => upd_cert c (Some v)
  | ONonce v => upd_nonce c (Some [v])
  | OInst v => upd_inst c (Some v)
  | OVsi v => upd_vsi c (Some v)
  | OSwc None => match c_kind c with K1 => upd_swc c None (Some 1) | K2 => upd_swc c (Some []) (c_nosw c) end
  | OSwc (Some l) => match c_kind c with
                     | K1 => upd_swc c (Some (map Some l)) None
                     | K2 => upd_swc c (Some (map Some l)) (c_nosw c)
                     end
  end.

(** observable view: an empty component container and no container are
    indistinguishable through getters, validation and the encoders *)
Definition view (c : claims) : claims :=
  upd_swc c (match c_swc c with Some [] => None | x => x end) (c_nosw c).

Lemma view_idem c : view (view c) = view c.
Proof. unfold view. destruct c as [k p cl lc im bo ce [[|o l]|] ns no ins vs can]; reflexivity. Qed.

Lemma status_view id c : status S id (view c) = status S id c.
Proof.
  destruct id; try reflexivity.
  unfold status, get_swc, swc_empty, view. cbn.
  destruct (c_swc c) as [[|o l]|]; reflexivity.
Qed.

Lemma validate_view c : validate S (view c) = validate S c.
Proof.
  unfold validate. generalize (vorder S). intro order.
  induction order as [|id r IH]; [reflexivity|]. cbn [walk]. rewrite status_view, IH. reflexivity.
Qed.

Lemma validate_all_spec l :
  (forallb swc_wf l = true /\ validate_all S l = Ok tt) \/
  (forallb swc_wf l = false /\ exists e, validate_all S l = Err e).
Proof.
  induction l as [|s l IH]; [left; split; reflexivity|].
  cbn [forallb validate_all]. destruct (validate_swc_cases s) as [[W V]|[W [e [V _]]]]; rewrite W, V; cbn [andb].
  - exact IH.
  - right. split; [reflexivity|eauto].
Qed.

(** the operational setter is: accept exactly the accepted values, then write *)
Theorem apply_sop_spec c o :
  (accepted (c_kind c) o = true /\ snd (apply_sop S c o) = Ok tt /\ view (fst (apply_sop S c o)) = view (write o c)) \/
  (accepted (c_kind c) o = false /\ (exists e, snd (apply_sop S c o) = Err e) /\ view (fst (apply_sop S c o)) = view c).
Proof.
  destruct o as [v|v|v|v|v|v|v|v|[l|]]; cbn [apply_sop accepted write].
  - left. repeat split.
  - unfold set_lc, guarded. rewrite validate_lc_spec. destruct (lc_page_ok v); [left|right]; repeat split; cbn; eauto.
  - unfold set_impl, guarded. rewrite validate_impl_spec. destruct (blen v =? 32); [left|right]; repeat split; cbn; eauto.
  - unfold set_boot, guarded. rewrite validate_boot_spec. destruct (c_kind c);
      match goal with |- context [if ?b then _ else _] => destruct b end; [left|right|left|right]; repeat split; cbn; eauto.
  - unfold set_cert, guarded, validate_cert. rewrite cert_ok_set_spec.
    destruct (cert_format (c_kind c) v); [left|right]; repeat split; cbn; eauto.
  - unfold set_nonce, guarded. rewrite validate_hash_spec. destruct (hash_size v); [left|right]; repeat split; cbn; eauto.
  - unfold set_inst, guarded. rewrite validate_inst_spec.
    match goal with |- context [if ?b then _ else _] => destruct b end; [left|right]; repeat split; cbn; eauto.
  - unfold set_vsi, guarded, validate_vsi. destruct v; [right|left]; repeat split; cbn; eauto.
  - destruct (validate_all_spec l) as [[F V]|[F [e V]]];
      destruct c as [[] p cl lc im bo ce [[|x sw]|] ns no ins vs can];
      unfold set_swc; cbn [c_kind c_swc upd_swc c_nosw]; rewrite V, F; [left|left|left|left|left|left|right|right|right|right|right|right];
      repeat split; cbn; eauto.
  - left. destruct c as [[] p cl lc im bo ce [[|x sw]|] ns no ins vs can]; repeat split.
Qed.

Corollary setter_succeeds_iff c o : snd (apply_sop S c o) = Ok tt <-> accepted (c_kind c) o = true.
Proof.
  destruct (apply_sop_spec c o) as [[A [R _]]|[A [[e R] _]]]; rewrite A, R; split; congruence.
Qed.

Corollary setter_failure_unchanged c o e :
  snd (apply_sop S c o) = Err e -> view (fst (apply_sop S c o)) = view c.
Proof.
  destruct (apply_sop_spec c o) as [[A [R _]]|[A [_ V]]]; [rewrite R; discriminate|auto].
Qed.

(** no setter ever panics *)
Corollary setter_never_panics c o : snd (apply_sop S c o) <> Panic.
Proof.
  destruct (apply_sop_spec c o) as [[_ [R _]]|[_ [[e R] _]]]; rewrite R; discriminate.
Qed.

(** "accepted" is what validation accepts for that claim: the claim is
    conformant in the claims-set holding the value.  The clear operation
    (empty list; nil list for profile 2) is exempt. *)
Definition is_clear (k : kind) (o : sop) : bool :=
  match o with OSwc (Some []) => true | OSwc None => match k with K2 => true | K1 => false end | _ => false end.

Lemma forallb_elem_wf_map l : forallb elem_wf (map Some l) = forallb swc_wf l.
Proof. induction l as [|s l IH]; cbn; [reflexivity|rewrite IH; reflexivity]. Qed.

Theorem accepted_iff_validation_accepts c o :
  is_clear (c_kind c) o = false ->
  accepted (c_kind c) o = conf_of (slot o) (write o c).
Proof.
  intro NC. destruct c as [k p cl lc im bo ce sw ns no ins vs can]. cbn [c_kind] in *.
  destruct o as [v|v|v|v|v|v|v|v|[[|s l]|]]; destruct k; cbn in NC; try discriminate;
    cbn [accepted slot write conf_of c_kind]; try reflexivity.
  - unfold conf_swc, comps. cbn. rewrite forallb_elem_wf_map, andb_true_r. reflexivity.
  - unfold conf_swc, comps. cbn. rewrite forallb_elem_wf_map. destruct ns; rewrite andb_true_r; reflexivity.
Qed.

(** after an accepted call the matching getter returns exactly the value *)
Theorem getter_returns_set_value c o :
  accepted (c_kind c) o = true ->
  match o with
  | OClient v => get_client (write o c) = Ok v
  | OLc v => get_lc S (write o c) = Ok v
  | OImpl v => get_impl S (write o c) = Ok v
  | OBoot v => get_boot S (write o c) = Ok v
  | OCert v => get_cert S (write o c) = Ok v
  | ONonce v => get_nonce S (write o c) = Ok v
  | OInst v => get_inst S (write o c) = Ok v
  | OVsi v => get_vsi (write o c) = Ok v
  | OSwc (Some (s :: l)) => get_swc S (write o c) = Ok (s :: l)
  | OSwc _ => True
  end.
Proof.
  destruct o as [v|v|v|v|v|v|v|v|[[|s l]|]]; cbn [accepted write]; intro A; try exact I.
  - reflexivity.
  - unfold get_lc. cbn. rewrite validate_lc_spec, A. reflexivity.
  - unfold get_impl. cbn. rewrite validate_impl_spec, A. reflexivity.
  - unfold get_boot. cbn. rewrite validate_boot_spec. destruct (c_kind c); rewrite A; reflexivity.
  - unfold get_cert, validate_cert. cbn. rewrite cert_ok_get_spec. rewrite A. reflexivity.
  - unfold get_nonce. cbn. rewrite validate_hash_spec, A. reflexivity.
  - unfold get_inst. cbn. rewrite validate_inst_spec, A. reflexivity.
  - destruct v; [discriminate|reflexivity].
  - assert (values S (map Some (s :: l)) = Ok (s :: l)) as V.
    { destruct (values_cases (map Some (s :: l))) as [[F V]|[F _]].
      - rewrite V. f_equal. clear. induction (s :: l) as [|x r IH]; cbn; [reflexivity|f_equal; exact IH].
      - rewrite forallb_elem_wf_map in F. congruence. }
    unfold get_swc, swc_empty. destruct (c_kind c) eqn:K; cbn; rewrite K; cbn [map] in *; cbn; exact V.
Qed.

(** * histories *)

(** the last value [f] extracts from the list, else the default *)
Definition pick {A} (f : sop -> option A) (l : list sop) (d : A) : A :=
  fold_left (fun acc o => match f o with Some x => x | None => acc end) l d.

(** closed form of the state after a list of accepted calls *)
Definition final (l : list sop) (c : claims) : claims :=
  let k := c_kind c in
  {| c_kind := k; c_profile := c_profile c;
     c_client := pick (fun o => match o with OClient v => Some (Some v) | _ => None end) l (c_client c);
     c_lc := pick (fun o => match o with OLc v => Some (Some v) | _ => None end) l (c_lc c);
     c_impl := pick (fun o => match o with OImpl v => Some (Some v) | _ => None end) l (c_impl c);
     c_boot := pick (fun o => match o with OBoot v => Some (Some v) | _ => None end) l (c_boot c);
     c_cert := pick (fun o => match o with OCert v => Some (Some v) | _ => None end) l (c_cert c);
     c_swc := pick (fun o => match o with
                             | OSwc None => Some (match k with K1 => None | K2 => Some [] end)
                             | OSwc (Some x) => Some (Some (map Some x))
                             | _ => None end) l (c_swc c);
     c_nosw := pick (fun o => match o with
                              | OSwc None => match k with K1 => Some (Some 1) | K2 => None end
                              | OSwc (Some _) => match k with K1 => Some None | K2 => None end
                              | _ => None end) l (c_nosw c);
     c_nonce := pick (fun o => match o with ONonce v => Some (Some [v]) | _ => None end) l (c_nonce c);
     c_inst := pick (fun o => match o with OInst v => Some (Some v) | _ => None end) l (c_inst c);
     c_vsi := pick (fun o => match o with OVsi v => Some (Some v) | _ => None end) l (c_vsi c);
     c_canon := c_canon c |}.

Lemma write_kind o c : c_kind (write o c) = c_kind c.
Proof. destruct c as [[] p cl lc im bo ce sw ns no ins vs can]; destruct o as [v|v|v|v|v|v|v|v|[l|]]; reflexivity. Qed.

Lemma final_nil c : final [] c = c.
Proof. destruct c; reflexivity. Qed.

Lemma final_cons o l c : final (o :: l) c = final l (write o c).
Proof.
  destruct c as [[] p cl lc im bo ce sw ns no ins vs can]; destruct o as [v|v|v|v|v|v|v|v|[x|]]; reflexivity.
Qed.

Lemma fold_writes_final l : forall c, fold_left (fun c o => write o c) l c = final l c.
Proof.
  induction l as [|o l IH]; intro c; cbn [fold_left]; [symmetry; apply final_nil|].
  rewrite IH, final_cons. reflexivity.
Qed.

Lemma apply_kind c o : c_kind (fst (apply_sop S c o)) = c_kind c.
Proof.
  destruct (apply_sop_spec c o) as [[_ [_ V]]|[_ [_ V]]];
    apply (f_equal c_kind) in V; cbn in V; rewrite V; [apply write_kind|reflexivity].
Qed.

Lemma view_write o c : view (write o (view c)) = view (write o c).
Proof.
  destruct o as [v|v|v|v|v|v|v|v|[x|]]; cbn [write];
    destruct c as [[] p cl lc im bo ce [[|y sw]|] ns no ins vs can]; reflexivity.
Qed.

Lemma view_final l : forall c, view (final l (view c)) = view (final l c).
Proof.
  induction l as [|o l IH]; intro c.
  - rewrite !final_nil. apply view_idem.
  - rewrite !final_cons. rewrite <- (IH (write o (view c))), <- (IH (write o c)), view_write. reflexivity.
Qed.

(** the state after ANY history is, observably, the closed form over the accepted calls *)
Theorem history_closed_form ops : forall c,
  view (run_sops S ops c) = view (final (filter (accepted (c_kind c)) ops) c).
Proof.
  induction ops as [|o ops IH]; intro c; cbn [run_sops fold_left filter].
  - rewrite final_nil. reflexivity.
  - change (fold_left (fun c o => fst (apply_sop S c o)) ops (fst (apply_sop S c o)))
      with (run_sops S ops (fst (apply_sop S c o))).
    rewrite IH, apply_kind.
    destruct (apply_sop_spec c o) as [[A [_ V]]|[A [_ V]]]; rewrite A.
    + rewrite final_cons, <- view_final, V, view_final. reflexivity.
    + rewrite <- view_final, V, view_final. reflexivity.
Qed.

(** order and repetition are irrelevant: histories whose accepted calls
    agree on the last value per claim end in the same observable state *)
Corollary order_irrelevant ops1 ops2 c :
  final (filter (accepted (c_kind c)) ops1) c = final (filter (accepted (c_kind c)) ops2) c ->
  view (run_sops S ops1 c) = view (run_sops S ops2 c).
Proof. intro H. rewrite !history_closed_form, H. reflexivity. Qed.

(** * every mandatory claim set successfully => the claims-set validates *)

(** every claim that is present is conformant (absent ones are not judged) *)
Definition partial_ok (c : claims) : Prop :=
  conf_profile c = true /\
  (c_lc c = None \/ conf_lc c = true) /\ (c_impl c = None \/ conf_impl c = true) /\
  (c_boot c = None \/ conf_boot c = true) /\ conf_cert c = true /\
  (forallb elem_wf (comps c) = true /\ (comps c <> [] -> c_nosw c = None) /\ (c_kind c = K2 -> c_nosw c = None)) /\
  (c_nonce c = None \/ conf_nonce c = true) /\ (c_inst c = None \/ conf_inst c = true) /\ conf_vsi c = true.

Definition mandatory_present (c : claims) : Prop :=
  c_client c <> None /\ c_lc c <> None /\ c_impl c <> None /\ c_nonce c <> None /\ c_inst c <> None /\
  (c_kind c = K1 -> c_boot c <> None) /\
  (comps c <> [] \/ (c_kind c = K1 /\ c_nosw c <> None)).

Lemma partial_ok_new1 b : partial_ok (new_p1 S b).
Proof. destruct b; unfold partial_ok; cbn; repeat split; auto; try discriminate; try congruence; apply bytes_eqb_refl. Qed.

Lemma partial_ok_new2 : partial_ok (new_p2 S).
Proof. unfold partial_ok; cbn; repeat split; auto; try discriminate; try congruence. Qed.

Lemma partial_ok_write o c : accepted (c_kind c) o = true -> partial_ok c -> partial_ok (write o c).
Proof.
  intros A H. destruct c as [k p cl lc im bo ce sw ns no ins vs can]. cbn [c_kind] in A.
  unfold partial_ok, conf_profile, conf_lc, conf_impl, conf_boot, conf_cert, conf_nonce, conf_inst, conf_vsi, comps in *.
  cbn [c_kind c_profile c_client c_lc c_impl c_boot c_cert c_swc c_nosw c_nonce c_inst c_vsi c_canon] in H.
  destruct H as (P & L & I & B & Ce & (Sw & Fl & Fk) & N & U & V).
  destruct o as [v|v|v|v|v|v|v|v|[l|]]; cbn [accepted] in A; destruct k;
    cbn [write upd_client upd_lc upd_impl upd_boot upd_cert upd_swc upd_nonce upd_inst upd_vsi
         c_kind c_profile c_client c_lc c_impl c_boot c_cert c_swc c_nosw c_nonce c_inst c_vsi c_canon];
    rewrite ?forallb_elem_wf_map;
    repeat split; auto; try congruence; try discriminate.
  all: try (destruct v; [discriminate|reflexivity]).
Qed.

Lemma partial_ok_view c : partial_ok (view c) <-> partial_ok c.
Proof.
  unfold partial_ok, view, comps, conf_profile, conf_lc, conf_impl, conf_boot, conf_cert, conf_nonce, conf_inst, conf_vsi. cbn.
  destruct (c_swc c) as [[|x l]|]; tauto.
Qed.

Theorem partial_ok_history ops c : partial_ok c -> partial_ok (run_sops S ops c).
Proof.
  revert c. induction ops as [|o ops IH]; intros c H; [exact H|].
  cbn [run_sops fold_left]. apply IH.
  destruct (apply_sop_spec c o) as [[A [_ V]]|[A [_ V]]]; apply partial_ok_view; rewrite V; apply partial_ok_view; auto.
  apply partial_ok_write; assumption.
Qed.

Theorem present_and_partial_validates c :
  partial_ok c -> mandatory_present c -> validate S c = Ok tt.
Proof.
  intros (P & L & I & B & Ce & (Sw & Fl & Fk) & N & U & V) (Mc & Ml & Mi & Mn & Mu & Mb & Ms).
  apply validate_iff_conformant. unfold conformant, all_claims. cbn [forallb conf_of].
  rewrite P, Ce, V. cbn [andb].
  destruct L as [L|L]; [congruence|]. destruct I as [I|I]; [congruence|].
  destruct N as [N|N]; [congruence|]. destruct U as [U|U]; [congruence|].
  rewrite L, I, N, U. cbn [andb].
  assert (conf_client c = true) as -> by (unfold conf_client; destruct (c_client c); congruence).
  assert (conf_boot c = true) as ->.
  { destruct B as [B|B]; [|exact B]. unfold conf_boot. rewrite B. destruct (c_kind c); [exfalso; apply Mb; auto|reflexivity]. }
  assert (conf_swc c = true) as ->; [|reflexivity].
  unfold conf_swc. destruct (comps c) as [|x l] eqn:E.
  - destruct Ms as [Ms|[K Ms]]; [congruence|]. rewrite K. destruct (c_nosw c); congruence.
  - rewrite Sw. rewrite Fl by discriminate. destruct (c_kind c); reflexivity.
Qed.

(** starting from a constructor, ANY history of setter calls after which
    every mandatory claim is present ends in a claims-set that validates *)
Corollary mandatory_set_validates ops c0 :
  (c0 = new_p1 S true \/ c0 = new_p1 S false \/ c0 = new_p2 S) ->
  mandatory_present (run_sops S ops c0) -> validate S (run_sops S ops c0) = Ok tt.
Proof.
  intros H M. apply present_and_partial_validates; [|exact M]. apply partial_ok_history.
  destruct H as [->|[->| ->]]; auto using partial_ok_new1, partial_ok_new2.
Qed.
