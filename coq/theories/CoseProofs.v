(** C20 / C02: what a successfully decoded Evidence must look like, and
    what a verified signature binds (idealised signature scheme as section
    hypotheses that remain premises of the closed theorems). *)
From Coq Require Import Arith ZArith String Lia.
From PSA Require Import Base Lines Lifecycle Regex Claims Cbor CborProofs Tags Wire Codec Cose.
Open Scope N_scope.

(** * C20 *)

Lemma decode_selector_map t name : decode_selector t = DOk name -> exists kvs, t = CMap kvs.
Proof. destruct t; cbn; try discriminate. eauto. Qed.

Lemma decode_cbor_is_map cc w p c : decode_cbor cc w p = DOk c -> exists kvs, parse_all p = Some (CMap kvs).
Proof.
  unfold decode_cbor. destruct (parse_all p) as [t|]; [|discriminate].
  destruct (strip_tags t); try discriminate.
  destruct (decode_selector t) as [name| |] eqn:Sel; try discriminate.
  intros _. destruct (decode_selector_map t name Sel) as [kvs ->]. eauto.
Qed.

Theorem evidence_decode_sound cc w b v c :
  decode_evidence cc w b = DOk (v, c) ->
  exists r u,
    b = xd2 :: r /\ hd_error r = Some x84 /\
    parse_all r = Some (CArray [CBytes (v_prot v); u; CBytes (v_payload v); CBytes (v_sig v)]) /\
    (exists m, u = CMap m) /\ v_sig v <> [] /\
    decode_cbor cc w (v_payload v) = DOk c /\
    exists kvs, parse_all (v_payload v) = Some (CMap kvs).
Proof.
  unfold decode_evidence. destruct (cose_decode b) as [v0| |] eqn:CD; try discriminate.
  destruct (decode_cbor cc w (v_payload v0)) as [c0| |] eqn:DC; try discriminate.
  intro H. injection H as Hv Hc. subst v c. rename v0 into v. rename c0 into c.
  unfold cose_decode in CD.
  destruct b as [|b0 r]; [discriminate|].
  destruct b0; try discriminate. destruct r as [|b1 r']; [discriminate|]. destruct b1; try discriminate.
  destruct (parse_all (x84 :: r')) as [t|] eqn:P; [|discriminate].
  destruct t as [ | | | |l| | | | ]; try discriminate.
  destruct l as [|p [|u [|pl [|sg [|x l]]]]]; try discriminate.
  destruct (has_tag 40 (CArray [p; u; pl; sg])); [discriminate|].
  destruct (as_bstr_or_nil pl) as [opl|] eqn:Apl; [|discriminate].
  destruct (as_bstr_or_nil sg) as [osg|] eqn:Asg; [|discriminate].
  destruct osg as [[|s0 sgb]|]; try discriminate.
  destruct p as [ | |content| | | | | | ]; try discriminate.
  assert (exists m, u = CMap m) as Um.
  { destruct (dec_protected content) as [[a|]| |]; destruct u; cbn in CD; try discriminate; eauto. }
  destruct (dec_protected content) as [a| |]; destruct (dec_unprotected u) as [a'| |]; try discriminate; try (destruct a; discriminate).
  assert (CD' : match opl with None => DErr | Some plb => DOk {| v_prot := content; v_alg := a; v_payload := plb; v_sig := s0 :: sgb |} end = DOk v)
    by (destruct a, a'; try discriminate; exact CD).
  clear CD. rename CD' into CD.
  destruct opl as [plb|]; [|discriminate]. injection CD as <-. cbn [v_prot v_payload v_sig v_alg] in *.
  exists (x84 :: r'), u. split; [reflexivity|]. split; [reflexivity|].
  assert (pl = CBytes plb) as -> by (destruct pl; cbn in Apl; try discriminate; [congruence|destruct n as [|q]; try discriminate; repeat (destruct q as [q|q|]; try discriminate)]).
  assert (sg = CBytes (s0 :: sgb)) as -> by (destruct sg; cbn in Asg; try discriminate; [congruence|destruct n as [|q]; try discriminate; repeat (destruct q as [q|q|]; try discriminate)]).
  split; [exact P|]. split; [exact Um|]. split; [discriminate|]. split; [exact DC|].
  exact (decode_cbor_is_map cc w plb c DC).
Qed.

(** * C02 *)

(** the encoder is injective on representable items *)
Lemma enc_injective t1 t2 : wf t1 -> wf t2 -> (depth t1 <= max_nesting)%nat -> (depth t2 <= max_nesting)%nat ->
  enc t1 = enc t2 -> t1 = t2.
Proof.
  intros W1 W2 D1 D2 E. pose proof (parse_all_enc t1 W1 D1) as P1. pose proof (parse_all_enc t2 W2 D2) as P2.
  rewrite E in P1. congruence.
Qed.

(** the bytes that are signed determine the protected header and the payload *)
Theorem sig_structure_injective p1 pl1 p2 pl2 :
  blen p1 < 2 ^ 64 -> blen pl1 < 2 ^ 64 -> blen p2 < 2 ^ 64 -> blen pl2 < 2 ^ 64 ->
  sig_structure p1 pl1 = sig_structure p2 pl2 -> p1 = p2 /\ pl1 = pl2.
Proof.
  intros A B C D E. unfold sig_structure in E.
  apply enc_injective in E.
  - injection E. auto.
  - cbn. repeat split; try lia; try assumption; vm_compute; reflexivity.
  - cbn. repeat split; try lia; try assumption; vm_compute; reflexivity.
  - cbn. unfold max_nesting. lia.
  - cbn. unfold max_nesting. lia.
Qed.

Section Crypto.
  (** [sigvalid k alg msg s]: s is a valid signature of msg under key k and algorithm alg *)
  Variable sigvalid : N -> Z -> bytes -> bytes -> bool.
  Variable key_alg : N -> Z.

  (** the ideal-signature hypothesis: a signature value verifies for at most
      one (key, algorithm, message) *)
  Hypothesis sig_ideal : forall k a m k' a' m' s,
    sigvalid k a m s = true -> sigvalid k' a' m' s = true -> k = k' /\ a = a' /\ m = m'.

  (** Evidence.Verify on a decoded envelope *)
  Definition verify_env (v : envelope) (vk : N) : bool :=
    match v_alg v with
    | Some a => Z.eqb a (key_alg vk) && sigvalid vk a (sig_structure (v_prot v) (v_payload v)) (v_sig v)
    | None => false
    end.

  Definition sizes_ok (v : envelope) : Prop := blen (v_prot v) < 2 ^ 64 /\ blen (v_payload v) < 2 ^ 64.

  (** a token whose payload bytes or protected-header bytes differ from the
      signed ones, or that is presented with another key, does not verify
      with the original signature *)
  Theorem tamper_rejected (vo vt : envelope) (k vk : N) :
    sizes_ok vo -> sizes_ok vt ->
    verify_env vo k = true ->                       (* the original verifies under the signer's key *)
    v_sig vt = v_sig vo ->                          (* the signature travels with the altered token *)
    (v_prot vt <> v_prot vo \/ v_payload vt <> v_payload vo \/ vk <> k) ->
    verify_env vt vk = false.
  Proof.
    intros [So1 So2] [St1 St2] Vo Sg Diff.
    unfold verify_env in *. destruct (v_alg vo) as [a|]; [|discriminate].
    apply andb_true_iff in Vo. destruct Vo as [_ Vo].
    destruct (v_alg vt) as [a'|]; [|reflexivity].
    destruct (sigvalid vk a' (sig_structure (v_prot vt) (v_payload vt)) (v_sig vt)) eqn:Vt; [|apply andb_false_r].
    exfalso. rewrite Sg in Vt. destruct (sig_ideal _ _ _ _ _ _ _ Vo Vt) as (Ek & Ea & Em).
    apply sig_structure_injective in Em; auto. destruct Em as [Ep El].
    destruct Diff as [X|[X|X]]; congruence.
  Qed.

  (** a signature swapped in from another message does not verify *)
  Theorem foreign_signature_rejected (vt : envelope) (vk k2 : N) (a2 : Z) (p2 pl2 : bytes) :
    sizes_ok vt -> blen p2 < 2 ^ 64 -> blen pl2 < 2 ^ 64 ->
    sigvalid k2 a2 (sig_structure p2 pl2) (v_sig vt) = true ->      (* the signature belongs to (p2, pl2) *)
    (v_prot vt <> p2 \/ v_payload vt <> pl2 \/ vk <> k2) ->
    verify_env vt vk = false.
  Proof.
    intros [St1 St2] S1 S2 V2 Diff. unfold verify_env. destruct (v_alg vt) as [a'|]; [|reflexivity].
    destruct (sigvalid vk a' (sig_structure (v_prot vt) (v_payload vt)) (v_sig vt)) eqn:Vt; [|apply andb_false_r].
    exfalso. destruct (sig_ideal _ _ _ _ _ _ _ V2 Vt) as (Ek & Ea & Em).
    apply sig_structure_injective in Em; auto. destruct Em as [Ep El].
    destruct Diff as [X|[X|X]]; congruence.
  Qed.

  (** verification never succeeds without an algorithm in the protected
      header; a decoded envelope always has a payload and a non-empty signature *)
  Theorem verify_needs_algorithm v vk : verify_env v vk = true -> exists a, v_alg v = Some a /\ a = key_alg vk.
  Proof.
    unfold verify_env. destruct (v_alg v) as [a|]; [|discriminate]. intro H. apply andb_true_iff in H.
    destruct H as [H _]. apply Z.eqb_eq in H. eauto.
  Qed.
End Crypto.

Theorem decoded_has_payload_and_signature b v : cose_decode b = DOk v -> v_sig v <> [].
Proof.
  unfold cose_decode. destruct b as [|b0 r]; [discriminate|]. destruct b0; try discriminate.
  destruct r as [|b1 r']; [discriminate|]. destruct b1; try discriminate.
  destruct (parse_all (x84 :: r')) as [t|]; [|discriminate].
  destruct t as [ | | | |l| | | | ]; try discriminate.
  destruct l as [|p [|u [|pl [|sg [|x l]]]]]; try discriminate.
  destruct (has_tag 40 (CArray [p; u; pl; sg])); [discriminate|].
  destruct (as_bstr_or_nil pl) as [opl|]; [|discriminate].
  destruct (as_bstr_or_nil sg) as [[[|s0 sgb]|]|]; try discriminate.
  destruct p; try discriminate.
  destruct (dec_protected b) as [[a|]| |]; destruct (dec_unprotected u) as [[a'|]| |]; try discriminate;
    destruct opl; try discriminate; intro H; injection H as <-; discriminate.
Qed.

(** the hypothesis of the Crypto section is satisfiable by a scheme in which
    some signature does verify (so the theorems above are not vacuous) *)
Example ideal_scheme_exists :
  exists sigvalid : N -> Z -> bytes -> bytes -> bool,
    (forall k a m k' a' m' s, sigvalid k a m s = true -> sigvalid k' a' m' s = true -> k = k' /\ a = a' /\ m = m') /\
    (exists k a m s, sigvalid k a m s = true).
Proof.
  exists (fun k a m s => (k =? 1) && Z.eqb a (-7) && bytes_eqb m [x4d] && bytes_eqb s [x53]).
  split.
  - intros k a m k' a' m' s H1 H2.
    repeat (apply andb_true_iff in H1; destruct H1 as [H1 ?]). repeat (apply andb_true_iff in H2; destruct H2 as [H2 ?]).
    apply N.eqb_eq in H1, H2. repeat match goal with H : Z.eqb _ _ = true |- _ => apply Z.eqb_eq in H end.
    repeat match goal with H : bytes_eqb _ _ = true |- _ => apply bytes_eqb_eq in H end. subst. auto.
  - exists 1, (-7)%Z, [x4d], [x53]. reflexivity.
Qed.
