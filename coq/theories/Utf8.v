(** Go's utf8.Valid (RFC 3629: no overlong forms, no surrogates, at most U+10FFFF). *)
From PSA Require Import Base.
Open Scope N_scope.

Definition in_range (lo hi : N) (b : byte) : bool :=
  let n := Byte.to_N b in (lo <=? n) && (n <=? hi).

Definition cont (b : byte) : bool := in_range 128 191 b.

(** fuel = length of the input suffices: every step consumes at least one byte *)
Fixpoint utf8_go (fuel : nat) (s : bytes) : bool :=
  match fuel with
  | O => match s with [] => true | _ => false end
  | S f =>
      match s with
      | [] => true
      | a :: r =>
          let n := Byte.to_N a in
          if n <? 128 then utf8_go f r
          else if in_range 194 223 a then
            match r with b :: r' => cont b && utf8_go f r' | _ => false end
          else if n =? 224 then
            match r with b :: c :: r' => in_range 160 191 b && cont c && utf8_go f r' | _ => false end
          else if in_range 225 236 a || in_range 238 239 a then
            match r with b :: c :: r' => cont b && cont c && utf8_go f r' | _ => false end
          else if n =? 237 then
            match r with b :: c :: r' => in_range 128 159 b && cont c && utf8_go f r' | _ => false end
          else if n =? 240 then
            match r with b :: c :: d :: r' => in_range 144 191 b && cont c && cont d && utf8_go f r' | _ => false end
          else if in_range 241 243 a then
            match r with b :: c :: d :: r' => cont b && cont c && cont d && utf8_go f r' | _ => false end
          else if n =? 244 then
            match r with b :: c :: d :: r' => in_range 128 143 b && cont c && cont d && utf8_go f r' | _ => false end
          else false
      end
  end.

Definition utf8_valid (s : bytes) : bool := utf8_go (length s) s.
