(** C18: read-side calls change nothing and are repeatable. *)
From PSA Require Import Base Lines Lifecycle Regex Claims Cbor Tags Wire Codec Evidence Gates Json JsonCodec Purity.
Open Scope N_scope.

Section P.
Variable cc : ccfg.
Variable w : wcfg.
Variable key_alg : N -> Z.
Variable alg_known : Z -> bool.

Notation call_claims := (call_claims spec_fx cc w).
Notation call_ev := (call_ev spec_fx cc w key_alg alg_known).
Notation pstep := (pstep spec_fx cc w key_alg alg_known).
Notation prun := (prun spec_fx cc w key_alg alg_known).
Notation step := (step cc w key_alg alg_known).

Lemma call_claims_pure c r : fst (call_claims c r) = c.
Proof. destruct r; reflexivity. Qed.

(** Verify leaves the Evidence as it is *)
Lemma verify_pure e k : fst (step e (EVerify k)) = e.
Proof. reflexivity. Qed.

Lemma call_ev_pure e r : fst (call_ev e r) = e.
Proof.
  destruct e as [oc m]. destruct r; cbn; try (destruct oc as [c|]; reflexivity).
Qed.

Theorem read_preserves_state s o : consistent s -> fst (pstep s o) = s.
Proof.
  intro C. destruct s as [c e d], o as [t r]. unfold pstep, consistent in *. cbn [r_on r_call ps_c ps_e ps_d] in *.
  destruct t.
  - pose proof (call_claims_pure c r) as H. destruct (call_claims c r) as [c' out]. cbn in H. subst c'. cbn.
    destruct e as [[oc m]|]; cbn in *; [|reflexivity]. subst oc. reflexivity.
  - destruct e as [e|]; [|reflexivity].
    pose proof (call_ev_pure e r) as H. destruct (call_ev e r) as [e' out]. cbn in H. subst e'. cbn.
    cbn in C. rewrite C. reflexivity.
  - destruct d as [d|]; [|reflexivity].
    pose proof (call_ev_pure d r) as H. destruct (call_ev d r) as [d' out]. cbn in H. subst d'. reflexivity.
Qed.

(** over any history: the final state is the initial one and every call returns what it
    would have returned at the start -- in particular a repeated call returns the same again *)
Theorem reads_invisible s ops : consistent s ->
  prun s ops = (s, map (fun o => snd (pstep s o)) ops).
Proof.
  intro C. induction ops as [|o r IH]; [reflexivity|].
  cbn [prun map]. pose proof (read_preserves_state s o C) as H.
  destruct (pstep s o) as [s1 out] eqn:E. cbn in H. subst s1. rewrite IH. reflexivity.
Qed.

Corollary read_repeatable s ops o : consistent s ->
  snd (pstep (fst (prun s ops)) o) = snd (pstep s o).
Proof. intro C. rewrite reads_invisible by exact C. reflexivity. Qed.

(** the starting states of the harness are consistent *)
Lemma start_consistent c sg : consistent (fst (start cc w key_alg alg_known c sg)).
Proof.
  unfold start, Evidence.step. cbn.
  destruct (encode_cbor w c) as [p|]; [|exact I].
  unfold do_sign. destruct (sg_beh sg); cbn; try exact I.
  destruct (decode_cbor cc w p); cbn; reflexivity.
Qed.

(** in Evidence histories, Verify calls can be erased: the final state and every
    other output are unchanged *)
Fixpoint erase_verify (ops : list eop) : list eop :=
  match ops with
  | [] => []
  | EVerify _ :: r => erase_verify r
  | o :: r => o :: erase_verify r
  end.

Fixpoint erase_verify_out (ops : list eop) (outs : list eout) : list eout :=
  match ops, outs with
  | EVerify _ :: r, _ :: os => erase_verify_out r os
  | _ :: r, o :: os => o :: erase_verify_out r os
  | _, _ => []
  end.

Notation run := (Evidence.run cc w key_alg alg_known).

Theorem verify_erasable : forall ops e,
  run e (erase_verify ops) = (fst (run e ops), erase_verify_out ops (snd (run e ops))).
Proof.
  induction ops as [|o r IH]; intro e; [reflexivity|].
  destruct o; cbn [erase_verify Evidence.run];
    try (destruct (step e _) as [e1 out]; rewrite IH; destruct (run e1 r) as [e2 outs]; reflexivity).
  (* EVerify *)
  rewrite IH. cbn [Evidence.step]. destruct (run e r) as [e2 outs]. reflexivity.
Qed.

End P.
