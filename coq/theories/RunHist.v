(** Runner for setter histories:
      HIST new1|new2|new1np <op>*          (constructor, then operations)
      HISTC <13 claims tokens> <op>*       (arbitrary initial claims-set)
    ops:  sc:<z> sl:<n> si:<hex> sb:<hex> sr:<hex> sn:<hex> su:<hex> sv:<hex>
          ss:<_|[]|[c;c]>                   SetSoftwareComponents
          mc:<idx>:<f1,f2,f3,f4,f5>         overwrite component idx in place (retained pointer)
    After every op the observation is the op's error token followed by the
    validation verdict and the ten getter results. *)
From Coq Require Import String.
From PSA Require Import Base Lines Lifecycle Regex Claims Obs CaseClaims.
Open Scope N_scope.

Definition split_colon (t : bytes) : list bytes := split_on x3a t [].

Fixpoint set_nth {A} (n : nat) (l : list A) (a : A) : list A :=
  match n, l with
  | O, _ :: r => a :: r
  | S k, x :: r => x :: set_nth k r a
  | _, [] => []
  end.

Definition parse_sop (op : bytes) : option sop :=
  match split_colon op with
  | [k; v] =>
      if bytes_eqb k (s2b "sc") then option_map OClient (parse_Z v)
      else if bytes_eqb k (s2b "sl") then option_map OLc (parse_N v)
      else if bytes_eqb k (s2b "si") then option_map OImpl (parse_hex v)
      else if bytes_eqb k (s2b "sb") then option_map OBoot (parse_hex v)
      else if bytes_eqb k (s2b "sr") then option_map OCert (parse_hex v)
      else if bytes_eqb k (s2b "sn") then option_map ONonce (parse_hex v)
      else if bytes_eqb k (s2b "su") then option_map OInst (parse_hex v)
      else if bytes_eqb k (s2b "sv") then option_map OVsi (parse_hex v)
      else if bytes_eqb k (s2b "ss") then
        match parse_swcs v with
        | Some None => Some (OSwc None)
        | Some (Some l) => match all_some l with Some l' => Some (OSwc (Some l')) | None => None end
        | None => None
        end
      else None
  | _ => None
  end.

Definition apply_op (cfg : ccfg) (c : claims) (op : bytes) : option (claims * res unit) :=
  match parse_sop op with
  | Some o => Some (apply_sop cfg c o)
  | None =>
      match split_colon op with
      | [k; i; v] =>
          if bytes_eqb k (s2b "mc") then
            match parse_N i, parse_swc v, c_swc c with
            | Some idx, Some (Some s), Some l =>
                Some (upd_swc c (Some (set_nth (N.to_nat idx) l (Some s))) (c_nosw c), Ok tt)
            | _, _, _ => None
            end
          else None
      | _ => None
      end
  end.

Fixpoint run_ops (cfg : ccfg) (c : claims) (ops : list bytes) : option (list bytes) :=
  match ops with
  | [] => Some []
  | op :: r =>
      match apply_op cfg c op with
      | Some (c', e) =>
          match run_ops cfg c' r with
          | Some out => Some (tok_res_unit e :: obs_getters cfg c' ++ out)
          | None => None
          end
      | None => None
      end
  end.

Definition run_hist (cfg : ccfg) (args : list bytes) : bytes :=
  match args with
  | init :: ops =>
      let start :=
        if bytes_eqb init (s2b "new1") then Some (new_p1 cfg true)
        else if bytes_eqb init (s2b "new1np") then Some (new_p1 cfg false)
        else if bytes_eqb init (s2b "new2") then Some (new_p2 cfg)
        else None in
      match start with
      | Some c => match run_ops cfg c ops with Some out => join_sp (obs_getters cfg c ++ out) | None => bad_input end
      | None => bad_input
      end
  | [] => bad_input
  end.

Definition run_histc (cfg : ccfg) (args : list bytes) : bytes :=
  match parse_claims args with
  | Some (c, ops) => match run_ops cfg c ops with Some out => join_sp (obs_getters cfg c ++ out) | None => bad_input end
  | None => bad_input
  end.

(** FilterError on an error tree in prefix notation:
      n            nil
      So Sm Sn Sp Ss   the five sentinels;  Do Dm Dn  the derived "... claim" variables
      O            an opaque error
      V t          fmt.Errorf("%v", t)   (does not wrap)
      W<k> t1..tk  fmt.Errorf with k %w verbs;  J<k> errors.Join;  U t  custom Unwrap() error;  M<k> custom Unwrap() []error *)
Definition sent_of (c : byte) : option sentinel :=
  match c with
  | x6f => Some MissingOptional | x6d => Some MissingMandatory | x6e => Some NotInProfile
  | x70 => Some WrongProfile | x73 => Some WrongSyntax | _ => None
  end.

Fixpoint parse_tree (fuel : nat) (ts : list bytes) : option (goerr * list bytes) :=
  match fuel with
  | O => None
  | S f =>
      match ts with
      | [] => None
      | t :: r =>
          let many (k : N) :=
            (fix go (n : nat) (ts : list bytes) : option (list goerr * list bytes) :=
               match n with
               | O => Some ([], ts)
               | S m => match parse_tree f ts with
                        | Some (e, ts') => match go m ts' with Some (es, ts'') => Some (e :: es, ts'') | None => None end
                        | None => None
                        end
               end) (N.to_nat k) r in
          match t with
          | [x53; c] => match sent_of c with Some s => Some (ESent s, r) | None => None end
          | [x44; c] => match sent_of c with Some s => Some (wrap1 (ESent s), r) | None => None end
          | [x4f] => Some (EOpaque, r)
          | [x56] => match parse_tree f r with Some (_, r') => Some (EOpaque, r') | None => None end
          | [x55] => match parse_tree f r with Some (e, r') => Some (EWrap [e], r') | None => None end
          | x57 :: k | x4a :: k | x4d :: k =>
              match parse_N k with
              | Some n => match many n with Some (es, r') => Some (EWrap es, r') | None => None end
              | None => None
              end
          | _ => None
          end
      end
  end.

Definition run_filt (args : list bytes) : bytes :=
  match args with
  | [[x6e]] => s2b "nil"
  | _ => match parse_tree 64 args with
         | Some (e, []) =>
             match filter_error (Some e) with
             | None => s2b "nil " ++ err_bits e
             | Some _ => s2b "same " ++ err_bits e
             end
         | _ => bad_input
         end
  end.
