(** C12: base64 round trip and the shape of the JSON form. *)
From Coq Require Import Arith ZArith String Lia ZifyN ZifyBool ZifyNat.
From PSA Require Import Base Lines Lifecycle Regex Claims ClaimsSpec Utf8 Tags Wire Codec CborProofs Json Registry JsonCodec.
From PSA.Spec Require Import SpecTables SpecTags.
Open Scope N_scope.
Ltac Zify.zify_post_hook ::= Z.div_mod_to_equations.

Definition sixes : list N := map N.of_nat (seq 0 64).

Lemma in_sixes n : n < 64 -> In n sixes.
Proof.
  intro H. unfold sixes. rewrite <- (N2Nat.id n). apply in_map. apply in_seq. lia.
Qed.

Lemma b64_val_char n : n < 64 -> b64_val (b64_char n) = Some n /\ byte_eqb (b64_char n) PAD = false.
Proof.
  intro H.
  assert (forallb (fun n => match b64_val (b64_char n) with Some m => m =? n | None => false end && negb (byte_eqb (b64_char n) PAD)) sixes = true) as A
    by (vm_compute; reflexivity).
  rewrite forallb_forall in A. specialize (A n (in_sixes n H)). apply andb_true_iff in A. destruct A as [A B].
  destruct (b64_val (b64_char n)) as [m|]; [|discriminate]. apply N.eqb_eq in A. subst m.
  split; [reflexivity|]. destruct (byte_eqb (b64_char n) PAD); [discriminate|reflexivity].
Qed.

Lemma byte_bound (b : byte) : Byte.to_N b < 256.
Proof. pose proof (Byte.to_N_bounded b). lia. Qed.

Lemma byte_of_to (b : byte) : byte_of_N (Byte.to_N b) = b.
Proof. unfold byte_of_N. rewrite Byte.of_to_N. reflexivity. Qed.

Theorem b64_roundtrip : forall (fuel : nat) (b : bytes), (length b <= 3 * fuel)%nat -> b64_decode fuel (b64_encode b) = Some b.
Proof.
  induction fuel as [|f IH]; intros b H.
  - destruct b; [reflexivity|cbn in H; lia].
  - destruct b as [|a [|c [|d r]]].
    + reflexivity.
    + (* one byte *)
      cbn [b64_encode]. pose proof (byte_bound a) as Ba. set (n := Byte.to_N a) in *.
      cbn [b64_decode].
      destruct (b64_val_char (n / 4)) as [V0 _]; [lia|]. destruct (b64_val_char (n mod 4 * 16)) as [V1 _]; [lia|].
      rewrite V0, V1. cbn [byte_eqb PAD]. change (byte_eqb PAD PAD) with true. cbv iota.
      assert (n mod 4 * 16 mod 16 =? 0 = true) as -> by (apply N.eqb_eq; lia).
      assert (n / 4 * 4 + n mod 4 * 16 / 16 = n) as -> by lia. subst n. rewrite byte_of_to. reflexivity.
    + (* two bytes *)
      cbn [b64_encode]. pose proof (byte_bound a) as Ba. pose proof (byte_bound c) as Bc.
      set (n := Byte.to_N a * 256 + Byte.to_N c) in *.
      cbn [b64_decode].
      destruct (b64_val_char (n / 1024)) as [V0 _]; [lia|]. destruct (b64_val_char (n / 16 mod 64)) as [V1 _]; [lia|].
      destruct (b64_val_char (n mod 16 * 4)) as [V2 P2]; [lia|].
      rewrite V0, V1, P2, V2. change (byte_eqb PAD PAD) with true. cbv iota.
      assert (n mod 16 * 4 mod 4 =? 0 = true) as -> by (apply N.eqb_eq; lia).
      assert (n / 1024 * 4 + n / 16 mod 64 / 16 = Byte.to_N a) as -> by lia.
      assert (n / 16 mod 64 mod 16 * 16 + n mod 16 * 4 / 4 = Byte.to_N c) as -> by lia.
      rewrite !byte_of_to. reflexivity.
    + (* a full group *)
      cbn [b64_encode]. pose proof (byte_bound a) as Ba. pose proof (byte_bound c) as Bc. pose proof (byte_bound d) as Bd.
      set (n := Byte.to_N a * 65536 + Byte.to_N c * 256 + Byte.to_N d) in *.
      destruct (b64_val_char (n / 262144)) as [V0 _]; [lia|]. destruct (b64_val_char (n / 4096 mod 64)) as [V1 _]; [lia|].
      destruct (b64_val_char (n / 64 mod 64)) as [V2 P2]; [lia|]. destruct (b64_val_char (n mod 64)) as [V3 P3]; [lia|].
      assert (n / 262144 * 4 + n / 4096 mod 64 / 16 = Byte.to_N a) as E0 by lia.
      assert (n / 4096 mod 64 mod 16 * 16 + n / 64 mod 64 / 4 = Byte.to_N c) as E1 by lia.
      assert (n / 64 mod 64 mod 4 * 64 + n mod 64 = Byte.to_N d) as E2 by lia.
      assert (b64_decode f (b64_encode r) = Some r) as R by (apply IH; cbn [length] in H; lia).
      destruct (b64_encode r) as [|x xs] eqn:ER.
      * cbn [b64_decode]. rewrite V0, V1, P2, V2, P3, V3, E0, E1, E2, !byte_of_to.
        assert (r = []) as -> by (destruct r as [|r0 [|r1 [|r2 r3]]]; cbn in ER; try discriminate; reflexivity). reflexivity.
      * cbn [b64_decode]. rewrite V0, V1, V2, V3, R, E0, E1, E2, !byte_of_to. reflexivity.
Qed.

Lemma b64_encode_length : forall (n : nat) (b : bytes), (length b <= n)%nat -> (length b <= 3 * length (b64_encode b))%nat.
Proof.
  induction n as [|n IH]; intros b H.
  - destruct b; [cbn; lia|cbn in H; lia].
  - destruct b as [|a [|c [|d r]]]; cbn [b64_encode length] in *; try lia.
    assert (length r <= n)%nat as Hr by lia. specialize (IH r Hr). lia.
Qed.

Corollary b64_dec_enc b : b64_dec (b64_encode b) = Some b.
Proof. unfold b64_dec. apply b64_roundtrip. apply (b64_encode_length (length b)). lia. Qed.

(** * shape of the JSON form *)

(** every member is the documented name of a field together with that claim's value, or null for
    an absent claim whose JSON tag is not omitempty; byte strings are base64 strings *)
Lemma jfields_members {A} (value : field_tag -> A -> option (option json)) (a : A) : forall ts m,
  jfields_gen value ts a = Some m ->
  forall kv, In kv m -> exists f, In f ts /\ f_json_skip f = false /\ fst kv = s2b (f_json f) /\
                                  (value f a = Some (Some (snd kv)) \/
                                   (value f a = Some None /\ snd kv = JNull /\ f_json_omitempty f = false)).
Proof.
  induction ts as [|f r IH]; intros m E kv Hin.
  - cbn in E. injection E as <-. destruct Hin.
  - cbn [jfields_gen] in E. destruct (f_json_skip f) eqn:Sk.
    + destruct (IH m E kv Hin) as (g & G & X). exists g. split; [right; exact G|exact X].
    + destruct (value f a) as [[v|]|] eqn:V; [| |discriminate];
        (destruct (jfields_gen value r a) as [rest|] eqn:R; [|discriminate]).
      * injection E as <-. destruct Hin as [<-|Hin].
        -- exists f. cbn. repeat split; auto.
        -- destruct (IH rest eq_refl kv Hin) as (g & G & X). exists g. split; [right; exact G|exact X].
      * destruct (f_json_omitempty f) eqn:Om.
        -- injection E as <-. destruct (IH rest eq_refl kv Hin) as (g & G & X). exists g. split; [right; exact G|exact X].
        -- injection E as <-. destruct Hin as [<-|Hin].
           ++ exists f. cbn. repeat split; auto.
           ++ destruct (IH rest eq_refl kv Hin) as (g & G & X). exists g. split; [right; exact G|exact X].
Qed.

(** members appear in declaration order: their names are a sub-sequence of the table's names *)
Inductive subseq {A} : list A -> list A -> Prop :=
| sub_nil l : subseq [] l
| sub_take x l1 l2 : subseq l1 l2 -> subseq (x :: l1) (x :: l2)
| sub_skip x l1 l2 : subseq l1 l2 -> subseq l1 (x :: l2).

Lemma jfields_order {A} (value : field_tag -> A -> option (option json)) (a : A) : forall ts m,
  jfields_gen value ts a = Some m ->
  subseq (map fst m) (map (fun f => s2b (f_json f)) (filter (fun f => negb (f_json_skip f)) ts)).
Proof.
  induction ts as [|f r IH]; intros m E.
  - cbn in E. injection E as <-. constructor.
  - cbn [jfields_gen] in E. cbn [filter]. destruct (f_json_skip f); cbn [negb].
    + apply IH, E.
    + destruct (value f a) as [[v|]|]; [| |discriminate];
        (destruct (jfields_gen value r a) as [rest|]; [|discriminate]); specialize (IH rest eq_refl).
      * injection E as <-. cbn. constructor. exact IH.
      * destruct (f_json_omitempty f); injection E as <-; cbn; [apply sub_skip|apply sub_take]; exact IH.
Qed.

(** the documented member names *)
Example json_member_names :
  map f_json (filter (fun f => negb (f_json_skip f)) spec_p1_fields) =
    ["psa-profile"; "psa-client-id"; "psa-security-lifecycle"; "psa-implementation-id"; "psa-boot-seed"; "psa-hwver";
     "psa-software-components"; "psa-no-software-measurements"; "psa-nonce"; "psa-instance-id"; "psa-verification-service-indicator"]%string /\
  map f_json (filter (fun f => negb (f_json_skip f)) spec_p2_fields) =
    ["eat-profile"; "psa-client-id"; "psa-security-lifecycle"; "psa-implementation-id"; "psa-boot-seed"; "psa-certification-reference";
     "psa-software-components"; "psa-nonce"; "psa-instance-id"; "psa-verification-service-indicator"]%string /\
  map f_json spec_swc_fields = ["measurement-type"; "measurement-value"; "version"; "signer-id"; "measurement-description"]%string.
Proof. vm_compute. repeat split. Qed.

(** byte-string claims are base64 strings that decode back to the bytes *)
Theorem bytes_claims_are_base64 (o : option bytes) (j : json) :
  j_optbytes TBytes o = Some j -> exists b, o = Some b /\ j = JStr (b64_encode b) /\ jd_bytes j = Some (Some b).
Proof.
  destruct o as [b|]; cbn; [|discriminate]. intro H. injection H as <-. exists b. repeat split.
  cbn. rewrite b64_dec_enc. reflexivity.
Qed.

(** witnesses: a valid claims-set of each profile (one without explicit profile claim) round-trips through JSON
    and through CBOR -> claims -> JSON -> claims -> CBOR *)
Definition rep (n : nat) (b : byte) : bytes := repeat b n.
Definition W0 : wcfg := {| w_p1 := spec_p1_fields; w_p2 := spec_p2_fields; w_swc := spec_swc_fields |}.
Definition jw1 : claims := {|
  c_kind := K1; c_profile := None; c_client := Some (-1)%Z; c_lc := Some 0x3000; c_impl := Some (rep 32 x01);
  c_boot := Some (rep 32 x02); c_cert := Some (s2b "1234567890123"); c_swc := Some []; c_nosw := Some 1;
  c_nonce := Some [rep 48 x03]; c_inst := Some (x01 :: rep 32 x04); c_vsi := Some (s2b "v""<>&"); c_canon := prof1 spec_ccfg |}.
Definition jw2 : claims := {|
  c_kind := K2; c_profile := Some (PStr (prof2 spec_ccfg)); c_client := Some 7%Z; c_lc := Some 0x60ff; c_impl := Some (rep 32 x01);
  c_boot := Some (rep 9 x02); c_cert := None;
  c_swc := Some [Some {| sw_mtype := Some (s2b "BL"); sw_mval := Some (rep 32 x05); sw_version := None; sw_signer := Some (rep 64 x06); sw_mdesc := None |}];
  c_nosw := None; c_nonce := Some [rep 32 x03]; c_inst := Some (x01 :: rep 32 x04); c_vsi := None; c_canon := prof2 spec_ccfg |}.

Example json_roundtrip_witnesses :
  (exists j c', encode_json W0 jw1 = Some j /\ decode_json spec_ccfg W0 j = DOk c' /\
                validate spec_ccfg c' = Ok tt /\ encode_cbor W0 c' = encode_cbor W0 jw1) /\
  (exists j, encode_json W0 jw2 = Some j /\ decode_json spec_ccfg W0 j = DOk jw2).
Proof.
  split.
  - eexists. eexists. split; [vm_compute; reflexivity|]. split; [vm_compute; reflexivity|]. split; vm_compute; reflexivity.
  - eexists. split; vm_compute; reflexivity.
Qed.
