(** C12: the JSON encoder is total on valid claims-sets, and crossing formats reproduces the CBOR bytes. *)
From Coq Require Import Arith ZArith String Lia ZifyN ZifyBool ZifyNat.
From PSA Require Import Base Lines Lifecycle Regex Claims ClaimsSpec ClaimsProofs Utf8 Tags Wire Codec CborProofs SetterProofs CodecProofs FormatProofs Json Registry JsonCodec JsonProofs JsonRoundtrip.
From PSA.Spec Require Import SpecTables SpecTags.
Open Scope N_scope.

(** * the JSON encoder never fails on a valid, wire-representable claims-set *)
Lemma jfields_none {A} (value : field_tag -> A -> option (option json)) (a : A) : forall ts,
  jfields_gen value ts a = None -> exists f, In f ts /\ f_json_skip f = false /\ value f a = None.
Proof.
  induction ts as [|f r IH]; intro E; [discriminate|].
  cbn [jfields_gen] in E. destruct (f_json_skip f) eqn:Sk.
  - destruct (IH E) as (g & G & X). exists g. split; [right; exact G|exact X].
  - destruct (value f a) as [[v|]|] eqn:V.
    + destruct (jfields_gen value r a) eqn:R; [discriminate|].
      destruct (IH eq_refl) as (g & G & X). exists g. split; [right; exact G|exact X].
    + destruct (jfields_gen value r a) eqn:R; [destruct (f_json_omitempty f); discriminate|].
      destruct (IH eq_refl) as (g & G & X). exists g. split; [right; exact G|exact X].
    + exists f. repeat split; auto. left. reflexivity.
Qed.

Theorem valid_encodes_json c : claims_wire_ok c -> validate S c = Ok tt -> exists j, encode_json W c = Some j.
Proof.
  intros Ok V. unfold encode_json, to_json. change (w_swc W) with SW.
  destruct (jfields_gen (j_claim_value SW) (tags_of W (c_kind c)) c) as [m|] eqn:E; [eexists; reflexivity|exfalso].
  apply validate_iff_conformant in V.
  destruct (jfields_none (j_claim_value SW) c _ E) as (f & Hf & Sk & N).
  pose proof (conformant_each c CNonce V) as Hno. cbn [conf_of] in Hno.
  destruct c as [k p cl lc im bo ce sw ns no ins vs can].
  destruct Ok as (Ca & Pr & _). cbn in Ca, Pr.
  unfold conf_nonce in Hno. cbn in Hno.
  assert (forall l, j_swcs SW l <> None) as ES.
  { intros l. destruct (jd_j_swcs l) as (cs & E' & _). rewrite E'. congruence. }
  destruct k; cbn [tags_of W w_p1 w_p2 c_kind] in Hf; in_cases Hf; try discriminate Sk;
    unfold j_claim_value in N; cbn in N; try discriminate N.
  - destruct p as [[s| |]|]; try contradiction; discriminate.
  - destruct sw as [[|o l]|]; try discriminate. specialize (ES (o :: l)).
    destruct (j_swcs SW (o :: l)); [discriminate|congruence].
  - destruct no as [[|b [|b' l]]|]; try discriminate Hno; discriminate.
  - destruct p as [[s| |]|]; try contradiction; discriminate.
  - destruct sw as [l|]; try discriminate. specialize (ES l).
    destruct (j_swcs SW l); [discriminate|congruence].
  - destruct no as [[|b [|b' l]]|]; try discriminate Hno.
    assert (nonce_len_ok b = true) as X.
    { unfold nonce_len_ok. unfold hash_size in Hno.
      repeat (apply orb_true_iff in Hno; destruct Hno as [Hno|Hno]); apply N.eqb_eq in Hno; rewrite Hno; reflexivity. }
    rewrite X in N. discriminate.
Qed.

(** * CBOR -> claims -> JSON -> claims -> CBOR reproduces the bytes *)
Lemma wire_ok_view c c' : view c' = view c -> claims_wire_ok c -> claims_wire_ok c'.
Proof.
  intros V Ok.
  destruct c as [k p cl lc im bo ce sw ns no ins vs can], c' as [k' p' cl' lc' im' bo' ce' sw' ns' no' ins' vs' can'].
  unfold view in V. cbn in V. injection V as -> -> -> -> -> -> -> Hsw -> -> -> -> ->.
  unfold claims_wire_ok in *. cbn in *.
  destruct Ok as (A1 & A2 & A3 & A4 & A5 & A6 & A7 & A8 & A9).
  repeat (split; [assumption|]). split; [|exact A9].
  destruct sw' as [[|o l]|]; [split; [constructor|cbn; lia] | | exact I].
  destruct sw as [[|o2 l2]|]; try discriminate. injection Hsw as -> ->. exact A8.
Qed.

Lemma profile_ok_view c c' : view c' = view c -> profile_claim_ok c -> profile_claim_ok c'.
Proof.
  intros V P. unfold profile_claim_ok in *.
  assert (c_kind c' = c_kind c) as -> by (apply (f_equal c_kind) in V; destruct c, c'; exact V).
  assert (c_profile c' = c_profile c) as -> by (apply (f_equal c_profile) in V; destruct c, c'; exact V).
  exact P.
Qed.

Theorem cbor_json_cbor c b c2 j c3 :
  claims_wire_ok c -> profile_claim_ok c -> (c_kind c = K1 \/ comps c <> []) ->
  encode_cbor W c = Some b -> decode_cbor S W b = DOk c2 ->
  encode_json W c2 = Some j -> decode_json S W j = DOk c3 ->
  encode_cbor W c3 = Some b.
Proof.
  intros Ok Pc Nz E1 D1 E2 D2.
  destruct (encode_decode_roundtrip c b Ok E1) as (c2' & D1' & V2). rewrite D1 in D1'. injection D1' as <-.
  destruct (json_encode_decode_roundtrip c2 j (wire_ok_view c c2 V2 Ok) (profile_ok_view c c2 V2 Pc) E2) as (c3' & D2' & V3).
  rewrite D2 in D2'. injection D2' as <-.
  rewrite <- E1. apply encode_depends_on_view; [|exact Nz]. rewrite V3. exact V2.
Qed.

(** * the property as stated: every valid claims-set of a built-in profile with UTF-8 texts *)
Lemma valid_profile_claim_ok c : conformant c = true -> builtin c -> profile_claim_ok c.
Proof.
  intros Cf [Bc _]. pose proof (conformant_each c CProfile Cf) as Hp. cbn [conf_of] in Hp.
  unfold conf_profile in Hp. unfold profile_claim_ok.
  destruct (c_kind c), (c_profile c) as [[s| |]|]; try discriminate; try exact I;
    rewrite Bc in Hp; apply bytes_eqb_eq in Hp; exact Hp.
Qed.

Theorem json_roundtrip_valid c : validate S c = Ok tt -> builtin c -> texts_utf8 c ->
  exists j c', encode_json W c = Some j /\ decode_json S W j = DOk c' /\ view c' = view c /\ validate S c' = Ok tt.
Proof.
  intros V B T. pose proof V as Cf. apply validate_iff_conformant in Cf.
  pose proof (valid_is_wire_ok c Cf B T) as Ok.
  destruct (valid_encodes_json c Ok V) as [j E].
  destruct (json_encode_decode_roundtrip c j Ok (valid_profile_claim_ok c Cf B) E) as (c' & D & Vw).
  exists j, c'. repeat split; try assumption. rewrite <- (validate_view c'), Vw, validate_view. exact V.
Qed.

(** * the JSON gates (C08) and what the JSON dispatcher hands back (C07) *)
Theorem json_gates c j :
  (validate S c <> Ok tt -> validate_and_encode_json S W c = None) /\
  (validate S c = Ok tt -> validate_and_encode_json S W c = encode_json W c) /\
  (forall c', decode_and_validate_json S W j = DOk c' -> decode_json S W j = DOk c' /\ validate S c' = Ok tt) /\
  (forall c', decode_json S W j = DOk c' -> validate S c' = Ok tt -> decode_and_validate_json S W j = DOk c') /\
  (forall c', decode_json S W j = DOk c' -> validate S c' <> Ok tt -> decode_and_validate_json S W j = DErr).
Proof.
  unfold validate_and_encode_json, decode_and_validate_json. split; [|split; [|split; [|split]]].
  - intro V. destruct (validate S c) as [[]| |]; [congruence| |]; reflexivity.
  - intro V. rewrite V. reflexivity.
  - intros c' H. destruct (decode_json S W j) as [c0| |]; try discriminate. destruct (validate S c0) as [[]| |] eqn:V; try discriminate. injection H as <-. split; [reflexivity|exact V].
  - intros c' D V. rewrite D, V. reflexivity.
  - intros c' D V. rewrite D. destruct (validate S c') as [[]| |]; [congruence| |]; reflexivity.
Qed.

(** whatever passes the JSON encoding gate is accepted by the JSON decoding gate *)
Theorem json_emitted_is_accepted c j : builtin c -> texts_utf8 c ->
  validate_and_encode_json S W c = Some j -> exists c', decode_and_validate_json S W j = DOk c' /\ view c' = view c.
Proof.
  intros B T E. unfold validate_and_encode_json in E. destruct (validate S c) as [[]| |] eqn:V; try discriminate.
  destruct (json_roundtrip_valid c V B T) as (j' & c' & E' & D & Vw & V').
  rewrite E in E'. injection E' as <-. exists c'. split; [|exact Vw].
  unfold decode_and_validate_json. rewrite D, V'. reflexivity.
Qed.

Lemma jd_field_keeps f v c c' : jd_field SW f v c = Some c' -> c_kind c' = c_kind c /\ c_canon c' = c_canon c.
Proof.
  unfold jd_field.
  destruct (slot_of_name (f_name f)), (kind_of_type (f_type f)); try discriminate;
    try (match goal with |- option_map _ ?d = _ -> _ => destruct d; cbn; intro H; try discriminate; injection H as <-; split; reflexivity end).
  - destruct v; try discriminate; try (intro H; injection H as <-; split; reflexivity);
      match goal with |- option_map _ ?d = _ -> _ => destruct d; cbn; intro H; try discriminate; injection H as <-; split; reflexivity end.
  - destruct v; try discriminate; try (intro H; injection H as <-; split; reflexivity);
      match goal with |- option_map _ ?d = _ -> _ => destruct d; cbn; intro H; try discriminate; injection H as <-; split; reflexivity end.
Qed.

Lemma jd_fields_keeps m : forall ts c c', jd_fields SW ts m c = Some c' -> c_kind c' = c_kind c /\ c_canon c' = c_canon c.
Proof.
  induction ts as [|f r IH]; intros c c' H; cbn [jd_fields] in H.
  - injection H as <-. split; reflexivity.
  - destruct (f_json_skip f); [apply (IH _ _ H)|].
    destruct (jassoc m (s2b (f_json f))) as [v|]; [|apply (IH _ _ H)].
    destruct (jd_field SW f v c) as [c1|] eqn:E; [|discriminate].
    destruct (jd_field_keeps _ _ _ _ E) as [K1' C1]. destruct (IH _ _ H) as [K2' C2]. split; congruence.
Qed.

(** a JSON document accepted by the dispatching decoder was decoded into the claims type of a registered
    built-in profile, and -- once validated -- reports exactly that profile *)
Theorem decode_json_kind j c : decode_json S W j = DOk c ->
  (c_kind c = K1 /\ c_canon c = prof1 S) \/ (c_kind c = K2 /\ c_canon c = prof2 S).
Proof.
  unfold decode_json. destruct j; try discriminate.
  destruct (negb (nodup_keys l)); [discriminate|].
  destruct (dispatch_json (reg0 (prof1 S) (prof2 S)) (members_fn l)) as [e|]; [|discriminate].
  destruct (en_kind e);
    match goal with |- match ?d with _ => _ end = _ -> _ => destruct d as [c1|] eqn:E end; try discriminate;
    intro H; injection H as <-; destruct (jd_fields_keeps _ _ _ _ E) as [Kk Cc]; [left|right]; split; assumption.
Qed.

Theorem json_validated_under_declared j c : decode_json S W j = DOk c -> validate S c = Ok tt ->
  ((c_kind c = K1 /\ c_canon c = prof1 S) \/ (c_kind c = K2 /\ c_canon c = prof2 S)) /\ get_profile c = Ok (c_canon c).
Proof.
  intros D V. split; [exact (decode_json_kind j c D)|].
  destruct (getters_after_validate c V) as (_ & _ & _ & _ & _ & (p & P & ->) & _). exact P.
Qed.
