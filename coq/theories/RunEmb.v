(** Runners for the embedding-aware codec:
      FMAP <n>                 n synthetic keys through Add / ToCBOR / FromCBOR
      FROM <hex>               structFieldsCBOR.FromCBOR
      SER <shape> <values..>   SerializeStructToCBOR
      POP <shape> <hex>        PopulateStructFromCBOR into a blank struct of that shape
    values: "_" nil | i<z> | s<hex> | b<hex>, one per field in declaration order, depth first *)
From Coq Require Import String.
From PSA Require Import Base Lines Cbor Wire Embedded Obs.
Open Scope N_scope.

Fixpoint join_c (sep : byte) (l : list bytes) : bytes :=
  match l with
  | [] => []
  | [a] => a
  | a :: r => a ++ sep :: join_c sep r
  end.

(** synthetic map: keys 0..n-1 (every third one negative), small integer values;
    built from the highest index down so that no unary number is ever inspected *)
Fixpoint synth (fuel : nat) (k : Z) (acc : fmap) : fmap :=
  match fuel with
  | O => acc
  | S f => let k' := (k - 1)%Z in
           synth f k' ((if Z.eqb (k' mod 3) 2 then (- k' - 1)%Z else k', enc (CUint (Z.to_N (k' mod 97)))) :: acc)
  end.

Fixpoint forallb2 {A B} (f : A -> B -> bool) (l1 : list A) (l2 : list B) : bool :=
  match l1, l2 with
  | [], [] => true
  | a :: r1, b :: r2 => f a b && forallb2 f r1 r2
  | _, _ => false
  end.

Definition run_fmap (args : list bytes) : bytes :=
  match args with
  | [tn] =>
      match parse_N tn with
      | Some n =>
          if 200000 <? n then bad_input
          else
            let m := synth (N.to_nat n) (Z.of_N n) [] in
            let b := to_cbor m in
            join_sp [ hex_of (firstn 6 b); dec_of_N (blen b);
                      match from_cbor b with
                      | Some m' => if forallb2 (fun x y => Z.eqb (fst x) (fst y) && bytes_eqb (snd x) (snd y)) m m'
                                   then s2b "rt=ok" else s2b "rt=differs"
                      | None => s2b "rt=err"
                      end ]
      | None => bad_input
      end
  | _ => bad_input
  end.

Definition print_fmap (m : fmap) : bytes :=
  match m with
  | [] => s2b "{}"
  | _ => join_c x2c (map (fun kv => dec_of_Z (fst kv) ++ x3a :: hex_of (snd kv)) m)
  end.

Definition run_from (args : list bytes) : bytes :=
  match args with
  | [h] =>
      match parse_hex h with
      | Some b =>
          let '(r, alloc) := from_cbor_alloc b in
          (match r with Some m => s2b "ok " ++ print_fmap m | None => s2b "err" end)
          ++ s2b " ## alloc=" ++ dec_of_N alloc
      | None => bad_input
      end
  | _ => bad_input
  end.

(** the struct shapes of the harness (harness/emb.go declares the same Go types) *)
Definition parse_fval (t : bytes) : option fval :=
  match t with
  | [x5f] => Some VNone
  | x69 :: r => option_map VInt (parse_Z r)
  | x73 :: r => option_map VStr (parse_hex r)
  | x62 :: r => option_map VBytes (parse_hex r)
  | _ => None
  end.

Definition print_fval (v : fval) : bytes :=
  match v with
  | VNone => s2b "_"
  | VInt z => x69 :: dec_of_Z z
  | VStr s => x73 :: hex_of s
  | VBytes b => x62 :: hex_of b
  end.

(** templates: the values are placeholders filled from the case line *)
Definition inner2 : list item := [IFld 30 true KPInt VNone; IFld 31 false KPStr VNone].
Definition inner1 : list item := [IFld 20 false KPInt VNone; IFld 21 true KPBytes VNone; IEmb inner2].

Definition shape_of (name : bytes) : option (list item) :=
  if bytes_eqb name (s2b "flat") then
    Some [IFld 1 false KPInt VNone; IFld 2 true KPStr VNone; IFld (-3) true KPBytes VNone; ISkip VNone; ISkip VNone]
  else if bytes_eqb name (s2b "emb1") then
    Some [IFld 10 false KPInt VNone; IFld 11 true KPStr VNone; IEmb inner2]
  else if bytes_eqb name (s2b "emb2") then
    Some [IFld 10 false KPInt VNone; IEmb inner1]
  else if bytes_eqb name (s2b "iface") then
    Some [IFld 10 true KPInt VNone; IEmbIface (Some inner2)]
  else if bytes_eqb name (s2b "ifacenil") then
    Some [IFld 10 true KPInt VNone; IEmbIface None]
  else if bytes_eqb name (s2b "dup") then
    Some [IFld 10 false KPInt VNone; IEmb [IFld 10 true KPInt VNone; IFld 12 true KPStr VNone]]
  else if bytes_eqb name (s2b "allopt") then
    Some [IFld 1 true KPInt VNone; IFld 2 true KPStr VNone; IEmb [IFld 3 true KPBytes VNone]]
  else None.

(** fill the values depth-first in declaration order *)
Fixpoint fill (fuel : nat) (its : list item) (vals : list fval) : option (list item * list fval) :=
  match fuel with
  | O => None
  | S f =>
      match its with
      | [] => Some ([], vals)
      | IFld k om kd _ :: r =>
          match vals with
          | v :: vs => match fill f r vs with Some (r', vs') => Some (IFld k om kd v :: r', vs') | None => None end
          | [] => None
          end
      | ISkip _ :: r =>
          match vals with
          | v :: vs => match fill f r vs with Some (r', vs') => Some (ISkip v :: r', vs') | None => None end
          | [] => None
          end
      | IEmb s :: r =>
          match fill f s vals with
          | Some (s', vs) => match fill f r vs with Some (r', vs') => Some (IEmb s' :: r', vs') | None => None end
          | None => None
          end
      | IEmbIface (Some s) :: r =>
          match fill f s vals with
          | Some (s', vs) => match fill f r vs with Some (r', vs') => Some (IEmbIface (Some s') :: r', vs') | None => None end
          | None => None
          end
      | IEmbIface None :: r =>
          match fill f r vals with Some (r', vs') => Some (IEmbIface None :: r', vs') | None => None end
      end
  end.

Fixpoint values_of (fuel : nat) (its : list item) : list fval :=
  match fuel with
  | O => []
  | S f =>
      match its with
      | [] => []
      | IFld _ _ _ v :: r => v :: values_of f r
      | ISkip v :: r => v :: values_of f r
      | IEmb s :: r => values_of f s ++ values_of f r
      | IEmbIface (Some s) :: r => values_of f s ++ values_of f r
      | IEmbIface None :: r => values_of f r
      end
  end.

Fixpoint all_some_f (l : list (option fval)) : option (list fval) :=
  match l with
  | [] => Some []
  | None :: _ => None
  | Some a :: r => match all_some_f r with Some r' => Some (a :: r') | None => None end
  end.

Definition run_ser (args : list bytes) : bytes :=
  match args with
  | name :: vals =>
      match shape_of name, all_some_f (map parse_fval vals) with
      | Some sh, Some vs =>
          match fill 64 sh vs with
          | Some (its, []) => match serialize its with Some b => s2b "ok:" ++ hex_of b | None => s2b "err" end
          | _ => bad_input
          end
      | _, _ => bad_input
      end
  | [] => bad_input
  end.

Definition run_pop (args : list bytes) : bytes :=
  match args with
  | [name; h] =>
      match shape_of name, parse_hex h with
      | Some sh, Some b =>
          (* tagged values (bignums, self-described ...) are outside the model *)
          if match from_cbor b with
             | Some m => existsb (fun kv => match parse_all (snd kv) with Some t => has_tag 40 t | None => false end) m
             | None => false
             end
          then s2b "*"
          else
          match populate b sh with
          | Some its => join_sp (s2b "ok" :: map print_fval (values_of 64 its))
          | None => s2b "err"
          end
      | _, _ => bad_input
      end
  | _ => bad_input
  end.

(** SERJ <shape> <values..>: the JSON serialiser, judged by implementation-level
    checks whose expected outcome is fixed by the property: stable output,
    populate(serialize s) = s, and (flat shape) same map as the plain marshallers *)
Definition run_serj (args : list bytes) : bytes :=
  match args with
  | name :: vals =>
      match shape_of name, all_some_f (map parse_fval vals) with
      | Some sh, Some vs =>
          match fill 64 sh vs with
          | Some (its, []) =>
              match serialize its with
              | Some _ =>
                  let flat := bytes_eqb name (s2b "flat") in
                  join_sp [s2b "ok"; s2b "stable=1"; s2b "rt=1";
                           if flat then s2b "plain=1" else s2b "plain=*";
                           if flat then s2b "cplain=1" else s2b "cplain=*"; s2b "*"]
              | None => s2b "err"
              end
          | _ => bad_input
          end
      | _, _ => bad_input
      end
  | [] => bad_input
  end.
