(** claims_common.go: LifeCycleToState, LifeCycleState.IsValid/String,
    ValidateSecurityLifeCycle -- driven by a table of ranges. *)
From PSA Require Import Base.
Open Scope N_scope.

Record lc_cfg := {
  lc_ranges : list (N * N * N);      (* (min, max, state) in source order *)
  lc_invalid : N;                    (* numeric value of StateInvalid *)
  lc_names : list (N * bytes);       (* String() cases *)
  lc_default_name : bytes            (* String() default *)
}.

Fixpoint lc_lookup (rs : list (N * N * N)) (v dflt : N) : N :=
  match rs with
  | [] => dflt
  | (lo, hi, s) :: r => if (lo <=? v) && (v <=? hi) then s else lc_lookup r v dflt
  end.

Definition lc_to_state (c : lc_cfg) (v : N) : N := lc_lookup (lc_ranges c) v (lc_invalid c).
Definition lc_is_valid (c : lc_cfg) (s : N) : bool := s <? lc_invalid c.

Fixpoint assoc_N {A} (l : list (N * A)) (k : N) (d : A) : A :=
  match l with
  | [] => d
  | (k', a) :: r => if k' =? k then a else assoc_N r k d
  end.

Definition lc_state_name (c : lc_cfg) (s : N) : bytes := assoc_N (lc_names c) s (lc_default_name c).

Definition validate_lc (c : lc_cfg) (v : N) : res unit :=
  if lc_is_valid c (lc_to_state c v) then Ok tt else Err e_syntax.
