(** C04: the verdict and the decoded claims-set are a function of the FIRST value under each known
    integer key (and of whether some key is malformed) -- nothing else in the map matters:
    not the order, not repeated keys, not unknown keys, not text keys. *)
From Coq Require Import Arith ZArith String Lia Permutation.
From PSA Require Import Base Lines Lifecycle Regex Claims Cbor Utf8 Tags Wire Codec DecodePerm.
From PSA.Spec Require Import SpecTables SpecTags.
Open Scope N_scope.

(** the first value under integer key [z] *)
Fixpoint first_val (kvs : list (cbor * cbor)) (z : Z) : option cbor :=
  match kvs with
  | [] => None
  | (k, v) :: r => match classify_key k with
                   | KInt z' => if Z.eqb z' z then Some v else first_val r z
                   | _ => first_val r z
                   end
  end.

Definition has_bad_key (kvs : list (cbor * cbor)) : bool :=
  existsb (fun kv => match classify_key (fst kv) with KBad => true | _ => false end) kvs.

Section Gen.
Context {A X : Type} (tags : list field_tag) (setf : field_tag -> cbor -> A -> option A).
Variable dv : field_tag -> cbor -> option X.
Variable put : X -> A -> A.
Hypothesis setf_fact : forall f v a, setf f v a = option_map (fun x => put x a) (dv f v).
Hypothesis put_comm : forall z1 z2 f1 f2 v1 v2 x1 x2 a, z1 <> z2 ->
  find_field tags z1 = Some f1 -> find_field tags z2 = Some f2 -> dv f1 v1 = Some x1 -> dv f2 v2 = Some x2 ->
  put x1 (put x2 a) = put x2 (put x1 a).

Notation dp := (dec_pairs tags setf).

(** the assignments that take effect: first occurrences of known keys, in wire order *)
Fixpoint sem (kvs : list (cbor * cbor)) (found : list Z) : list (Z * field_tag * cbor) :=
  match kvs with
  | [] => []
  | (k, v) :: r =>
      match classify_key k with
      | KInt z => if zmem z found then sem r found
                  else match find_field tags z with
                       | Some f => (z, f, v) :: sem r (z :: found)
                       | None => sem r found
                       end
      | _ => sem r found
      end
  end.

Definition apply1 (s : A * bool) (e : Z * field_tag * cbor) : A * bool :=
  match setf (snd (fst e)) (snd e) (fst s) with Some a' => (a', snd s) | None => (fst s, true) end.

Definition apply_all (l : list (Z * field_tag * cbor)) (s : A * bool) : A * bool := fold_left apply1 l s.

Lemma apply_all_err l : forall a err, apply_all l (a, true) = (fst (apply_all l (a, err)), true).
Proof.
  induction l as [|e l IH]; intros a err; [reflexivity|]. unfold apply_all in *. cbn [fold_left]. unfold apply1 at 2 4. cbn [fst snd].
  destruct (setf (snd (fst e)) (snd e) a) as [a'|]; [apply IH|]. rewrite (IH a true). reflexivity.
Qed.

Lemma dp_sem : forall kvs found a err,
  dp kvs found a err = (fst (apply_all (sem kvs found) (a, err)), snd (apply_all (sem kvs found) (a, err)) || has_bad_key kvs).
Proof.
  induction kvs as [|[k v] r IH]; intros found a err.
  - cbn. rewrite orb_false_r. reflexivity.
  - cbn [dec_pairs sem has_bad_key existsb fst]. destruct (classify_key k) as [z| |] eqn:C.
    + cbn [orb]. destruct (zmem z found) eqn:Zm; [apply IH|].
      destruct (find_field tags z) as [f|] eqn:FF; [|apply IH].
      unfold apply_all. cbn [fold_left]. unfold apply1 at 2 4. cbn [fst snd]. destruct (setf f v a); apply IH.
    + cbn [orb]. apply IH.
    + cbn [orb]. rewrite (dp_err_true tags setf r found a err), IH. cbn [fst snd]. rewrite orb_true_r. reflexivity.
Qed.

(** entries whose keys differ commute *)
Definition entry_ok (e : Z * field_tag * cbor) : Prop := find_field tags (fst (fst e)) = Some (snd (fst e)).

Lemma apply1_comm e1 e2 s : entry_ok e1 -> entry_ok e2 -> fst (fst e1) <> fst (fst e2) ->
  apply1 (apply1 s e1) e2 = apply1 (apply1 s e2) e1.
Proof.
  destruct e1 as [[z1 f1] v1], e2 as [[z2 f2] v2], s as [a err]. unfold entry_ok, apply1. cbn [fst snd]. intros F1 F2 Ne.
  rewrite !setf_fact. destruct (dv f1 v1) as [x1|] eqn:D1, (dv f2 v2) as [x2|] eqn:D2; cbn [option_map fst snd];
    rewrite ?setf_fact, ?D1, ?D2; cbn [option_map fst snd]; try reflexivity.
  rewrite (put_comm z1 z2 f1 f2 v1 v2 x1 x2 a Ne F1 F2 D1 D2). reflexivity.
Qed.

Lemma apply_all_perm l l' : Permutation l l' -> Forall entry_ok l -> NoDup (map (fun e => fst (fst e)) l) ->
  forall s, apply_all l s = apply_all l' s.
Proof.
  intro P. induction P as [|e l l' P IH|e1 e2 l|l l' l'' P1 IH1 P2 IH2]; intros Ok ND s.
  - reflexivity.
  - inversion Ok; inversion ND; subst. unfold apply_all in *. cbn [fold_left]. apply IH; assumption.
  - inversion Ok as [|? ? O1 Ok']; inversion Ok' as [|? ? O2 _]; subst. cbn [map] in ND. inversion ND as [|? ? Nin _]. subst.
    unfold apply_all. cbn [fold_left]. rewrite (apply1_comm e2 e1 s O1 O2); [reflexivity|].
    intro Xe. apply Nin. left. symmetry. exact Xe.
  - rewrite (IH1 Ok ND). apply IH2.
    + eapply Permutation_Forall; [exact P1|exact Ok].
    + eapply Permutation_NoDup; [apply Permutation_map; exact P1|exact ND].
Qed.

Lemma zmem_cons z z0 found : zmem z (z0 :: found) = Z.eqb z z0 || zmem z found.
Proof. reflexivity. Qed.

(** what is in the list of effective assignments *)
Lemma sem_in : forall kvs found z f v,
  In (z, f, v) (sem kvs found) <-> (zmem z found = false /\ find_field tags z = Some f /\ first_val kvs z = Some v).
Proof.
  induction kvs as [|[k v0] r IH]; intros found z f v.
  - cbn. split; [intros []|intros (_ & _ & H); discriminate].
  - cbn [sem first_val]. destruct (classify_key k) as [z0| |]; try apply IH.
    destruct (zmem z0 found) eqn:Zm.
    + rewrite IH. destruct (Z.eqb_spec z0 z) as [->|Ne]; [|reflexivity].
      split; intros (Hz & _); congruence.
    + destruct (find_field tags z0) as [f0|] eqn:FF.
      * cbn [In]. rewrite IH, zmem_cons. destruct (Z.eqb_spec z0 z) as [->|Ne].
        -- rewrite Z.eqb_refl. cbn [orb]. split.
           ++ intros [E|(Hz & _)]; [injection E as <- <-; auto|discriminate].
           ++ intros (_ & Hf & Hv). left. rewrite FF in Hf. injection Hf as <-. injection Hv as <-. reflexivity.
        -- destruct (Z.eqb_spec z z0) as [->|_]; [contradiction|]. cbn [orb]. split.
           ++ intros [E|H]; [injection E as E1 _ _; congruence|exact H].
           ++ intro H. right. exact H.
      * rewrite IH. destruct (Z.eqb_spec z0 z) as [->|Ne]; [|reflexivity].
        split; intros (_ & Hf & _); congruence.
Qed.

Lemma sem_nodup : forall kvs found, NoDup (map (fun e => fst (fst e)) (sem kvs found)).
Proof.
  induction kvs as [|[k v0] r IH]; intro found; [constructor|].
  cbn [sem]. destruct (classify_key k) as [z0| |]; try apply IH.
  destruct (zmem z0 found); [apply IH|]. destruct (find_field tags z0) as [f0|]; [|apply IH].
  cbn [map fst]. constructor; [|apply IH].
  intro Xh. apply in_map_iff in Xh. destruct Xh as ([[z f] v] & E & Hin). cbn [fst] in E. subst z.
  apply sem_in in Hin. destruct Hin as (Hz & _). rewrite zmem_cons, Z.eqb_refl in Hz. discriminate.
Qed.

Lemma sem_entries_ok kvs found : Forall entry_ok (sem kvs found).
Proof. apply Forall_forall. intros [[z f] v] Hin. apply sem_in in Hin. exact (proj1 (proj2 Hin)). Qed.

(** the decoder is a function of the first value under each known key and of "some key is malformed" *)
Theorem dec_pairs_extensional kvs1 kvs2 a :
  (forall z f, find_field tags z = Some f -> first_val kvs1 z = first_val kvs2 z) ->
  has_bad_key kvs1 = has_bad_key kvs2 ->
  dp kvs1 [] a false = dp kvs2 [] a false.
Proof.
  intros Hf Hb. rewrite (dp_sem kvs1), (dp_sem kvs2), Hb.
  rewrite (apply_all_perm (sem kvs1 []) (sem kvs2 [])); [reflexivity| |apply sem_entries_ok|apply sem_nodup].
  apply NoDup_Permutation.
  - eapply NoDup_map_inv. apply sem_nodup.
  - eapply NoDup_map_inv. apply sem_nodup.
  - intros [[z f] v]. rewrite !sem_in. split; intros (Hz & Hff & Hv); (split; [exact Hz|split; [exact Hff|]]).
    + rewrite <- (Hf z f Hff). exact Hv.
    + rewrite (Hf z f Hff). exact Hv.
Qed.
End Gen.

(** * instances *)

(** the map lies inside the modelled space for a table (no tagged values under known keys, no text key spelling a field, ...) *)
Definition modelled (tags swtags : list field_tag) (kvs : list (cbor * cbor)) : Prop :=
  unmodelled_pairs tags kvs = false /\
  existsb (fun kv => match classify_key (fst kv), snd kv with
                     | KInt z, CArray l =>
                         match find_field tags z with
                         | Some f => match kind_of_type (f_type f) with
                                     | TSwcs => existsb (fun e => match e with CMap m => unmodelled_pairs swtags m | _ => false end) l
                                     | _ => false
                                     end
                         | None => false
                         end
                     | _, _ => false
                     end) kvs = false.

Theorem decode_into_extensional tags swtags kvs1 kvs2 c0 : slots_distinct tags ->
  modelled tags swtags kvs1 -> modelled tags swtags kvs2 ->
  (forall z f, find_field tags z = Some f -> first_val kvs1 z = first_val kvs2 z) -> has_bad_key kvs1 = has_bad_key kvs2 ->
  decode_into tags swtags (CMap kvs1) c0 = decode_into tags swtags (CMap kvs2) c0.
Proof.
  intros SD [U1 V1] [U2 V2] Hf Hb. unfold decode_into. rewrite U1, U2, V1, V2.
  rewrite (dec_pairs_extensional tags (set_claim_field swtags) (dv_claim swtags) put_cval (set_claim_fact swtags)) with (kvs2 := kvs2);
    [reflexivity| |exact Hf|exact Hb].
  intros z1 z2 f1 f2 v1 v2 x1 x2 a Ne F1 F2 D1 D2. apply put_cval_comm.
  rewrite (dv_claim_slot _ _ _ _ D1), (dv_claim_slot _ _ _ _ D2). apply (SD z1 z2 f1 f2 Ne F1 F2).
Qed.

Lemma selector_extensional kvs1 kvs2 :
  unmodelled_pairs selector_tags kvs1 = false -> unmodelled_pairs selector_tags kvs2 = false ->
  (forall z f, find_field selector_tags z = Some f -> first_val kvs1 z = first_val kvs2 z) -> has_bad_key kvs1 = has_bad_key kvs2 ->
  decode_selector (CMap kvs1) = decode_selector (CMap kvs2).
Proof.
  intros U1 U2 Hf Hb. unfold decode_selector. rewrite U1, U2.
  rewrite (dec_pairs_extensional selector_tags (fun _ v s => if is_nil v then Some s else dec_text v)
             (fun _ v => if is_nil v then Some None else option_map Some (dec_text v))
             (fun x s => match x with Some t => t | None => s end)) with (kvs2 := kvs2); [reflexivity| | |exact Hf|exact Hb].
  - intros f v a. destruct (is_nil v); [reflexivity|]. destruct (dec_text v); reflexivity.
  - intros z1 z2 f1 f2 v1 v2 x1 x2 a Ne F1 F2 _ _. exfalso. apply Ne.
    apply find_field_some in F1, F2. destruct F1 as [I1 <-], F2 as [I2 <-].
    unfold selector_tags in I1, I2. destruct I1 as [<-|[]], I2 as [<-|[]]. reflexivity.
Qed.

(** the integer keys some table knows: 265 and the claim keys of the two profiles *)
Definition known_key (z : Z) : Prop :=
  find_field selector_tags z <> None \/ find_field spec_p1_fields z <> None \/ find_field spec_p2_fields z <> None.

(** DecodeClaimsFromCBOR: two tokens (inside the modelled space) whose claims maps agree on the first value
    under every KNOWN integer key, and on whether some key is malformed, get the same verdict and the same
    claims-set -- whatever else they contain, in whatever order *)
Theorem decode_cbor_extensional b1 b2 kvs1 kvs2 :
  let w := {| w_p1 := spec_p1_fields; w_p2 := spec_p2_fields; w_swc := spec_swc_fields |} in
  parse_all b1 = Some (CMap kvs1) -> parse_all b2 = Some (CMap kvs2) ->
  (forall kvs, kvs = kvs1 \/ kvs = kvs2 ->
     unmodelled_pairs selector_tags kvs = false /\ modelled spec_p1_fields spec_swc_fields kvs /\ modelled spec_p2_fields spec_swc_fields kvs) ->
  (forall z, known_key z -> first_val kvs1 z = first_val kvs2 z) -> has_bad_key kvs1 = has_bad_key kvs2 ->
  decode_cbor spec_ccfg w b1 = decode_cbor spec_ccfg w b2.
Proof.
  intros w P1 P2 M Hf Hb. unfold decode_cbor. rewrite P1, P2. cbn [strip_tags w w_p1 w_p2 w_swc].
  destruct (M kvs1 (or_introl eq_refl)) as (S1 & A1 & B1). destruct (M kvs2 (or_intror eq_refl)) as (S2 & A2 & B2).
  assert (Hs : forall z f, find_field selector_tags z = Some f -> first_val kvs1 z = first_val kvs2 z)
    by (intros z f H; apply Hf; left; congruence).
  assert (H1 : forall z f, find_field spec_p1_fields z = Some f -> first_val kvs1 z = first_val kvs2 z)
    by (intros z f H; apply Hf; right; left; congruence).
  assert (H2 : forall z f, find_field spec_p2_fields z = Some f -> first_val kvs1 z = first_val kvs2 z)
    by (intros z f H; apply Hf; right; right; congruence).
  rewrite (selector_extensional kvs1 kvs2 S1 S2 Hs Hb).
  rewrite (decode_into_extensional spec_p1_fields spec_swc_fields kvs1 kvs2 _ p1_slots_distinct A1 A2 H1 Hb).
  rewrite (decode_into_extensional spec_p2_fields spec_swc_fields kvs1 kvs2 _ p2_slots_distinct B1 B2 H2 Hb).
  reflexivity.
Qed.

(** non-vacuity: reordered, with an unknown key, a text key and a repeated known key whose second value differs *)
Example extensional_witness :
  let kvs1 := [(CUint 265, CText (prof2 spec_ccfg)); (CUint 2394, CUint 7); (CUint 2395, CUint 12288)] in
  let kvs2 := [(CUint 2395, CUint 12288); (CUint 9999, CArray [CUint 1]); (CUint 2394, CUint 7); (CText (s2b "note"), CUint 0);
               (CUint 265, CText (prof2 spec_ccfg)); (CUint 2394, CUint 8)] in
  (forall z, known_key z -> first_val kvs1 z = first_val kvs2 z) /\ has_bad_key kvs1 = has_bad_key kvs2 /\
  decode_cbor spec_ccfg {| w_p1 := spec_p1_fields; w_p2 := spec_p2_fields; w_swc := spec_swc_fields |} (enc (CMap kvs1)) =
  decode_cbor spec_ccfg {| w_p1 := spec_p1_fields; w_p2 := spec_p2_fields; w_swc := spec_swc_fields |} (enc (CMap kvs2)).
Proof.
  cbv zeta. split; [|split; [reflexivity|vm_compute; reflexivity]].
  intros z Kz. cbn [first_val classify_key]. change (265 <? 2 ^ 63) with true. change (2394 <? 2 ^ 63) with true.
  change (2395 <? 2 ^ 63) with true. change (9999 <? 2 ^ 63) with true. cbv iota.
  change (utf8_valid (s2b "note")) with true. cbv iota.
  destruct (Z.eqb_spec (Z.of_N 265) z) as [E1|N1]; destruct (Z.eqb_spec (Z.of_N 2394) z) as [E2|N2];
    destruct (Z.eqb_spec (Z.of_N 2395) z) as [E3|N3]; destruct (Z.eqb_spec (Z.of_N 9999) z) as [E4|N4]; try reflexivity; subst; try discriminate; try (exfalso; cbn in *; congruence).
  exfalso. destruct Kz as [K|[K|K]]; apply K; vm_compute; reflexivity.
Qed.
