(** C17 at call granularity: with read-only calls on the shared objects,
    every interleaving gives every thread the results of running alone --
    hence the results of the sequential run. *)
From Coq Require Import List Arith Lia.
From PSA Require Import Conc.
Import ListNotations.

Section Proofs.
Variables St Pv Rd Wr Ot : Type.
Variable rstep : St -> Rd -> St * Ot.
Variable wstep : Pv -> Wr -> Pv * Ot.
Variable Inv : St -> Prop.
Hypothesis rstep_pure : forall s o, Inv s -> fst (rstep s o) = s.

Notation thread := (thread Pv Rd Wr Ot).
Notation conf := (conf St Pv Rd Wr Ot).
Notation tstep := (tstep St Pv Rd Wr Ot rstep wstep).
Notation sched_step := (sched_step St Pv Rd Wr Ot rstep wstep).
Notation run_sched := (run_sched St Pv Rd Wr Ot rstep wstep).
Notation alone := (alone St Pv Rd Wr Ot rstep wstep).

Lemma tstep_shared sh (t : thread) : Inv sh -> fst (tstep sh t) = sh.
Proof.
  intro I. unfold Conc.tstep. destruct (t_todo t) as [|[o|o] r]; [reflexivity| |].
  - pose proof (rstep_pure sh o I) as H. destruct (rstep sh o) as [sh' out]. exact H.
  - destruct (wstep (t_priv t) o). reflexivity.
Qed.

Lemma nth_upd_same {A} (l : list A) : forall i x, i < length l -> nth_error (upd_nth i x l) i = Some x.
Proof. induction l as [|a r IH]; intros [|i] x H; cbn in *; try lia; [reflexivity|]. apply IH. lia. Qed.

Lemma nth_upd_other {A} (l : list A) : forall i j x, i <> j -> nth_error (upd_nth i x l) j = nth_error l j.
Proof.
  induction l as [|a r IH]; intros [|i] [|j] x H; cbn; try reflexivity; try congruence.
  apply IH. congruence.
Qed.

Lemma upd_nth_length {A} (l : list A) : forall i x, length (upd_nth i x l) = length l.
Proof. induction l as [|a r IH]; intros [|i] x; cbn; auto. Qed.

Lemma alone_S n sh (t : thread) : alone (S n) sh t = snd (tstep sh (alone n sh t)).
Proof. revert t. induction n as [|n IH]; intro t; [reflexivity|]. cbn [Conc.alone] in *. rewrite IH. reflexivity. Qed.

(** the state reached under any schedule: shared objects as at the start, and every
    thread where it would be after some number of its own calls run alone *)
Definition tracks (c0 c : conf) : Prop :=
  g_sh c = g_sh c0 /\ length (g_th c) = length (g_th c0) /\
  forall i t0, nth_error (g_th c0) i = Some t0 -> exists n, nth_error (g_th c) i = Some (alone n (g_sh c0) t0).

Lemma tracks_refl c0 : tracks c0 c0.
Proof. repeat split. intros i t0 H. exists 0. exact H. Qed.

Lemma tracks_step c0 c i : Inv (g_sh c0) -> tracks c0 c -> tracks c0 (sched_step c i).
Proof.
  intros I (Hs & Hl & Ht). unfold Conc.sched_step.
  destruct (nth_error (g_th c) i) as [t|] eqn:E; [|repeat split; assumption].
  pose proof (tstep_shared (g_sh c) t) as Hp. rewrite Hs in Hp. specialize (Hp I).
  rewrite Hs. destruct (tstep (g_sh c0) t) as [sh' t'] eqn:T. cbn in Hp. subst sh'. unfold tracks. cbn [g_sh g_th].
  split; [reflexivity|]. split; [rewrite upd_nth_length; exact Hl|].
  intros j t0 H0. destruct (Ht j t0 H0) as [n Hn].
  destruct (Nat.eq_dec i j) as [<-|Ne].
  - exists (S n). rewrite nth_upd_same by (apply nth_error_Some; congruence).
    rewrite alone_S. rewrite Hn in E. injection E as <-. rewrite T. reflexivity.
  - exists n. rewrite nth_upd_other by exact Ne. exact Hn.
Qed.

Theorem schedule_independent c0 sched : Inv (g_sh c0) -> tracks c0 (run_sched c0 sched).
Proof.
  intro I. unfold Conc.run_sched.
  assert (G : forall c, tracks c0 c -> tracks c0 (fold_left sched_step sched c)).
  { induction sched as [|i r IH]; intros c T; [exact T|]. cbn. apply IH. apply tracks_step; assumption. }
  apply G, tracks_refl.
Qed.

(** a thread that has finished stays as it is *)
Lemma tstep_done sh (t : thread) : t_todo t = [] -> snd (tstep sh t) = t.
Proof. intro H. unfold Conc.tstep. rewrite H. reflexivity. Qed.

Lemma alone_done n sh (t : thread) : t_todo t = [] -> alone n sh t = t.
Proof. revert t. induction n as [|n IH]; intros t H; [reflexivity|]. cbn. rewrite tstep_done by exact H. apply IH, H. Qed.

Lemma alone_add n m sh (t : thread) : alone (n + m) sh t = alone m sh (alone n sh t).
Proof. revert t. induction n as [|n IH]; intro t; [reflexivity|]. cbn. apply IH. Qed.

Lemma alone_finished_unique n m sh (t : thread) :
  t_todo (alone n sh t) = [] -> t_todo (alone m sh t) = [] -> alone n sh t = alone m sh t.
Proof.
  intros Hn Hm. destruct (Nat.le_ge_cases n m) as [L|L].
  - replace m with (n + (m - n)) by lia. rewrite alone_add. symmetry. apply alone_done, Hn.
  - replace n with (m + (n - m)) by lia. rewrite alone_add. apply alone_done, Hm.
Qed.

(** any two complete schedules -- in particular a concurrent one and the sequential one --
    leave every thread with the same outputs and the same private state, and the shared objects untouched *)
Theorem complete_schedules_agree c0 s1 s2 : Inv (g_sh c0) ->
  finished St Pv Rd Wr Ot (run_sched c0 s1) -> finished St Pv Rd Wr Ot (run_sched c0 s2) ->
  g_sh (run_sched c0 s1) = g_sh c0 /\ g_sh (run_sched c0 s2) = g_sh c0 /\
  forall i, nth_error (g_th (run_sched c0 s1)) i = nth_error (g_th (run_sched c0 s2)) i.
Proof.
  intros I F1 F2.
  destruct (schedule_independent c0 s1 I) as (A1 & L1 & T1).
  destruct (schedule_independent c0 s2 I) as (A2 & L2 & T2).
  split; [exact A1|]. split; [exact A2|]. intro i.
  destruct (nth_error (g_th c0) i) as [t0|] eqn:E.
  - destruct (T1 i t0 E) as [n Hn]. destruct (T2 i t0 E) as [m Hm]. rewrite Hn, Hm. f_equal.
    apply alone_finished_unique.
    + apply F1. eapply nth_error_In. exact Hn.
    + apply F2. eapply nth_error_In. exact Hm.
  - apply nth_error_None in E.
    assert (N1 : nth_error (g_th (run_sched c0 s1)) i = None) by (apply nth_error_None; lia).
    assert (N2 : nth_error (g_th (run_sched c0 s2)) i = None) by (apply nth_error_None; lia).
    rewrite N1, N2. reflexivity.
Qed.

Notation seq_sched := (seq_sched Pv Rd Wr Ot).

Lemma todo_step sh (t : thread) : length (t_todo (snd (tstep sh t))) = pred (length (t_todo t)).
Proof.
  unfold Conc.tstep. destruct (t_todo t) as [|[o|o] r] eqn:E; [cbn; rewrite E; reflexivity| |].
  - destruct (rstep sh o). reflexivity.
  - destruct (wstep (t_priv t) o). reflexivity.
Qed.

Lemma alone_finishes n sh (t : thread) : length (t_todo t) <= n -> t_todo (alone n sh t) = [].
Proof.
  revert t. induction n as [|n IH]; intros t H.
  - cbn. destruct (t_todo t); [reflexivity|cbn in H; lia].
  - cbn. apply IH. rewrite todo_step. lia.
Qed.

Lemma upd_nth_same {A} (l : list A) i x : nth_error l i = Some x -> upd_nth i x l = l.
Proof. revert i. induction l as [|a r IH]; intros [|i] H; cbn in *; try congruence. f_equal. apply IH, H. Qed.

Lemma upd_nth_twice {A} (l : list A) i x y : upd_nth i y (upd_nth i x l) = upd_nth i y l.
Proof. revert i. induction l as [|a r IH]; intros [|i]; cbn; try reflexivity. f_equal. apply IH. Qed.

Lemma run_repeat n : forall c i t, Inv (g_sh c) -> nth_error (g_th c) i = Some t ->
  run_sched c (repeat i n) = {| g_sh := g_sh c; g_th := upd_nth i (alone n (g_sh c) t) (g_th c) |}.
Proof.
  induction n as [|n IH]; intros c i t I E.
  - cbn. rewrite upd_nth_same by exact E. destruct c; reflexivity.
  - cbn [repeat]. unfold Conc.run_sched in *. cbn [fold_left]. unfold Conc.sched_step at 2. rewrite E.
    pose proof (tstep_shared (g_sh c) t I) as Hp. destruct (tstep (g_sh c) t) as [sh' t'] eqn:T. cbn in Hp. subst sh'.
    rewrite (IH _ i t'); cbn [g_sh g_th].
    + rewrite upd_nth_twice. cbn [Conc.alone]. rewrite T. reflexivity.
    + exact I.
    + apply nth_upd_same. apply nth_error_Some. congruence.
Qed.

Lemma upd_nth_app {A} (pre : list A) t r x : upd_nth (length pre) x (pre ++ t :: r) = pre ++ x :: r.
Proof. induction pre as [|a p IH]; cbn; [reflexivity|]. f_equal. exact IH. Qed.

Lemma nth_error_app_mid {A} (pre : list A) t r : nth_error (pre ++ t :: r) (length pre) = Some t.
Proof. induction pre as [|a p IH]; cbn; [reflexivity|exact IH]. Qed.

(** the sequential run is one of the complete schedules *)
Theorem sequential_schedule_complete : forall ts pre c, Inv (g_sh c) -> g_th c = pre ++ ts ->
  (forall t, In t pre -> t_todo t = []) ->
  finished St Pv Rd Wr Ot (run_sched c (seq_sched (length pre) ts)).
Proof.
  induction ts as [|t r IH]; intros pre c I E F.
  - cbn. rewrite app_nil_r in E. intros t Ht. apply F. rewrite <- E. exact Ht.
  - cbn [seq_sched]. unfold Conc.run_sched. rewrite fold_left_app. fold (run_sched c (repeat (length pre) (length (t_todo t)))).
    rewrite (run_repeat _ c (length pre) t I) by (rewrite E; apply nth_error_app_mid).
    set (t' := alone (length (t_todo t)) (g_sh c) t).
    rewrite E, upd_nth_app.
    replace (S (length pre)) with (length (pre ++ [t'])) by (rewrite app_length; cbn; lia).
    apply IH; cbn [g_sh g_th].
    + exact I.
    + rewrite <- app_assoc. reflexivity.
    + intros x Hx. apply in_app_or in Hx. destruct Hx as [Hx|[<-|[]]]; [apply F, Hx|].
      apply alone_finishes. lia.
Qed.

End Proofs.
