(** The two specified patterns denote EAN-13 and EAN-13+5. *)
From Coq Require Import Arith.
From PSA Require Import Base Regex Claims ClaimsSpec.
From PSA.Spec Require Import SpecTables.

Lemma search_bol_false re s : search_from (ABol :: re) false s = false.
Proof. induction s as [|c s IH]; cbn; [reflexivity | exact IH]. Qed.

Lemma re_match_bol re s : re_match (ABol :: re) s = match_here re true s.
Proof.
  unfold re_match. destruct s as [|c s]; cbn.
  - apply orb_false_r.
  - rewrite search_bol_false. apply orb_false_r.
Qed.

Lemma eat_digits_spec n : forall s,
  eat_digits n s =
  if (n <=? length s)%nat && forallb is_digit (firstn n s) then Some (skipn n s) else None.
Proof.
  induction n as [|n IH]; intros s; cbn [eat_digits].
  - reflexivity.
  - destruct s as [|c s]; [reflexivity|].
    cbn [length firstn skipn forallb]. rewrite IH.
    change (S n <=? S (length s))%nat with (n <=? length s)%nat.
    destruct (is_digit c); cbn [andb]; [reflexivity|].
    rewrite andb_false_r. reflexivity.
Qed.

Lemma skipn_nil_iff {A} n (l : list A) : (n <= length l)%nat -> (skipn n l = [] <-> length l = n).
Proof.
  intro H. split; intro E.
  - assert (length (skipn n l) = 0%nat) as L by (rewrite E; reflexivity).
    rewrite skipn_length in L. lia.
  - apply length_zero_iff_nil. rewrite skipn_length. lia.
Qed.

Lemma skipn_S_tl {A} n : forall l : list A, skipn (S n) l = tl (skipn n l).
Proof.
  induction n as [|n IH]; intros [|x l]; try reflexivity.
  change (skipn (S (S n)) (x :: l)) with (skipn (S n) l). rewrite IH. reflexivity.
Qed.

Lemma match_eol (b : bool) s : match_here [AEol] b s = match s with [] => true | _ => false end.
Proof. destruct s; reflexivity. Qed.

Lemma match_digits n r b s :
  match_here (ADigits n :: r) b s =
  match eat_digits n s with
  | Some s' => match_here r (match n with O => b | _ => false end) s'
  | None => false
  end.
Proof. reflexivity. Qed.

Lemma match_lit c r b s :
  match_here (ALit c :: r) b s =
  match s with d :: s' => if byte_eqb c d then match_here r false s' else false | [] => false end.
Proof. reflexivity. Qed.

Lemma re1_is_ean13 s : re_match spec_re1 s = ean13 s.
Proof.
  unfold spec_re1. rewrite re_match_bol, match_digits, eat_digits_spec.
  unfold ean13, all_digits.
  destruct (Nat.leb_spec 13 (length s)) as [Hle|Hlt]; cbn [andb].
  - destruct (Nat.eqb_spec (length s) 13) as [He|Hne]; cbn [andb].
    + rewrite firstn_all2 by lia.
      destruct (forallb is_digit s); [|reflexivity].
      rewrite match_eol. apply (skipn_nil_iff 13 s) in He; [|lia]. rewrite He. reflexivity.
    + destruct (forallb is_digit (firstn 13 s)); [|reflexivity].
      rewrite match_eol. destruct (skipn 13 s) eqn:E; [|reflexivity].
      apply skipn_nil_iff in E; [congruence|lia].
  - destruct (Nat.eqb_spec (length s) 13); [lia|reflexivity].
Qed.

Lemma firstn_skipn_digits n m (s : bytes) :
  forallb is_digit (firstn m (skipn n s)) = forallb is_digit (firstn m (skipn n s)).
Proof. reflexivity. Qed.

Lemma re2_is_ean13_5 s : re_match spec_re2 s = ean13_5 s.
Proof.
  unfold spec_re2. rewrite re_match_bol, match_digits, eat_digits_spec.
  unfold ean13_5, all_digits.
  destruct (Nat.leb_spec 13 (length s)) as [Hle|Hlt]; cbn [andb].
  2:{ destruct (Nat.eqb_spec (length s) 19); [lia|reflexivity]. }
  destruct (forallb is_digit (firstn 13 s)) eqn:D1.
  2:{ rewrite andb_false_r. reflexivity. }
  rewrite andb_true_r.
  (* the literal hyphen *)
  assert (nth_error s 13 = hd_error (skipn 13 s)) as Hn.
  { clear. revert s. generalize 13%nat. induction n as [|n IH]; intros [|c s]; cbn; auto. }
  rewrite Hn.
  destruct (skipn 13 s) as [|c r] eqn:E.
  { cbn. apply skipn_nil_iff in E; [|lia].
    destruct (Nat.eqb_spec (length s) 19); [lia|reflexivity]. }
  cbn [hd_error].
  assert (skipn 14 s = r) as E14.
  { rewrite (skipn_S_tl 13 s), E. reflexivity. }
  assert (length s = (14 + length r)%nat) as L.
  { rewrite <- (firstn_skipn 13 s) at 1. rewrite app_length, firstn_length_le by lia. rewrite E. cbn. lia. }
  rewrite match_lit.
  destruct (byte_eqb "-"%byte c) eqn:Hc.
  2:{ assert (byte_eqb c "-"%byte = false) as Hc'.
      { destruct (byte_eqb c "-"%byte) eqn:X; [|reflexivity].
        apply byte_eqb_eq in X. subst c. cbn in Hc. discriminate. }
      rewrite Hc'. rewrite andb_false_r. reflexivity. }
  assert (byte_eqb c "-"%byte = true) as Hc'.
  { apply byte_eqb_eq in Hc. subst c. reflexivity. }
  rewrite Hc', andb_true_r, E14.
  rewrite match_digits, eat_digits_spec.
  destruct (Nat.leb_spec 5 (length r)) as [H5|H5]; cbn [andb].
  - destruct (Nat.eqb_spec (length s) 19) as [He|Hne]; cbn [andb].
    + rewrite firstn_all2 by lia.
      destruct (forallb is_digit r); [|reflexivity].
      rewrite match_eol.
      assert (skipn 5 r = []) as Z by (apply skipn_nil_iff; lia). rewrite Z. reflexivity.
    + destruct (forallb is_digit (firstn 5 r)); [|reflexivity].
      rewrite match_eol. destruct (skipn 5 r) eqn:Z; [|reflexivity].
      apply skipn_nil_iff in Z; [lia|lia].
  - destruct (Nat.eqb_spec (length s) 19); [lia|reflexivity].
Qed.
