(** go-cose's Sign1Message.UnmarshalCBOR + psatoken's UnmarshalCOSE at byte
    level.  Header maps are modelled exactly for the shapes psatoken itself
    produces and the common kid parameter (protected: empty or {1: int};
    unprotected: {}, {4: bstr}, {1: int}, {1: int, 4: bstr}); any other header content is reported as
    outside the model.  Verification uses the bytes of the three signed
    parts (protected content, payload, signature). *)
From Coq Require Import String.
From PSA Require Import Base Lines Lifecycle Regex Claims Cbor Tags Wire Codec.
Open Scope N_scope.

Record envelope := {
  v_prot : bytes;           (* content of the protected-header byte string *)
  v_alg : option Z;         (* label 1 of the protected header *)
  v_payload : bytes;
  v_sig : bytes
}.

(** element 3 / 4 as go-cose's byteString: null -> nil, else a (definite) byte string *)
Definition as_bstr_or_nil (c : cbor) : option (option bytes) :=
  match c with
  | CSimple 22 => Some None
  | CBytes b => Some (Some b)
  | _ => None
  end.

Inductive hres := HOk (alg : option Z) | HErr | HUnmodelled.

Definition key_z (k : cbor) : option Z :=
  match k with
  | CUint n => Some (Z.of_N n)
  | CNint n => Some (- Z.of_N n - 1)%Z
  | _ => None
  end.

(** protected header content *)
Definition dec_protected (content : bytes) : hres :=
  match content with
  | [] => HOk None
  | _ =>
      match parse_all content with
      | Some (CMap []) => HOk None
      | Some (CMap [(CUint 1, v)]) =>
          match key_z v with
          | Some a => if (- 2 ^ 63 <=? a)%Z && (a <? 2 ^ 63)%Z then HOk (Some a) else HUnmodelled
          | None => HUnmodelled          (* text algorithm names, or an invalid alg value *)
          end
      | Some (CMap _) => HUnmodelled
      | Some _ => HErr                   (* protected header: require map type *)
      | None => HErr
      end
  end.

(** unprotected header: go-cose also accepts an algorithm parameter here (integer or text);
    [HOk (Some 0)] flags its presence -- psatoken never reads it *)
Definition unprot_alg_value (v : cbor) : bool :=
  match v with
  | CUint _ | CNint _ => match key_z v with Some a => (- 2 ^ 63 <=? a)%Z && (a <? 2 ^ 63)%Z | None => false end
  | _ => false
  end.

Definition dec_unprotected (c : cbor) : hres :=
  match c with
  | CMap [] => HOk None
  | CMap [(CUint 4, CBytes _)] => HOk None
  | CMap [(CUint 1, v)] => if unprot_alg_value v then HOk (Some 0%Z) else HUnmodelled
  | CMap [(CUint 1, v); (CUint 4, CBytes _)] => if unprot_alg_value v then HOk (Some 0%Z) else HUnmodelled
  | CMap _ => HUnmodelled
  | _ => HErr
  end.

Definition cose_decode (b : bytes) : dres envelope :=
  match b with
  | xd2 :: ((x84 :: _) as r) =>
      match parse_all r with
      | Some (CArray [p; u; pl; sg]) =>
          if has_tag 40 (CArray [p; u; pl; sg]) then DErr          (* tags are forbidden inside the message *)
          else
            match as_bstr_or_nil pl, as_bstr_or_nil sg with
            | Some opl, Some osg =>
                match osg with
                | None | Some [] => DErr                           (* empty signature *)
                | Some sgb =>
                    match p with
                    | CBytes content =>
                        match dec_protected content, dec_unprotected u with
                        | HErr, _ => DErr
                        | HUnmodelled, HErr => DErr
                        | HUnmodelled, _ => DUnmodelled
                        | HOk _, HErr => DErr
                        | HOk _, HUnmodelled => DUnmodelled
                        | HOk (Some _), HOk (Some _) => DUnmodelled       (* the parameter in both buckets *)
                        | HOk a, HOk _ =>
                            match opl with
                            | None => DErr                         (* nil payload: no claims *)
                            | Some plb => DOk {| v_prot := content; v_alg := a; v_payload := plb; v_sig := sgb |}
                            end
                        end
                    | _ => DErr                                    (* nil or non-bstr protected header *)
                    end
                end
            | _, _ => DErr
            end
      | _ => DErr
      end
  | _ => DErr
  end.

(** DecodeEvidenceFromCOSE: envelope, then the claims in the payload *)
Definition decode_evidence (cc : ccfg) (w : wcfg) (b : bytes) : dres (envelope * claims) :=
  match cose_decode b with
  | DOk v => match decode_cbor cc w (v_payload v) with
             | DOk c => DOk (v, c)
             | DErr => DErr
             | DUnmodelled => DUnmodelled
             end
  | DErr => DErr
  | DUnmodelled => DUnmodelled
  end.

(** the envelope go-cose's MarshalCBOR produces for psatoken *)
Definition cose_encode (alg : Z) (payload sg : bytes) : bytes :=
  enc (CTag 18 (CArray [CBytes (enc (CMap [(CUint 1, enc_int alg)])); CMap []; CBytes payload; CBytes sg])).

(** Sig_structure: what is actually signed *)
Definition sig_structure (prot payload : bytes) : bytes :=
  enc (CArray [CText (s2b "Signature1"%string); CBytes prot; CBytes []; CBytes payload]).
