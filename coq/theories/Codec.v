(** EncodeClaimsToCBOR / DecodeClaimsFromCBOR at byte level, with the
    built-in profile register. *)
From Coq Require Import String.
From PSA Require Import Base Lines Lifecycle Regex Claims Cbor Utf8 Tags Wire.
Open Scope N_scope.

Record wcfg := { w_p1 : list field_tag; w_p2 : list field_tag; w_swc : list field_tag }.

Definition tags_of (w : wcfg) (k : kind) : list field_tag := match k with K1 => w_p1 w | K2 => w_p2 w end.

Definition encode_cbor (w : wcfg) (c : claims) : option bytes :=
  option_map enc (encode_tree (tags_of w (c_kind c)) (w_swc w) c).

(** DecodeClaimsFromCBOR with the two built-in profiles registered
    (profile 1 also as the default entry "") *)
(** iclaims.go isCBORMap: the item under any number of tags *)
Fixpoint strip_tags (t : cbor) : cbor :=
  match t with CTag _ c => strip_tags c | x => x end.

Definition decode_cbor (cc : ccfg) (w : wcfg) (b : bytes) : dres claims :=
  match parse_all b with
  | None => DErr
  | Some t =>
      match strip_tags t with
      | CMap _ =>
      match decode_selector t with
      | DOk name =>
          if match name with [] => true | _ => bytes_eqb name (prof1 cc) end
          then decode_into (w_p1 w) (w_swc w) t (new_p1 cc true)
          else if bytes_eqb name (prof2 cc) then decode_into (w_p2 w) (w_swc w) t (new_p2 cc)
          else DErr
      | DErr => DErr
      | DUnmodelled => DUnmodelled
      end
      | _ => DErr                       (* the (possibly tagged) top-level item is not a map *)
      end
  end.

(** does the token (under the profile it declares) rely on a decoder leniency? *)
Definition lenient_cbor (cc : ccfg) (w : wcfg) (b : bytes) : bool :=
  match parse_all b with
  | Some t =>
      match decode_selector t with
      | DOk name => if bytes_eqb name (prof2 cc) then lenient_token (w_p2 w) (w_swc w) t
                    else lenient_token (w_p1 w) (w_swc w) t
      | _ => false
      end
  | None => false
  end.
