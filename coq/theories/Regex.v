(** The regular expressions psatoken uses are sequences of fixed-width
    atoms; this is Go's regexp.MatchString (leftmost *search*, unanchored
    unless the pattern says so; [$] without the m flag is end of text;
    [\d] is an ASCII digit) for that fragment. *)
From PSA Require Import Base.
Open Scope N_scope.

Inductive atom :=
| ABol                  (* ^ *)
| AEol                  (* $ *)
| ADigits (n : nat)     (* \d{n} *)
| ALit (c : byte)       (* a literal byte *)
| AUnrec.               (* a construct the translator does not understand: never matches *)

Definition is_digit (c : byte) : bool :=
  let n := Byte.to_N c in (48 <=? n) && (n <=? 57).

Fixpoint eat_digits (n : nat) (s : bytes) : option bytes :=
  match n with
  | O => Some s
  | S k => match s with
           | c :: s' => if is_digit c then eat_digits k s' else None
           | [] => None
           end
  end.

(** match the atom list at the current position; [at_start] says whether
    the current position is the beginning of the text *)
Fixpoint match_here (re : list atom) (at_start : bool) (s : bytes) : bool :=
  match re with
  | [] => true
  | ABol :: r => if at_start then match_here r at_start s else false
  | AEol :: r => match s with [] => match_here r at_start s | _ => false end
  | ADigits n :: r =>
      match eat_digits n s with
      | Some s' => match_here r (match n with O => at_start | _ => false end) s'
      | None => false
      end
  | ALit c :: r =>
      match s with
      | d :: s' => if byte_eqb c d then match_here r false s' else false
      | [] => false
      end
  | AUnrec :: _ => false
  end.

Fixpoint search_from (re : list atom) (at_start : bool) (s : bytes) : bool :=
  match_here re at_start s ||
  match s with
  | [] => false
  | _ :: s' => search_from re false s'
  end.

Definition re_match (re : list atom) (s : bytes) : bool := search_from re true s.

Definition atom_eqb (a b : atom) : bool :=
  match a, b with
  | ABol, ABol | AEol, AEol => true
  | ADigits n, ADigits m => Nat.eqb n m
  | ALit c, ALit d => byte_eqb c d
  | _, _ => false
  end.
