(** iclaims.go / evidence.go: the validating entry points as compositions
    of validation with their non-validating siblings. *)
From PSA Require Import Base Lines Lifecycle Regex Claims Cbor Tags Wire Codec Evidence.
Open Scope N_scope.

Section Gates.
Variable cc : ccfg.
Variable w : wcfg.

(** ValidateAndEncodeClaimsToCBOR: [None] = an error, no bytes *)
Definition validate_and_encode (c : claims) : option bytes :=
  match validate cc c with Ok _ => encode_cbor w c | _ => None end.

(** DecodeAndValidateClaimsFromCBOR *)
Definition decode_and_validate (b : bytes) : dres claims :=
  match decode_cbor cc w b with
  | DOk c => match validate cc c with Ok _ => DOk c | _ => DErr end
  | other => other
  end.

End Gates.
