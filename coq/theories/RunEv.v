(** Runner for Evidence histories:
      EV <n> <claims_1 .. claims_n (13 tokens each)> <op>*
    ops: set:<i>  mut:<i> (the attached claims object is overwritten in place, no validation)  sign:<b><k>  vsign:<b><k>  dec:<ref>  ver:<k>
      b: g good, f signer fails, e signer returns an empty signature,
         u signer reports an unknown algorithm, m signer reports an algorithm its key does not fit
      ref: t<i> token i | p<i>:<j> token i with the encoding of claims j as payload |
           s<i>:<j> token i with the signature of token j | x<i> payload h'01' |
           n<i> nil payload | a<i> empty protected header | g garbage
    (token indices are taken modulo the number of tokens produced so far; none -> garbage) *)
From Coq Require Import String.
From PSA Require Import Base Lines Lifecycle Regex Claims Cbor Tags Wire Codec Evidence Obs CaseClaims RunHist.
Open Scope N_scope.

Definition key_alg (k : N) : Z :=
  match k with 1 | 2 => (-7)%Z | 3 => (-35)%Z | 4 => (-8)%Z | 5 => (-37)%Z | _ => 0%Z end.

Definition alg_known (a : Z) : bool :=
  existsb (Z.eqb a) [(-7)%Z; (-35)%Z; (-36)%Z; (-8)%Z; (-37)%Z; (-38)%Z; (-39)%Z].

Definition parse_signer (t : bytes) : option signer :=
  match t with
  | b :: kd =>
      match parse_N kd with
      | Some k =>
          if byte_eqb b "g" then Some {| sg_key := k; sg_alg := key_alg k; sg_beh := SignsOk |}
          else if byte_eqb b "f" then Some {| sg_key := k; sg_alg := key_alg k; sg_beh := SignFails |}
          else if byte_eqb b "e" then Some {| sg_key := k; sg_alg := key_alg k; sg_beh := SignsEmpty |}
          else if byte_eqb b "u" then Some {| sg_key := k; sg_alg := (-999)%Z; sg_beh := SignsOk |}
          else if byte_eqb b "m" then Some {| sg_key := k; sg_alg := (-36)%Z; sg_beh := SignsOk |}
          else None
      | None => None
      end
  | [] => None
  end.

Definition nth_mod {A} (l : list A) (i : N) : option A :=
  match l with
  | [] => None
  | _ => nth_error l (N.to_nat (i mod N.of_nat (length l)))
  end.

(** a profile-2 map whose client id is a text string: {265: "http://arm.com/psa/2.0.0", 2394: "x"} *)
Definition mistyped_payload : bytes :=
  match parse_hex (s2b "a21901097818687474703a2f2f61726d2e636f6d2f7073612f322e302e3019095a6178") with Some b => b | None => [] end.

Definition tok_sig (t : token) : option sigv := match t with Tok _ _ s => s | TokGarbage => None end.

Definition parse_ref (w : wcfg) (pool : list claims) (toks : list token) (t : bytes) : option token :=
  match t with
  | [x67] => Some TokGarbage
  | c :: r =>
      let args := split_colon r in
      let base i := match nth_mod toks i with Some t => t | None => TokGarbage end in
      match args with
      | [ti] =>
          match parse_N ti with
          | Some i =>
              match base i with
              | TokGarbage => Some TokGarbage
              | Tok a p s =>
                  if byte_eqb c "t" then Some (Tok a p s)
                  else if byte_eqb c "x" then Some (Tok a (Some [x01]) s)
                  else if byte_eqb c "n" then Some (Tok a None s)
                  else if byte_eqb c "y" then Some (Tok a (Some mistyped_payload) s)
                  else if byte_eqb c "a" then Some (Tok None p s)
                  else None
              end
          | None => None
          end
      | [ti; tj] =>
          if byte_eqb c "f" then
            (* token i with the payload given in hex *)
            match parse_N ti, parse_hex tj with
            | Some i, Some b => match base i with
                                | TokGarbage => Some TokGarbage
                                | Tok a _ s => Some (Tok a (Some b) s)
                                end
            | _, _ => None
            end
          else
          match parse_N ti, parse_N tj with
          | Some i, Some j =>
              match base i with
              | TokGarbage => Some TokGarbage
              | Tok a p s =>
                  if byte_eqb c "p" then
                    match nth_mod pool j with
                    | Some cl => match encode_cbor w cl with Some b => Some (Tok a (Some b) s) | None => Some (Tok a p s) end
                    | None => Some (Tok a p s)
                    end
                  else if byte_eqb c "s" then Some (Tok a p (tok_sig (base j)))
                  else None
              end
          | _, _ => None
          end
      | _ => None
      end
  | [] => None
  end.

Definition claims_tok (o : option claims) : bytes :=
  match o with None => s2b "nil" | Some c => join_with x7c (print_claims c) end.

Definition out_tok (o : eout) : bytes :=
  match o with OutErr => s2b "err" | OutOk => s2b "ok" | OutTok _ => s2b "ok" end.

Fixpoint run_ev_ops (cc : ccfg) (w : wcfg) (pool : list claims) (toks : list token) (e : ev) (ops : list bytes)
  : option (list bytes) :=
  match ops with
  | [] => Some []
  | op :: r =>
      let eo : option eop :=
        match split_colon op with
        | k :: args =>
            if bytes_eqb k (s2b "set") then
              match args with [i] => match parse_N i with Some n => option_map ESetClaims (nth_mod pool n) | None => None end | _ => None end
            else if bytes_eqb k (s2b "mut") then
              match args with [i] => match parse_N i with Some n => option_map EMutate (nth_mod pool n) | None => None end | _ => None end
            else if bytes_eqb k (s2b "sign") then
              match args with [s] => option_map (ESign false) (parse_signer s) | _ => None end
            else if bytes_eqb k (s2b "vsign") then
              match args with [s] => option_map (ESign true) (parse_signer s) | _ => None end
            else if bytes_eqb k (s2b "ver") then
              match args with [i] => option_map EVerify (parse_N i) | _ => None end
            else if bytes_eqb k (s2b "dec") then
              option_map EDecode (parse_ref w pool toks (join_with x3a args))
            else None
        | [] => None
        end in
      match eo with
      | None => None
      | Some (ESign _ _) =>
          if match e_claims e with None => true | Some _ => false end
          then (* signing with no claims attached is outside the domain: skipped by model and harness alike *)
               match run_ev_ops cc w pool toks e r with
               | Some rest => Some (s2b "skip" :: claims_tok None :: rest)
               | None => None
               end
          else
          let o := match eo with Some o => o | None => EVerify 0 end in
          let '(e', out) := step cc w key_alg alg_known e o in
          let toks' := match out with OutTok t => toks ++ [t] | _ => toks end in
          match run_ev_ops cc w pool toks' e' r with
          | Some rest => Some (out_tok out :: claims_tok (e_claims e') :: rest)
          | None => None
          end
      | Some o =>
          let '(e', out) := step cc w key_alg alg_known e o in
          let toks' := match out with OutTok t => toks ++ [t] | _ => toks end in
          match run_ev_ops cc w pool toks' e' r with
          | Some rest => Some (out_tok out :: claims_tok (e_claims e') :: rest)
          | None => None
          end
      end
  end.

Fixpoint parse_pool (n : nat) (ts : list bytes) : option (list claims * list bytes) :=
  match n with
  | O => Some ([], ts)
  | S k => match parse_claims ts with
           | Some (c, r) => match parse_pool k r with Some (l, r') => Some (c :: l, r') | None => None end
           | None => None
           end
  end.

Definition run_ev (cc : ccfg) (w : wcfg) (args : list bytes) : bytes :=
  match args with
  | tn :: rest =>
      match parse_N tn with
      | Some n =>
          if 64 <? n then bad_input
          else match parse_pool (N.to_nat n) rest with
               | Some (pool, ops) =>
                   match run_ev_ops cc w pool [] {| e_claims := None; e_msg := None |} ops with
                   | Some out => join_sp out
                   | None => bad_input
                   end
               | None => bad_input
               end
      | None => bad_input
      end
  | [] => bad_input
  end.

(** SRT <k> <13 claims tokens>: ValidateAndSign with key k, then decode the
    token into a fresh Evidence and verify (matching key, signing Evidence,
    another key).  Observed: result, protected-header content, payload,
    decoded claims, three verification outcomes. *)
Definition run_srt (cc : ccfg) (w : wcfg) (args : list bytes) : bytes :=
  match args with
  | tk :: rest =>
      match parse_N tk, parse_claims rest with
      | Some k, Some (c, []) =>
          let s := {| sg_key := k; sg_alg := key_alg k; sg_beh := SignsOk |} in
          let '(e1, o1) := step cc w key_alg alg_known {| e_claims := Some c; e_msg := None |} (ESign true s) in
          match o1 with
          | OutTok (Tok (Some a) (Some p) sg) =>
              let '(e2, o2) := step cc w key_alg alg_known {| e_claims := None; e_msg := None |} (EDecode (Tok (Some a) (Some p) sg)) in
              let other := k mod 5 + 1 in
              let vt (b : bool) := if b then s2b "ok" else s2b "err" in
              match c_kind c, c_swc c, c_profile c with
              | K2, Some [], _ => s2b "*"
              | _, _, Some (POid _) => s2b "*"
              | _, _, _ =>
                  join_sp [ s2b "ok"; hex_of (enc (CMap [(CUint 1, enc_int a)])); hex_of p;
                            out_tok o2; claims_tok (e_claims e2);
                            vt (verify_ok cc w key_alg alg_known e2 k);
                            vt (verify_ok cc w key_alg alg_known e1 k);
                            vt (verify_ok cc w key_alg alg_known e2 other) ]
              end
          | _ => s2b "err"
          end
      | _, _ => bad_input
      end
  | [] => bad_input
  end.
