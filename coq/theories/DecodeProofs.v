(** C04: properties of the typed decoder of the model. *)
From Coq Require Import Arith ZArith String Lia.
From PSA Require Import Base Lines Lifecycle Regex Claims ClaimsSpec ClaimsProofs Cbor CborProofs Utf8 Tags Wire WireProofs Codec Gates SetterProofs CodecProofs.
From PSA.Spec Require Import SpecTables SpecTags.
Open Scope N_scope.

Notation S := spec_ccfg.
Notation SW := spec_swc_fields.

(** integer claims: exactly the integers of the declared width, no
    wrap-around, no coercion from floats, texts, byte strings, booleans *)
Theorem dec_int_exact bits v z : dec_int bits v = Some z ->
  (exists n, v = CUint n /\ n < 2 ^ (bits - 1) /\ z = Z.of_N n) \/
  (exists n, v = CNint n /\ n < 2 ^ (bits - 1) /\ z = (- Z.of_N n - 1)%Z) \/
  (exists n, v = CSimple n /\ z = Z.of_N n).          (* fxamacker leniency, finding K1 *)
Proof.
  unfold dec_int. destruct v as [n|n|b|b|l|l|t c|n|w b]; cbn [as_uint]; try discriminate.
  - destruct (N.ltb_spec n (2 ^ (bits - 1))) as [L|L]; [|discriminate]. intro E. injection E as <-. left. eauto.
  - destruct (N.ltb_spec n (2 ^ (bits - 1))) as [L|L]; [|discriminate]. intro E. injection E as <-. right. left. eauto.
  - destruct ((n =? 20) || (n =? 21) || (n =? 22) || (n =? 23)); [discriminate|].
    destruct (n <? 2 ^ (bits - 1)); [|discriminate]. intro E. injection E as <-. right. right. eauto.
Qed.

Theorem dec_uint_exact bits v n : dec_uint bits v = Some n ->
  (v = CUint n /\ n < 2 ^ bits) \/ (v = CSimple n).
Proof.
  unfold dec_uint. destruct v as [m|m|b|b|l|l|t c|m|w b]; cbn [as_uint]; try discriminate.
  - destruct (N.ltb_spec m (2 ^ bits)) as [L|L]; [|discriminate]. intro E. injection E as <-. left. auto.
  - destruct ((m =? 20) || (m =? 21) || (m =? 22) || (m =? 23)); [discriminate|].
    destruct (m <? 2 ^ bits); [|discriminate]. intro E. injection E as <-. right. reflexivity.
Qed.

Theorem dec_text_exact v s : dec_text v = Some s -> v = CText s /\ utf8_valid s = true.
Proof. unfold dec_text. destruct v; try discriminate. destruct (utf8_valid b) eqn:U; [|discriminate]. intro H. injection H as <-. auto. Qed.

Theorem dec_bytes_exact v b : dec_bytes v = Some b -> v = CBytes b \/ exists l, v = CArray l.   (* second case: finding K1 *)
Proof. unfold dec_bytes. destruct v; try discriminate; [intro H; injection H as <-; auto|eauto]. Qed.

(** unknown integer keys are ignored, wherever they stand *)
Lemma dec_pairs_skip_unknown {A} tags (setf : field_tag -> cbor -> A -> option A) z v :
  (- 2 ^ 63 <= z < 2 ^ 63)%Z -> find_field tags z = None ->
  forall pre post found a err,
  dec_pairs tags setf (pre ++ (enc_int z, v) :: post) found a err = dec_pairs tags setf (pre ++ post) found a err.
Proof.
  intros Hz Hf. induction pre as [|[k w] pre IH]; intros post found a err.
  - cbn [app dec_pairs]. rewrite classify_enc_int by exact Hz. rewrite Hf. destruct (zmem z found); reflexivity.
  - cbn [app dec_pairs]. destruct (classify_key k) as [y|s|]; try apply IH.
    destruct (zmem y found); [apply IH|]. destruct (find_field tags y) as [f|]; [|apply IH].
    destruct (setf f w a); apply IH.
Qed.

(** an accepted token was decoded without a recorded error and validates;
    duplicate keys: only the first occurrence counts *)
Lemma dec_pairs_dup_ignored {A} tags (setf : field_tag -> cbor -> A -> option A) z v post found a err :
  (- 2 ^ 63 <= z < 2 ^ 63)%Z -> zmem z found = true ->
  dec_pairs tags setf ((enc_int z, v) :: post) found a err = dec_pairs tags setf post found a err.
Proof. intros Hz Hm. cbn [dec_pairs]. rewrite classify_enc_int by exact Hz. rewrite Hm. reflexivity. Qed.

(** K1: the full statement "right CBOR type for every known key" is false of
    the faithful model (and of the library): an implementation id carried as
    an array of 32 small integers is accepted *)
Definition rep (n : nat) (b : byte) : bytes := repeat b n.
Definition k1_token : cbor :=
  CMap [ (enc_int (-75001), CUint 1); (enc_int (-75002), CUint 0x3000);
         (enc_int (-75003), CArray (repeat (CUint 7) 32));
         (enc_int (-75004), CBytes (rep 32 x02)); (enc_int (-75007), CUint 1);
         (enc_int (-75008), CBytes (rep 32 x03)); (enc_int (-75009), CBytes (x01 :: rep 32 x04)) ].
Example array_as_bytes_refuted :
  exists c, decode_and_validate S W (enc k1_token) = DOk c /\ c_impl c = Some (rep 32 x07) /\
            lenient_cbor S W (enc k1_token) = true.
Proof. eexists. split; [vm_compute; reflexivity|]. split; vm_compute; reflexivity. Qed.
