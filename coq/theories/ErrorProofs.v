(** C13: every error of a getter, a setter or validation carries exactly
    the sentinel class of its cause; FilterError. *)
From Coq Require Import Arith ZifyN ZifyBool ZifyNat.
From PSA Require Import Base Lifecycle Regex Claims ClaimsSpec LifecycleProofs RegexProofs ClaimsProofs.
From PSA.Spec Require Import SpecTables.
Open Scope N_scope.

(** why a claim (or component field) is not acceptable, in the property's words *)
Inductive cause := AbsentMandatory | AbsentOptional | Malformed | ProfileMismatch.

Definition class_of (k : cause) : sentinel :=
  match k with
  | AbsentMandatory => MissingMandatory | AbsentOptional => MissingOptional
  | Malformed => WrongSyntax | ProfileMismatch => WrongProfile
  end.

(** the error is classified as [s] and as nothing else *)
Definition only (e : goerr) (s : sentinel) : Prop := forall t, err_is e t = sent_eqb s t.

Lemma only_sent s : only (wrap1 (ESent s)) s.
Proof. intro t. cbn. apply orb_false_r. Qed.
Lemma only_wrap e s : only e s -> only (wrap1 e) s.
Proof. intros H t. cbn. rewrite H. apply orb_false_r. Qed.
Lemma only_mand : only e_mand MissingMandatory. Proof. apply only_sent. Qed.
Lemma only_opt : only e_opt MissingOptional. Proof. apply only_sent. Qed.
Lemma only_syntax : only e_syntax WrongSyntax. Proof. apply only_sent. Qed.

(** * FilterError *)

Lemma filter_error_nil_iff (e : option goerr) :
  filter_error e = None <->
  (e = None \/ exists x, e = Some x /\ (err_is x MissingOptional = true \/ err_is x NotInProfile = true)).
Proof.
  destruct e as [x|]; cbn; [|split; auto].
  destruct (err_is x MissingOptional) eqn:A; destruct (err_is x NotInProfile) eqn:B; cbn.
  1-3: split; [intros _; right; exists x; split; [reflexivity|auto]|reflexivity].
  split; [discriminate|]. intros [H|[y [H [C|C]]]]; [discriminate| |]; injection H as <-; congruence.
Qed.

Lemma filter_error_unchanged (e : option goerr) (x : goerr) :
  filter_error e = Some x -> e = Some x.
Proof.
  destruct e as [y|]; cbn; [|discriminate].
  destruct (err_is y MissingOptional || err_is y NotInProfile); [discriminate|auto].
Qed.

(** * causes *)

Definition swc_cause (s : swc) : option cause :=
  match sw_mval s with
  | None => Some AbsentMandatory
  | Some m => if hash_size m then
                match sw_signer s with
                | None => Some AbsentMandatory
                | Some g => if hash_size g then None else Some Malformed
                end
              else Some Malformed
  end.

Fixpoint comps_cause (l : list (option swc)) : option cause :=
  match l with
  | [] => None
  | None :: _ => Some Malformed
  | Some s :: r => match swc_cause s with Some k => Some k | None => comps_cause r end
  end.

Definition cause_of (id : claimid) (c : claims) : option cause :=
  match id with
  | CProfile =>
      match c_kind c, c_profile c with
      | K1, None => None
      | K2, None => Some AbsentMandatory
      | _, Some (PStr p) => if bytes_eqb p (c_canon c) then None else Some ProfileMismatch
      | _, Some _ => Some ProfileMismatch
      end
  | CClient => match c_client c with None => Some AbsentMandatory | Some _ => None end
  | CLc => match c_lc c with None => Some AbsentMandatory | Some v => if lc_page_ok v then None else Some Malformed end
  | CImpl => match c_impl c with None => Some AbsentMandatory | Some b => if blen b =? 32 then None else Some Malformed end
  | CBoot =>
      match c_kind c, c_boot c with
      | K1, None => Some AbsentMandatory
      | K2, None => Some AbsentOptional
      | K1, Some b => if blen b =? 32 then None else Some Malformed
      | K2, Some b => if (8 <=? blen b) && (blen b <=? 32) then None else Some Malformed
      end
  | CCert => match c_cert c with None => Some AbsentOptional | Some s => if cert_format (c_kind c) s then None else Some Malformed end
  | CSwc =>
      match comps c with
      | [] => match c_kind c, c_nosw c with K1, Some _ => None | _, _ => Some AbsentMandatory end
      | l => match c_kind c, c_nosw c with K1, Some _ => Some Malformed | _, _ => comps_cause l end
      end
  | CNonce => match c_nonce c with None => Some AbsentMandatory | Some [n] => if hash_size n then None else Some Malformed | Some _ => Some Malformed end
  | CInst =>
      match c_inst c with
      | None => Some AbsentMandatory
      | Some b => if (blen b =? 33) && match b with x :: _ => Byte.to_N x =? 1 | [] => false end then None else Some Malformed
      end
  | CVsi => match c_vsi c with None => Some AbsentOptional | Some [] => Some Malformed | Some _ => None end
  end.

(** the getter of [id] succeeds, or fails with exactly the class of the cause *)
Definition status_classified (id : claimid) (c : claims) : Prop :=
  match cause_of id c with
  | None => status S id c = Ok tt
  | Some k => exists e, status S id c = Err e /\ only e (class_of k)
  end.

Ltac okc := reflexivity.
Ltac errc L := eexists; split; [reflexivity | exact L].

Lemma validate_swc_classified s :
  match swc_cause s with
  | None => validate_swc S s = Ok tt
  | Some k => exists e, validate_swc S s = Err e /\ only e (class_of k)
  end.
Proof.
  rewrite validate_swc_spec. unfold swc_cause, swc_wf.
  destruct (sw_mval s) as [m|], (sw_signer s) as [g|]; try destruct (hash_size m); try destruct (hash_size g); cbn [andb];
    first [okc | errc (only_wrap _ _ only_mand) | errc (only_wrap _ _ only_syntax)].
Qed.

Lemma values_classified l :
  match comps_cause l with
  | None => values S l = Ok (strip l)
  | Some k => exists e, values S l = Err e /\ only e (class_of k)
  end.
Proof.
  induction l as [|[s|] l IH]; cbn [comps_cause values].
  - reflexivity.
  - pose proof (validate_swc_classified s) as V. destruct (swc_cause s) as [k|].
    + destruct V as [e [V O]]. rewrite V. errc (only_wrap _ _ O).
    + rewrite V. destruct (comps_cause l) as [k|].
      * destruct IH as [e [R O]]. rewrite R. errc O.
      * rewrite IH. reflexivity.
  - errc only_syntax.
Qed.

Lemma classified_profile c : c_profile c <> Some PZero -> status_classified CProfile c.
Proof.
  intro NZ. unfold status_classified, cause_of, status, get_profile.
  destruct (c_kind c); destruct (c_profile c) as [[p|b|]|]; try congruence; cbn [forget];
    try (destruct (bytes_eqb p (c_canon c)); cbn [forget]);
    first [okc | errc (only_sent WrongProfile) | errc only_mand].
Qed.

Lemma classified_client c : status_classified CClient c.
Proof.
  unfold status_classified, cause_of, status, get_client.
  destruct (c_client c); cbn [forget]; first [okc | errc only_mand].
Qed.

Lemma classified_lc c : status_classified CLc c.
Proof.
  unfold status_classified, cause_of, status, get_lc.
  destruct (c_lc c) as [v|]; [rewrite validate_lc_spec; destruct (lc_page_ok v)|]; cbn [chk forget];
    first [okc | errc only_syntax | errc only_mand].
Qed.

Lemma classified_impl c : status_classified CImpl c.
Proof.
  unfold status_classified, cause_of, status, get_impl.
  destruct (c_impl c) as [v|]; [rewrite validate_impl_spec; destruct (blen v =? 32)|]; cbn [chk forget];
    first [okc | errc only_syntax | errc only_mand].
Qed.

Lemma classified_boot c : status_classified CBoot c.
Proof.
  unfold status_classified, cause_of, status, get_boot.
  destruct (c_boot c) as [v|]; [rewrite validate_boot_spec|]; destruct (c_kind c); cbn [chk forget];
    try match goal with |- context [if ?b then _ else _] => destruct b end; cbn [chk forget];
    first [okc | errc only_syntax | errc only_mand | errc only_opt].
Qed.

Lemma classified_cert c : status_classified CCert c.
Proof.
  unfold status_classified, cause_of, status, get_cert, validate_cert.
  destruct (c_cert c) as [v|]; [rewrite cert_ok_get_spec; destruct (cert_format (c_kind c) v)|]; cbn [chk forget];
    first [okc | errc only_syntax | errc only_opt].
Qed.

Lemma classified_nonce c : status_classified CNonce c.
Proof.
  unfold status_classified, cause_of, status, get_nonce.
  destruct (c_nonce c) as [[|n [|m l]]|]; [| rewrite validate_hash_spec; destruct (hash_size n) | |]; cbn [chk forget];
    first [okc | errc only_syntax | errc only_mand].
Qed.

Lemma classified_inst c : status_classified CInst c.
Proof.
  unfold status_classified, cause_of, status, get_inst.
  destruct (c_inst c) as [v|]; [rewrite validate_inst_spec|]; cbn [chk forget];
    try match goal with |- context [if ?b then _ else _] => destruct b end; cbn [chk forget];
    first [okc | errc only_syntax | errc only_mand].
Qed.

Lemma classified_vsi c : status_classified CVsi c.
Proof.
  unfold status_classified, cause_of, status, get_vsi, validate_vsi.
  destruct (c_vsi c) as [[|x v]|]; cbn [chk forget]; first [okc | errc only_syntax | errc only_opt].
Qed.

Lemma classified_swc c : status_classified CSwc c.
Proof.
  unfold status_classified, cause_of, status, get_swc, swc_empty, comps.
  destruct (c_swc c) as [[|o l]|]; destruct (c_kind c); destruct (c_nosw c); cbn [forget];
    try first [okc | errc only_syntax | errc only_mand];
    (pose proof (values_classified (o :: l)) as V; destruct (comps_cause (o :: l)) as [k|];
     [destruct V as [e [V O]]; rewrite V; errc O | rewrite V; reflexivity]).
Qed.

Theorem getter_classified id c : c_profile c <> Some PZero -> status_classified id c.
Proof.
  intro NZ. destruct id; auto using classified_profile, classified_client, classified_lc, classified_impl,
    classified_boot, classified_cert, classified_swc, classified_nonce, classified_inst, classified_vsi.
Qed.

(** the getter succeeds exactly when there is no cause (consistency with C01's predicate) *)
Lemma cause_none_iff_conf id c : c_profile c <> Some PZero ->
  (conf_of id c = true <-> (cause_of id c = None \/ cause_of id c = Some AbsentOptional)).
Proof.
  intro NZ. pose proof (getter_classified id c NZ) as G. unfold status_classified in G.
  destruct (status_all id c) as [[C F]|[C [e [St H]]]]; rewrite C; split; try congruence.
  - intros _. destruct (cause_of id c) as [k|]; [|auto]. destruct G as [e [St O]]. rewrite St in F.
    unfold filtered, filter_error in F. rewrite (O MissingOptional), (O NotInProfile) in F.
    destruct k; cbn in F; try discriminate. auto.
  - intros [N|N]; rewrite N in G.
    + rewrite St in G. discriminate.
    + destruct G as [e' [St' O]]. rewrite St in St'. injection St' as <-.
      destruct H as [H _]. rewrite (O MissingOptional) in H. discriminate.
Qed.

(** a failed validation reports exactly the class of the first offending claim *)
Theorem validate_error_classified c e :
  c_profile c <> Some PZero ->
  validate S c = Err e ->
  exists id k, cause_of id c = Some k /\ k <> AbsentOptional /\ only e (class_of k).
Proof.
  intros NZ V. destruct (validate_error_origin c e V) as (id & e0 & Cf & H & St & ->).
  pose proof (getter_classified id c NZ) as G. unfold status_classified in G.
  destruct (cause_of id c) as [k|] eqn:K; [|rewrite St in G; discriminate].
  destruct G as [e1 [St1 O]]. rewrite St in St1. injection St1 as <-.
  exists id, k. split; [exact K|]. split; [|apply only_wrap, O].
  intros ->. destruct H as [H _]. rewrite (O MissingOptional) in H. discriminate.
Qed.

(** * setters: a rejected value is a wrong-syntax error, nothing else *)

Lemma guarded_err c r c' e : snd (guarded c r c') = Err e -> r = Err e.
Proof. unfold guarded. destruct r as [[]| |]; cbn; congruence. Qed.

Theorem setter_error_class c e :
  (forall v, snd (set_lc S c v) = Err e -> only e WrongSyntax) /\
  (forall v, snd (set_impl S c v) = Err e -> only e WrongSyntax) /\
  (forall v, snd (set_boot S c v) = Err e -> only e WrongSyntax) /\
  (forall v, snd (set_cert S c v) = Err e -> only e WrongSyntax) /\
  (forall v, snd (set_nonce S c v) = Err e -> only e WrongSyntax) /\
  (forall v, snd (set_inst S c v) = Err e -> only e WrongSyntax) /\
  (forall v, snd (set_vsi c v) = Err e -> only e WrongSyntax).
Proof.
  repeat split; intros v H; apply guarded_err in H.
  - rewrite validate_lc_spec in H. destruct (lc_page_ok v); [discriminate|]. injection H as <-. apply only_syntax.
  - rewrite validate_impl_spec in H. destruct (blen v =? 32); [discriminate|]. injection H as <-. apply only_syntax.
  - rewrite validate_boot_spec in H. destruct (c_kind c);
      match type of H with (if ?b then _ else _) = _ => destruct b end; try discriminate; injection H as <-; apply only_syntax.
  - unfold validate_cert in H. destruct (cert_ok S (cert_set_set S (c_kind c)) v); [discriminate|]. injection H as <-. apply only_syntax.
  - rewrite validate_hash_spec in H. destruct (hash_size v); [discriminate|]. injection H as <-. apply only_syntax.
  - rewrite validate_inst_spec in H.
    match type of H with (if ?b then _ else _) = _ => destruct b end; try discriminate; injection H as <-; apply only_syntax.
  - unfold validate_vsi in H. destruct v; [|discriminate]. injection H as <-. apply only_syntax.
Qed.

Fixpoint list_cause (l : list swc) : option cause :=
  match l with
  | [] => None
  | s :: r => match swc_cause s with Some k => Some k | None => list_cause r end
  end.

Lemma validate_all_classified l :
  match list_cause l with
  | None => validate_all S l = Ok tt
  | Some k => exists e, validate_all S l = Err e /\ only e (class_of k)
  end.
Proof.
  induction l as [|s l IH]; cbn [list_cause validate_all]; [reflexivity|].
  pose proof (validate_swc_classified s) as V. destruct (swc_cause s) as [k|].
  - destruct V as [e [V O]]. rewrite V. errc (only_wrap _ _ O).
  - rewrite V. exact IH.
Qed.

(** SetSoftwareComponents fails with the class of the first malformed component *)
Theorem set_swc_error_class c v e :
  snd (set_swc S c v) = Err e ->
  exists k, list_cause (match v with Some l => l | None => [] end) = Some k /\ only e (class_of k).
Proof.
  unfold set_swc. destruct (c_kind c); destruct v as [l|]; cbn [snd]; try discriminate.
  - pose proof (validate_all_classified l) as V. destruct (list_cause l) as [k|].
    + destruct V as [e' [V O]]. rewrite V. cbn. intro H. injection H as <-. eauto.
    + rewrite V. discriminate.
  - pose proof (validate_all_classified l) as V. destruct (list_cause l) as [k|].
    + destruct V as [e' [V O]]. rewrite V. cbn. intro H. injection H as <-. eauto.
    + rewrite V. discriminate.
Qed.
