(** Round trip of the byte-level CBOR codec: decoding the encoding of any
    representable data item (within the nesting limit) gives the item back
    and consumes exactly its bytes. *)
From Coq Require Import Arith ZifyN ZifyBool ZifyNat.
From PSA Require Import Base Lines Cbor.
Open Scope N_scope.
Ltac Zify.zify_post_hook ::= Z.div_mod_to_equations.

Lemma to_N_byte_of_N n : n < 256 -> Byte.to_N (byte_of_N n) = n.
Proof.
  intro H. unfold byte_of_N. destruct (Byte.of_N n) as [b|] eqn:E.
  - apply Byte.to_of_N in E. exact E.
  - apply Byte.of_N_None_iff in E. lia.
Qed.

Lemma unbe_app l b : unbe (l ++ [b]) = unbe l * 256 + Byte.to_N b.
Proof. unfold unbe. rewrite fold_left_app. reflexivity. Qed.

Lemma be_length k n : length (be k n) = k.
Proof. revert n. induction k as [|k IH]; intro n; cbn [be]; [reflexivity|]. rewrite app_length, IH. cbn. lia. Qed.

Lemma unbe_be k : forall n, n < 256 ^ N.of_nat k -> unbe (be k n) = n.
Proof.
  induction k as [|k IH]; intros n H.
  - cbn in *. unfold unbe. cbn. lia.
  - cbn [be]. rewrite unbe_app, to_N_byte_of_N by (apply N.mod_lt; lia).
    rewrite IH.
    + pose proof (N.div_mod n 256). lia.
    + rewrite Nat2N.inj_succ, N.pow_succ_r' in H. apply N.div_lt_upper_bound; lia.
Qed.

Lemma take_app k (a r : bytes) : length a = k -> take k (a ++ r) = Some (a, r).
Proof.
  revert k. induction a as [|x a IH]; intros k L; subst k; cbn [length take app]; [reflexivity|].
  rewrite (IH (length a) eq_refl). reflexivity.
Qed.

Lemma at_least_le (b : bytes) : forall n, n <= blen b -> at_least b n = true.
Proof.
  induction b as [|x b IH]; intros n H; cbn [at_least].
  - unfold blen in H. cbn in H. apply N.eqb_eq. lia.
  - destruct (N.eqb_spec n 0); [reflexivity|]. apply IH. unfold blen in *. cbn [length] in H. lia.
Qed.

(** the additional-information value of the shortest head for [n] *)
Definition ai_of (n : N) : N :=
  if n <? 24 then n else if n <? 256 then 24 else if n <? 65536 then 25 else if n <? 4294967296 then 26 else 27.

Lemma first_byte m x : m < 8 -> x < 32 ->
  Byte.to_N (byte_of_N (m * 32 + x)) / 32 = m /\ Byte.to_N (byte_of_N (m * 32 + x)) mod 32 = x.
Proof. intros Hm Hx. rewrite to_N_byte_of_N by lia. split; lia. Qed.

Lemma parse_head_head m n r : m < 8 -> n < 2 ^ 64 ->
  parse_head (head m n ++ r) = Some (m, ai_of n, n, r).
Proof.
  intros Hm Hn. unfold head, ai_of.
  destruct (N.ltb_spec n 24) as [H24|H24].
  { cbn [app parse_head]. destruct (first_byte m n Hm) as [A B]; [lia|]. rewrite A, B.
    destruct (N.ltb_spec n 24); [reflexivity|lia]. }
  destruct (N.ltb_spec n 256) as [H8|H8].
  { cbn [app parse_head]. destruct (first_byte m 24 Hm) as [A B]; [lia|]. rewrite A, B. cbn -[be take].
    rewrite take_app by apply be_length. rewrite unbe_be by (cbn; lia). reflexivity. }
  destruct (N.ltb_spec n 65536) as [H16|H16].
  { cbn [app parse_head]. destruct (first_byte m 25 Hm) as [A B]; [lia|]. rewrite A, B. cbn -[be take].
    rewrite take_app by apply be_length. rewrite unbe_be by (cbn; lia). reflexivity. }
  destruct (N.ltb_spec n 4294967296) as [H32|H32].
  { cbn [app parse_head]. destruct (first_byte m 26 Hm) as [A B]; [lia|]. rewrite A, B. cbn -[be take].
    rewrite take_app by apply be_length. rewrite unbe_be by (cbn; lia). reflexivity. }
  cbn [app parse_head]. destruct (first_byte m 27 Hm) as [A B]; [lia|]. rewrite A, B. cbn -[be take].
  rewrite take_app by apply be_length. rewrite unbe_be by (cbn; lia). reflexivity.
Qed.

Lemma head_nonempty m n : (1 <= length (head m n))%nat.
Proof. unfold head. repeat match goal with |- context [if ?b then _ else _] => destruct b end; cbn; lia. Qed.

Lemma enc_nonempty c : (1 <= length (enc c))%nat.
Proof.
  destruct c; cbn [enc]; rewrite ?app_length; try (pose proof (head_nonempty 0 n); lia);
    try match goal with |- context [head ?m ?x] => pose proof (head_nonempty m x); lia end.
  - destruct (n <? 24); cbn; lia.
  - cbn. lia.
Qed.

Lemma flat_map_enc_length (l : list cbor) : (length l <= length (flat_map enc l))%nat.
Proof.
  induction l as [|x l IH]; cbn; [lia|]. rewrite app_length. pose proof (enc_nonempty x). lia.
Qed.

Lemma flat_map_pair_length (l : list (cbor * cbor)) :
  (2 * length l <= length (flat_map (fun kv => enc (fst kv) ++ enc (snd kv)) l))%nat.
Proof.
  induction l as [|x l IH]; cbn; [lia|]. rewrite !app_length.
  pose proof (enc_nonempty (fst x)). pose proof (enc_nonempty (snd x)). lia.
Qed.

Lemma parse_seq_ok {A} (p : bytes -> option (A * bytes)) (e : A -> bytes) (l : list A) :
  (forall x, In x l -> forall rest, p (e x ++ rest) = Some (x, rest)) ->
  forall rest, parse_seq p (length l) (flat_map e l ++ rest) = Some (l, rest).
Proof.
  induction l as [|x l IH]; intros H rest; cbn [length parse_seq flat_map]; [reflexivity|].
  rewrite <- app_assoc, H by (left; reflexivity).
  rewrite IH by (intros y Hy; apply H; right; exact Hy). reflexivity.
Qed.

Lemma max_le_l a b f : (Nat.max a b <= f -> a <= f)%nat. Proof. lia. Qed.
Lemma max_le_r a b f : (Nat.max a b <= f -> b <= f)%nat. Proof. lia. Qed.

Lemma parse_unfold (fuel : nat) (b : bytes) :
  parse fuel b =
  match parse_head b with
  | None => None
  | Some (major, ai, arg, r) =>
      match major with
      | 0 => Some (CUint arg, r)
      | 1 => Some (CNint arg, r)
      | 2 => if at_least r arg then
               match take (N.to_nat arg) r with Some (s, r') => Some (CBytes s, r') | None => None end
             else None
      | 3 => if at_least r arg then
               match take (N.to_nat arg) r with Some (s, r') => Some (CText s, r') | None => None end
             else None
      | 4 => match fuel with
             | O => None
             | S f => if at_least r arg then
                        match parse_seq (parse f) (N.to_nat arg) r with
                        | Some (l, r') => Some (CArray l, r')
                        | None => None
                        end
                      else None
             end
      | 5 => match fuel with
             | O => None
             | S f => if at_least r (2 * arg) then
                        match parse_seq (fun b0 => match parse f b0 with
                                                   | Some (k, b1) => match parse f b1 with
                                                                     | Some (v, b2) => Some ((k, v), b2)
                                                                     | None => None
                                                                     end
                                                   | None => None
                                                   end) (N.to_nat arg) r with
                        | Some (l, r') => Some (CMap l, r')
                        | None => None
                        end
                      else None
             end
      | 6 => match fuel with
             | O => None
             | S f => match parse f r with
                      | Some (c, r') => Some (CTag arg c, r')
                      | None => None
                      end
             end
      | _ => if ai <? 24 then Some (CSimple arg, r)
             else if ai =? 24 then (if arg <? 32 then None else Some (CSimple arg, r))
             else Some (CFloat (match ai with 25 => 2 | 26 => 4 | _ => 8 end) arg, r)
      end
  end.
Proof. destruct fuel; reflexivity. Qed.

(** size of a tree, for the induction *)
Fixpoint size (c : cbor) : nat :=
  match c with
  | CArray l => S (fold_right (fun x n => size x + n)%nat 0%nat l)
  | CMap l => S (fold_right (fun kv n => size (fst kv) + size (snd kv) + n)%nat 0%nat l)
  | CTag _ c' => S (size c')
  | _ => 1%nat
  end.

Theorem parse_enc_sized : forall (n : nat) (t : cbor) (fuel : nat) (rest : bytes),
  (size t <= n)%nat -> wf t -> (depth t <= fuel)%nat -> parse fuel (enc t ++ rest) = Some (t, rest).
Proof.
  induction n as [|n IH]; intros t fuel rest Hs Hw Hd.
  { destruct t; cbn in Hs; lia. }
  destruct t as [v|v|b|b|l|l|tg c|v|w bits]; cbn [enc wf depth size] in *; rewrite parse_unfold.
  - rewrite parse_head_head by lia. reflexivity.
  - rewrite parse_head_head by lia. reflexivity.
  - rewrite <- app_assoc, parse_head_head by lia. cbv iota.
    rewrite at_least_le by (unfold blen; rewrite app_length; lia).
    unfold blen. rewrite Nat2N.id, take_app by reflexivity. reflexivity.
  - rewrite <- app_assoc, parse_head_head by lia. cbv iota.
    rewrite at_least_le by (unfold blen; rewrite app_length; lia).
    unfold blen. rewrite Nat2N.id, take_app by reflexivity. reflexivity.
  - destruct Hw as [Hl Hw]. destruct fuel as [|f]; [lia|].
    rewrite <- app_assoc, parse_head_head by lia. cbv iota.
    pose proof (flat_map_enc_length l) as FL.
    rewrite at_least_le by (unfold blen; rewrite app_length; lia).
    rewrite Nat2N.id, (parse_seq_ok (parse f) enc l); [reflexivity|].
    intros x Hx r. apply IH.
    + clear - Hs Hx. induction l as [|y l IHl]; [destruct Hx|]. cbn in Hs. destruct Hx as [->|Hx]; [lia|]. apply IHl; [lia|exact Hx].
    + clear - Hw Hx. induction l as [|y l IHl]; [destruct Hx|]. cbn in Hw. destruct Hx as [->|Hx]; [tauto|]. apply IHl; tauto.
    + apply le_S_n in Hd. clear - Hd Hx. induction l as [|y l IHl]; [destruct Hx|]. cbn in Hd. destruct Hx as [->|Hx]; [lia|]. apply IHl; [lia|exact Hx].
  - destruct Hw as [Hl Hw]. destruct fuel as [|f]; [lia|].
    rewrite <- app_assoc, parse_head_head by lia. cbv iota.
    pose proof (flat_map_pair_length l) as FL.
    rewrite at_least_le by (unfold blen; rewrite app_length; lia).
    rewrite Nat2N.id.
    rewrite (parse_seq_ok _ (fun kv => enc (fst kv) ++ enc (snd kv)) l); [reflexivity|].
    intros [k v] Hx r. cbn [fst snd]. rewrite <- app_assoc.
    assert (size k + size v <= n)%nat as Sz.
    { clear - Hs Hx. induction l as [|y l IHl]; [destruct Hx|]. cbn in Hs. destruct Hx as [->|Hx]; [cbn in Hs; lia|]. apply IHl; [lia|exact Hx]. }
    assert (wf k /\ wf v) as [Wk Wv].
    { clear - Hw Hx. induction l as [|y l IHl]; [destruct Hx|]. cbn in Hw. destruct Hx as [->|Hx]; [cbn in Hw; tauto|]. apply IHl; tauto. }
    assert (depth k <= f /\ depth v <= f)%nat as [Dk Dv].
    { apply le_S_n in Hd. clear - Hd Hx. induction l as [|y l IHl]; [destruct Hx|]. cbn in Hd. destruct Hx as [->|Hx]; [cbn in Hd; lia|]. apply IHl; [lia|exact Hx]. }
    rewrite IH by (auto; lia). rewrite IH by (auto; lia). reflexivity.
  - destruct Hw as [Ht Hw]. destruct fuel as [|f]; [lia|].
    rewrite <- app_assoc, parse_head_head by lia. cbv iota.
    rewrite IH by (auto; lia). reflexivity.
  - destruct (N.ltb_spec v 24) as [H|H].
    + change [byte_of_N (224 + v)] with (head 7 v) || (unfold head; idtac).
      assert ([byte_of_N (224 + v)] = head 7 v) as -> by (unfold head; destruct (N.ltb_spec v 24); [reflexivity|lia]).
      rewrite parse_head_head by lia. unfold ai_of. destruct (N.ltb_spec v 24); [|lia]. cbv iota.
      destruct (N.ltb_spec v 24); [reflexivity|lia].
    + assert ([byte_of_N 248; byte_of_N v] = head 7 v) as ->.
      { unfold head. destruct (N.ltb_spec v 24); [lia|]. destruct (N.ltb_spec v 256); [|lia]. cbn [be app]. rewrite N.mod_small by lia. reflexivity. }
      rewrite parse_head_head by lia. unfold ai_of.
      destruct (N.ltb_spec v 24); [lia|]. destruct (N.ltb_spec v 256); [|lia]. cbv iota.
      cbn [N.ltb N.eqb N.compare Pos.compare Pos.compare_cont Pos.eqb].
      destruct (N.ltb_spec v 32); [lia|reflexivity].
  - destruct Hw as [Hwd Hb].
    destruct Hwd as [->|[->| ->]]; cbn [N.eqb Pos.eqb app N.to_nat Pos.to_nat Pos.iter_op Nat.add parse_head].
    + destruct (first_byte 7 25) as [A B]; [lia|lia|]. change 249 with (7 * 32 + 25). rewrite A, B. cbn -[take be].
      rewrite take_app by apply be_length. rewrite unbe_be by (cbn in *; lia). reflexivity.
    + destruct (first_byte 7 26) as [A B]; [lia|lia|]. change 250 with (7 * 32 + 26). rewrite A, B. cbn -[take be].
      rewrite take_app by apply be_length. rewrite unbe_be by (cbn in *; lia). reflexivity.
    + destruct (first_byte 7 27) as [A B]; [lia|lia|]. change 251 with (7 * 32 + 27). rewrite A, B. cbn -[take be].
      rewrite take_app by apply be_length. rewrite unbe_be by (cbn in *; lia). reflexivity.
Qed.

Theorem parse_enc (t : cbor) (fuel : nat) (rest : bytes) :
  wf t -> (depth t <= fuel)%nat -> parse fuel (enc t ++ rest) = Some (t, rest).
Proof. intros. apply (parse_enc_sized (size t)); auto. Qed.

Corollary parse_all_enc (t : cbor) : wf t -> (depth t <= max_nesting)%nat -> parse_all (enc t) = Some t.
Proof.
  intros W D. unfold parse_all. rewrite <- (app_nil_r (enc t)), parse_enc by assumption. reflexivity.
Qed.
