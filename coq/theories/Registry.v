(** profile.go / iclaims.go: the profile register (append-only map from
    names to profiles) and the dispatching decoders' choice of the claims
    implementation, for CBOR (key 265) and JSON (each entry's profile member). *)
From Coq Require Import String.
From PSA Require Import Base Lines Claims.
Open Scope N_scope.

Record entry := {
  en_key : bytes;        (* the name the profile is registered under ("" = default entry) *)
  en_name : bytes;       (* IProfile.GetName() *)
  en_kind : kind;        (* base profile of the claims implementation *)
  en_jtag : bytes;       (* JSON member name of its profile claim *)
  en_type : N            (* identifies the claims type it creates *)
}.

Definition registry := list entry.

Definition reg_lookup (reg : registry) (key : bytes) : option entry :=
  find (fun e => bytes_eqb (en_key e) key) reg.

(** registerProfileUnderName: [jtag = None] when the claims type has no identifiable profile field *)
Definition register (reg : registry) (key name : bytes) (k : kind) (jtag : option bytes) (ty : N) : registry * bool :=
  match reg_lookup reg key with
  | Some _ => (reg, false)                      (* already registered *)
  | None => match jtag with
            | None => (reg, false)              (* could not identify the profile field *)
            | Some t => (reg ++ [{| en_key := key; en_name := name; en_kind := k; en_jtag := t; en_type := ty |}], true)
            end
  end.

(** value found under a profile key / member *)
Inductive pval := PAbsent | PNull | PText (s : bytes) | POther.

(** DecodeClaimsFromCBOR: the selector reads key 265 as a Go string *)
Definition dispatch_cbor (reg : registry) (v265 : pval) : option entry :=
  match v265 with
  | PAbsent | PNull => reg_lookup reg []
  | PText s => reg_lookup reg s
  | POther => None
  end.

(** DecodeClaimsFromJSON (with the default-to-profile-1 repair): [members]
    gives the value of a member name; entries are visited in list order *)
Definition jmatches (members : bytes -> pval) (e : entry) : bool :=
  match members (en_jtag e) with PText s => bytes_eqb s (en_name e) | _ => false end.

Definition jpresent (members : bytes -> pval) (e : entry) : bool :=
  match members (en_jtag e) with PText _ | POther => true | _ => false end.

Definition dispatch_json (reg : registry) (members : bytes -> pval) : option entry :=
  match filter (jmatches members) reg with
  | [] => if existsb (jpresent members) reg then None else reg_lookup reg []
  | e :: r => if forallb (fun e' => bytes_eqb (en_name e') (en_name e)) r then Some e else None
  end.

(** the built-in register after package initialisation *)
Definition reg0 (p1 p2 : bytes) : registry :=
  [ {| en_key := []; en_name := p1; en_kind := K1; en_jtag := s2b "psa-profile"; en_type := 1 |};
    {| en_key := p1; en_name := p1; en_kind := K1; en_jtag := s2b "psa-profile"; en_type := 1 |};
    {| en_key := p2; en_name := p2; en_kind := K2; en_jtag := s2b "eat-profile"; en_type := 2 |} ].
