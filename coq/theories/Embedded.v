(** encoding/cbor.go, encoding/json.go, encoding/embedded.go: the ordered
    field map with its hand-rolled CBOR map header writer / reader, and the
    embedding-aware struct serialiser / populator over a family of struct
    shapes following the claims convention (pointer-typed fields). *)
From Coq Require Import String FMapPositive.
From PSA Require Import Base Lines Cbor Wire.
Open Scope N_scope.

(** * structFieldsCBOR: insertion-ordered map from int keys to raw CBOR *)

Definition fmap := list (Z * bytes).

Definition fm_has (m : fmap) (k : Z) : bool := existsb (fun kv => Z.eqb (fst kv) k) m.

Definition fm_add (m : fmap) (k : Z) (v : bytes) : option fmap :=
  if fm_has m k then None else Some (m ++ [(k, v)]).

Fixpoint fm_get (m : fmap) (k : Z) : option bytes :=
  match m with
  | [] => None
  | (k', v) :: r => if Z.eqb k' k then Some v else fm_get r k
  end.

Definition fm_delete (m : fmap) (k : Z) : fmap := filter (fun kv => negb (Z.eqb (fst kv) k)) m.

(** ToCBOR's hand-written header *)
Definition map_header (n : N) : bytes :=
  if n =? 0 then [xa0]
  else if n <? 24 then [byte_of_N (160 + n)]
  else if n <=? 255 then [byte_of_N 184; byte_of_N n]
  else if n <=? 65535 then byte_of_N 185 :: be 2 n
  else byte_of_N 186 :: be 4 (n mod 4294967296).

Definition to_cbor (m : fmap) : bytes :=
  map_header (N.of_nat (length m)) ++ flat_map (fun kv => enc (enc_int (fst kv)) ++ snd kv) m.

(** processAdditionalInfo: (length, rest); [None] = error; indefinite gives 0 *)
Definition process_ai (ai : N) (data : bytes) : option (N * bytes) :=
  if ai <? 24 then Some (ai, data)
  else if ai <? 28 then
    match ai with
    | 24 => match take 1 data with Some (a, r) => Some (unbe a, r) | None => None end
    | 25 => match take 2 data with Some (a, r) => Some (unbe a, r) | None => None end
    | 26 => match take 4 data with Some (a, r) => Some (unbe a, r) | None => None end
    | _ => None                                       (* 8-byte length not supported *)
    end
  else if ai =? 31 then Some (0, data)
  else None.

(** one key/value pair via dm.UnmarshalFirst: key into a Go int, value as the raw bytes of one item *)
(** encoded length of the first data item (the decoder's "skip"), without building it;
    [fuel] bounds the nesting *)
Fixpoint item_len (fuel : nat) (b : bytes) : option nat :=
  match fuel with
  | O => None
  | S f =>
      match parse_head b with
      | None => None
      | Some (major, ai, arg, r) =>
          let hl : nat := if ai =? 24 then 2%nat else if ai =? 25 then 3%nat else if ai =? 26 then 5%nat else if ai =? 27 then 9%nat else 1%nat in
          match major with
          | 2 | 3 => Some (hl + N.to_nat arg)%nat
          | 4 => (fix seq (n : nat) (r : bytes) (acc : nat) : option nat :=
                    match n with
                    | O => Some acc
                    | S k => match item_len f r with
                             | Some l => seq k (skipn l r) (acc + l)%nat
                             | None => None
                             end
                    end) (if at_least r arg then N.to_nat arg else 0%nat) r hl
          | 5 => (fix seq (n : nat) (r : bytes) (acc : nat) : option nat :=
                    match n with
                    | O => Some acc
                    | S k => match item_len f r with
                             | Some l => seq k (skipn l r) (acc + l)%nat
                             | None => None
                             end
                    end) (if at_least r (2 * arg) then N.to_nat (2 * arg) else 0%nat) r hl
          | 6 => match item_len f r with Some l => Some (hl + l)%nat | None => None end
          | _ => Some hl
          end
      end
  end.

(** the first item as a tree (validity) together with its raw bytes *)
Definition raw_first (b : bytes) : option (cbor * bytes * bytes) :=
  match parse_first b with
  | Some (t, _) =>
      match item_len 40 b with
      | Some l => Some (t, firstn l b, skipn l b)
      | None => None
      end
  | None => None
  end.

Definition key_as_int (t : cbor) : option Z :=
  if has_tag 40 t then None            (* tagged keys (bignums ...) are outside the model: treated as errors *)
  else dec_int 64 t.

(** keys seen so far are kept in a binary trie so that reading n pairs is not quadratic;
    the pairs are accumulated in reverse *)
Definition zpos (z : Z) : positive :=
  match z with Z0 => 1%positive | Zpos p => xO p | Zneg p => xI p end.

Definition seen := PositiveMap.t unit.

Definition read_pair (st : seen * fmap) (b : bytes) : option (seen * fmap * bytes) :=
  match raw_first b with
  | Some (kt, _, r1) =>
      match key_as_int kt with
      | Some k =>
          match raw_first r1 with
          | Some (_, raw, r2) =>
              if PositiveMap.mem (zpos k) (fst st) then None                 (* duplicate cbor key *)
              else Some (PositiveMap.add (zpos k) tt (fst st), (k, raw) :: snd st, r2)
          | None => None
          end
      | None => None
      end
  | None => None
  end.

Fixpoint read_pairs (n : nat) (st : seen * fmap) (b : bytes) : option (seen * fmap * bytes) :=
  match n with
  | O => Some (st, b)
  | S k => match read_pair st b with Some (st', b') => read_pairs k st' b' | None => None end
  end.

(** indefinite-length loop: until a 0xff byte; fuel = remaining input length *)
Fixpoint read_until_break (fuel : nat) (st : seen * fmap) (b : bytes) : option fmap :=
  match fuel with
  | O => None
  | S f =>
      match b with
      | [] => None                                     (* unexpected EOF *)
      | xff :: _ => Some (rev_append (snd st) [])
      | _ => match read_pair st b with Some (st', b') => read_until_break f st' b' | None => None end
      end
  end.

Definition st0 : seen * fmap := (PositiveMap.empty unit, []).

(** FromCBOR (with the fixes D2, D4, D7); also reports the size the map is pre-allocated with *)
Definition from_cbor_alloc (data : bytes) : option fmap * N :=
  match data with
  | [] => (None, 0)
  | h :: rest =>
      let v := Byte.to_N h in
      let major := v / 32 in
      let ai := v mod 32 in
      let after_tag : option (N * N * bytes) :=
        if major =? 6 then
          match process_ai ai rest with
          | Some (_, r) => match r with
                           | [] => None
                           | h2 :: r2 => let v2 := Byte.to_N h2 in Some (v2 / 32, v2 mod 32, r2)
                           end
          | None => None
          end
        else Some (major, ai, rest) in
      match after_tag with
      | None => (None, 0)
      | Some (mj, ai2, r) =>
          if negb (mj =? 5) then (None, 0)
          else match process_ai ai2 r with
               | None => (None, 0)
               | Some (len, r') =>
                   if ai2 =? 31 then (read_until_break (Datatypes.S (length r')) st0 r', 0)
                   else if negb (at_least r' (2 * len)) then (None, 0)
                   else (match read_pairs (N.to_nat len) st0 r' with Some (st, _) => Some (rev_append (snd st) []) | None => None end, len)
               end
      end
  end.

Definition from_cbor (data : bytes) : option fmap := fst (from_cbor_alloc data).

(** * struct shapes following the claims convention *)

Inductive pkind := KPInt | KPStr | KPBytes.           (* *int64, *string, *[]byte *)
Inductive fval := VNone | VInt (z : Z) | VStr (s : bytes) | VBytes (b : bytes).

Inductive item :=
| IFld (key : Z) (omitempty : bool) (k : pkind) (v : fval)    (* tagged field with its current value *)
| ISkip (v : fval)                                            (* tagged "-" or not tagged at all *)
| IEmb (s : list item)                                        (* embedded struct *)
| IEmbIface (s : option (list item)).                         (* embedded interface holding a struct pointer or nil *)

Definition marshal_val (v : fval) : bytes :=
  match v with
  | VNone => enc c_null
  | VInt z => enc (enc_int z)
  | VStr s => enc (CText s)
  | VBytes b => enc (CBytes b)
  end.

Definition is_zero (v : fval) : bool := match v with VNone => true | _ => false end.

(** doSerializeStructToCBOR: own tagged fields in order, then the embedded ones depth-first *)
Fixpoint ser_items (fuel : nat) (its : list item) (m : fmap) : option fmap :=
  match fuel with
  | O => None
  | S f =>
      let own := fix own (its : list item) (m : fmap) : option fmap :=
        match its with
        | [] => Some m
        | IFld key om _ v :: r =>
            if om && is_zero v then own r m
            else match fm_add m key (marshal_val v) with Some m' => own r m' | None => None end
        | _ :: r => own r m
        end in
      let embs := fix embs (its : list item) (m : fmap) : option fmap :=
        match its with
        | [] => Some m
        | IEmb s :: r => match ser_items f s m with Some m' => embs r m' | None => None end
        | IEmbIface (Some s) :: r => match ser_items f s m with Some m' => embs r m' | None => None end
        | _ :: r => embs r m
        end in
      match own its m with
      | Some m1 => embs its m1
      | None => None
      end
  end.

Definition serialize (its : list item) : option bytes :=
  match ser_items 16 its [] with Some m => Some (to_cbor m) | None => None end.

(** decoding a raw value into a pointer field of the given kind: [None] = error *)
Definition dec_field (k : pkind) (raw : bytes) : option fval :=
  match parse_all raw with
  | None => None
  | Some t =>
      if is_nil t then Some VNone
      else if has_tag 40 t then None                      (* outside the model *)
      else match k with
           | KPInt => match dec_int 64 t with Some z => Some (VInt z) | None => None end
           | KPStr => match dec_text t with Some s => Some (VStr s) | None => None end
           | KPBytes => match dec_bytes t with Some b => Some (VBytes b) | None => None end
           end
  end.

(** doPopulateStructFromCBOR into the same shape (values of the argument are overwritten) *)
Fixpoint pop_items (fuel : nat) (its : list item) (m : fmap) : option (list item * fmap) :=
  match fuel with
  | O => None
  | S f =>
      let own := fix own (its : list item) (m : fmap) : option (list item * fmap) :=
        match its with
        | [] => Some ([], m)
        | IFld key om k v :: r =>
            match fm_get m key with
            | None => if om then match own r m with Some (r', m') => Some (IFld key om k v :: r', m') | None => None end
                      else None                            (* missing mandatory field *)
            | Some raw =>
                match dec_field k raw with
                | Some v' => match own r (fm_delete m key) with
                             | Some (r', m') => Some (IFld key om k v' :: r', m')
                             | None => None
                             end
                | None => None
                end
            end
        | other :: r => match own r m with Some (r', m') => Some (other :: r', m') | None => None end
        end in
      let embs := fix embs (its : list item) (m : fmap) : option (list item * fmap) :=
        match its with
        | [] => Some ([], m)
        | IEmb s :: r =>
            match pop_items f s m with
            | Some (s', m1) => match embs r m1 with Some (r', m2) => Some (IEmb s' :: r', m2) | None => None end
            | None => None
            end
        | IEmbIface (Some s) :: r =>
            match pop_items f s m with
            | Some (s', m1) => match embs r m1 with Some (r', m2) => Some (IEmbIface (Some s') :: r', m2) | None => None end
            | None => None
            end
        | other :: r => match embs r m with Some (r', m') => Some (other :: r', m') | None => None end
        end in
      match own its m with
      | Some (its1, m1) => embs its1 m1
      | None => None
      end
  end.

Definition populate (data : bytes) (blank : list item) : option (list item) :=
  match from_cbor data with
  | Some m => match pop_items 16 blank m with Some (its, _) => Some its | None => None end
  | None => None
  end.
