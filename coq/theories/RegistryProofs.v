(** C16 / C07: the register is append-only, registration only affects tokens
    declaring the new profile, JSON dispatch does not depend on the order in
    which the register is visited, and decoded claims are judged under the
    profile that was selected. *)
From Coq Require Import Arith ZArith String Lia Permutation.
From PSA Require Import Base Lines Lifecycle Regex Claims ClaimsSpec ClaimsProofs Cbor Tags Wire Codec Registry SetterProofs CodecProofs.
From PSA.Spec Require Import SpecTables SpecTags.
Open Scope list_scope.
Open Scope N_scope.

Notation S := spec_ccfg.

(** * C16: registration *)

Theorem register_existing_fails_unchanged reg key name k jt ty e :
  reg_lookup reg key = Some e -> register reg key name k jt ty = (reg, false).
Proof. intro H. unfold register. rewrite H. reflexivity. Qed.

Theorem register_untagged_fails_unchanged reg key name k ty :
  register reg key name k None ty = (reg, false).
Proof. unfold register. destruct (reg_lookup reg key); reflexivity. Qed.

Theorem register_result reg key name k jt ty reg' b :
  register reg key name k jt ty = (reg', b) ->
  (b = false /\ reg' = reg) \/
  (b = true /\ reg_lookup reg key = None /\ exists t, jt = Some t /\
   reg' = reg ++ [{| en_key := key; en_name := name; en_kind := k; en_jtag := t; en_type := ty |}]).
Proof.
  unfold register. destruct (reg_lookup reg key) eqn:L; [intro H; injection H as <- <-; auto|].
  destruct jt as [t|]; intro H; injection H as <- <-; [right|left]; eauto 6.
Qed.

(** lookups are monotone: what was registered stays registered, unchanged *)
Theorem lookup_monotone reg e' key e : reg_lookup reg key = Some e -> reg_lookup (reg ++ [e']) key = Some e.
Proof.
  unfold reg_lookup. induction reg as [|x r IH]; cbn; [discriminate|].
  destruct (bytes_eqb (en_key x) key); [auto|exact IH].
Qed.

Lemma lookup_app_new reg e' key : reg_lookup reg key = None ->
  reg_lookup (reg ++ [e']) key = if bytes_eqb (en_key e') key then Some e' else None.
Proof.
  unfold reg_lookup. induction reg as [|x r IH]; cbn; [reflexivity|].
  destruct (bytes_eqb (en_key x) key); [discriminate|exact IH].
Qed.

(** a new registration changes CBOR dispatch only for tokens declaring exactly the new name *)
Theorem register_frame_cbor reg e' v :
  reg_lookup reg (en_key e') = None ->
  (forall s, v = PText s -> s <> en_key e') -> en_key e' <> [] ->
  dispatch_cbor (reg ++ [e']) v = dispatch_cbor reg v.
Proof.
  intros Fresh Hv Hne. unfold dispatch_cbor.
  assert (forall key, key <> en_key e' -> reg_lookup (reg ++ [e']) key = reg_lookup reg key) as L.
  { intros key Hk. destruct (reg_lookup reg key) as [e|] eqn:E; [apply lookup_monotone, E|].
    rewrite lookup_app_new by exact E. destruct (bytes_eqb (en_key e') key) eqn:B; [|reflexivity].
    apply bytes_eqb_eq in B. congruence. }
  destruct v as [| |s|]; try reflexivity; apply L; auto.
Qed.

(** ... and JSON dispatch only for tokens that carry the new profile's name
    under its profile member (or a member that only now is a profile claim) *)
Theorem register_frame_json reg e' members :
  jmatches members e' = false ->
  (jpresent members e' = false \/ existsb (jpresent members) reg = true) ->
  reg_lookup reg [] <> None -> en_key e' <> [] ->
  dispatch_json (reg ++ [e']) members = dispatch_json reg members.
Proof.
  intros M P D Hne. unfold dispatch_json. rewrite filter_app. cbn [filter]. rewrite M, app_nil_r.
  destruct (filter (jmatches members) reg) as [|e r]; [|reflexivity].
  rewrite existsb_app. cbn [existsb]. rewrite orb_false_r.
  destruct P as [P|P].
  - rewrite P, orb_false_r. destruct (existsb (jpresent members) reg); [reflexivity|].
    destruct (reg_lookup reg []) as [d|] eqn:E; [|congruence]. apply lookup_monotone, E.
  - rewrite P. reflexivity.
Qed.

(** * JSON dispatch does not depend on the iteration order of the register *)

Lemma filter_perm {A} (p : A -> bool) l l' : Permutation l l' -> Permutation (filter p l) (filter p l').
Proof.
  induction 1 as [|x l l' H IH|x y l|l l' l'' H1 IH1 H2 IH2]; cbn.
  - constructor.
  - destruct (p x); [constructor|]; exact IH.
  - destruct (p x), (p y); try constructor; apply Permutation_refl.
  - eapply Permutation_trans; eauto.
Qed.

Lemma existsb_perm {A} (p : A -> bool) l l' : Permutation l l' -> existsb p l = existsb p l'.
Proof.
  induction 1 as [|x l l' H IH|x y l|l l' l'' H1 IH1 H2 IH2]; cbn; try congruence.
  destruct (p x), (p y); reflexivity.
Qed.

Definition all_named (n : bytes) (l : list entry) : bool := forallb (fun e => bytes_eqb (en_name e) n) l.

Lemma all_named_perm n l l' : Permutation l l' -> all_named n l = all_named n l'.
Proof.
  unfold all_named. induction 1 as [|x l l' H IH|x y l|l l' l'' H1 IH1 H2 IH2]; cbn; try congruence.
  destruct (bytes_eqb (en_name x) n), (bytes_eqb (en_name y) n); reflexivity.
Qed.

(** the name of the selected profile ([None]: error) in closed form *)
Definition dispatch_json_name (reg : registry) (members : bytes -> pval) : option bytes :=
  match filter (jmatches members) reg with
  | [] => if existsb (jpresent members) reg then None else option_map en_name (reg_lookup reg [])
  | e :: r => if all_named (en_name e) (e :: r) then Some (en_name e) else None
  end.

Lemma dispatch_json_name_ok reg members :
  option_map en_name (dispatch_json reg members) = dispatch_json_name reg members.
Proof.
  unfold dispatch_json, dispatch_json_name. destruct (filter (jmatches members) reg) as [|e r].
  - destruct (existsb (jpresent members) reg); reflexivity.
  - unfold all_named. cbn [forallb]. rewrite bytes_eqb_refl. cbn [andb].
    destruct (forallb (fun e0 => bytes_eqb (en_name e0) (en_name e)) r); reflexivity.
Qed.

Lemma all_named_head l : forall e e', In e l -> In e' l -> all_named (en_name e) l = true -> en_name e' = en_name e.
Proof.
  intros e e' _ I' A. unfold all_named in A. rewrite forallb_forall in A. apply bytes_eqb_eq. apply A, I'.
Qed.

Theorem json_dispatch_order_independent reg reg' members :
  Permutation reg reg' ->
  (forall d d', In d reg -> In d' reg -> en_key d = [] -> en_key d' = [] -> en_name d = en_name d') ->
  dispatch_json_name reg' members = dispatch_json_name reg members.
Proof.
  intros P Def. unfold dispatch_json_name.
  pose proof (filter_perm (jmatches members) _ _ P) as FP.
  rewrite <- (existsb_perm (jpresent members) _ _ P).
  destruct (filter (jmatches members) reg) as [|e r] eqn:F; destruct (filter (jmatches members) reg') as [|e' r'] eqn:F'.
  - destruct (existsb (jpresent members) reg); [reflexivity|].
    (* the default entry: every entry registered under "" has the same profile name *)
    unfold reg_lookup.
    destruct (find (fun e => bytes_eqb (en_key e) []) reg) as [d|] eqn:E; destruct (find (fun e => bytes_eqb (en_key e) []) reg') as [d'|] eqn:E'; cbn.
    + apply find_some in E. apply find_some in E'. destruct E as [I K]. destruct E' as [I' K'].
      apply bytes_eqb_eq in K. apply bytes_eqb_eq in K'. f_equal.
      apply (Def d' d); auto. eapply Permutation_in; [apply Permutation_sym, P|exact I'].
    + exfalso. apply find_some in E. destruct E as [I K]. pose proof (find_none _ _ E' d (Permutation_in _ P I)) as X. cbv beta in X. rewrite K in X. discriminate.
    + exfalso. apply find_some in E'. destruct E' as [I K]. pose proof (find_none _ _ E d' (Permutation_in _ (Permutation_sym P) I)) as X. cbv beta in X. rewrite K in X. discriminate.
    + reflexivity.
  - apply Permutation_nil in FP. discriminate.
  - apply Permutation_sym, Permutation_nil in FP. discriminate.
  - rewrite (all_named_perm (en_name e') _ _ (Permutation_sym FP)).
    destruct (all_named (en_name e) (e :: r)) eqn:A; destruct (all_named (en_name e') (e :: r)) eqn:A'.
    + f_equal. apply (all_named_head (e :: r) e e'); auto; [left; reflexivity|]. eapply Permutation_in; [apply Permutation_sym, FP|left; reflexivity].
    + exfalso. unfold all_named in *. rewrite forallb_forall in A.
      assert (en_name e' = en_name e) as X. { apply bytes_eqb_eq, A. eapply Permutation_in; [apply Permutation_sym, FP|left; reflexivity]. }
      rewrite X in A'. rewrite (proj2 (forallb_forall _ _) A) in A'. discriminate.
    + exfalso. unfold all_named in *. rewrite forallb_forall in A'.
      assert (en_name e = en_name e') as X by (apply bytes_eqb_eq, A'; left; reflexivity).
      rewrite X in A. rewrite (proj2 (forallb_forall _ _) A') in A. discriminate.
    + reflexivity.
Qed.

(** * C07 *)

(** CBOR dispatch is a lookup of the declared name; no profile claim (or null) selects the default entry *)
Theorem dispatch_cbor_spec reg v :
  dispatch_cbor reg v = match v with
                        | PAbsent | PNull => reg_lookup reg []
                        | PText s => reg_lookup reg s
                        | POther => None
                        end.
Proof. reflexivity. Qed.

Theorem default_is_profile1 p1 p2 ext :
  reg_lookup (reg0 p1 p2 ++ ext) [] = Some {| en_key := []; en_name := p1; en_kind := K1; en_jtag := s2b "psa-profile"; en_type := 1 |}.
Proof. reflexivity. Qed.

Theorem unregistered_profile_is_error reg s members :
  (reg_lookup reg s = None -> dispatch_cbor reg (PText s) = None) /\
  (filter (jmatches members) reg = [] -> existsb (jpresent members) reg = true -> dispatch_json reg members = None).
Proof.
  split; [intro H; exact H|]. intros F P. unfold dispatch_json. rewrite F, P. reflexivity.
Qed.

(** decoding keeps the kind and the canonical profile of the claims type that was selected *)
Lemma set_claim_field_keeps swtags f v c c' :
  set_claim_field swtags f v c = Some c' -> c_kind c' = c_kind c /\ c_canon c' = c_canon c.
Proof.
  unfold set_claim_field. intro H.
  destruct (slot_of_name (f_name f)); destruct (kind_of_type (f_type f)); try discriminate H;
    repeat match type of H with
           | (if ?b then _ else _) = _ => destruct b
           | option_map _ ?o = _ => destruct o; cbn [option_map] in H
           | match ?x with _ => _ end = _ => destruct x
           end; try discriminate H; injection H as <-; split; reflexivity.
Qed.

Lemma dec_pairs_keeps tags swtags : forall kvs found c err,
  c_kind (fst (dec_pairs tags (set_claim_field swtags) kvs found c err)) = c_kind c /\
  c_canon (fst (dec_pairs tags (set_claim_field swtags) kvs found c err)) = c_canon c.
Proof.
  induction kvs as [|[k v] r IH]; intros found c err; cbn [dec_pairs]; [split; reflexivity|].
  destruct (classify_key k); try apply IH. destruct (zmem z found); [apply IH|].
  destruct (find_field tags z) as [f|]; [|apply IH].
  destruct (set_claim_field swtags f v c) as [c'|] eqn:E; [|apply IH].
  destruct (set_claim_field_keeps _ _ _ _ _ E) as [K Ca]. destruct (IH (z :: found) c' err) as [K' Ca']. split; congruence.
Qed.

Lemma decode_into_keeps tags swtags t c0 c :
  decode_into tags swtags t c0 = DOk c -> c_kind c = c_kind c0 /\ c_canon c = c_canon c0.
Proof.
  intro H. unfold decode_into in H. destruct t; try discriminate.
  destruct (unmodelled_pairs tags l); [discriminate|].
  match type of H with (if ?b then _ else _) = _ => destruct b end; [discriminate|].
  destruct (dec_pairs tags (set_claim_field swtags) l [] (upd_profile c0 None) false) as [c1 err] eqn:E.
  destruct err; [discriminate|]. injection H as <-.
  pose proof (dec_pairs_keeps tags swtags l [] (upd_profile c0 None) false) as K. rewrite E in K. exact K.
Qed.

Lemma decode_cbor_kind cc w b c : decode_cbor cc w b = DOk c ->
  (c_kind c = K1 /\ c_canon c = prof1 cc) \/ (c_kind c = K2 /\ c_canon c = prof2 cc).
Proof.
  unfold decode_cbor. destruct (parse_all b) as [t|]; [|discriminate].
  destruct (strip_tags t); try discriminate.
  destruct (decode_selector t) as [name| |]; try discriminate.
  match goal with |- (if ?x then _ else _) = _ -> _ => destruct x end.
  - intro D. left. apply decode_into_keeps in D. exact D.
  - destruct (bytes_eqb name (prof2 cc)); [|discriminate]. intro D. right. apply decode_into_keeps in D. exact D.
Qed.

(** an accepted token reports the profile it was selected and validated under *)
Theorem validated_under_declared b c :
  decode_cbor S W b = DOk c -> validate S c = Ok tt ->
  (c_kind c = K1 /\ c_canon c = prof1 S \/ c_kind c = K2 /\ c_canon c = prof2 S) /\ get_profile c = Ok (c_canon c).
Proof.
  intros D V. split; [exact (decode_cbor_kind S W b c D)|].
  destruct (getters_after_validate c V) as (_ & _ & _ & _ & _ & (p & P & ->) & _). exact P.
Qed.

(** NewClaims(p) reports p *)
Theorem new_claims_report_their_profile :
  get_profile (new_p1 S true) = Ok (prof1 S) /\ get_profile (new_p1 S false) = Ok (prof1 S) /\ get_profile (new_p2 S) = Ok (prof2 S).
Proof. repeat split; vm_compute; reflexivity. Qed.
