(** evidence.go: the Evidence state machine over structured COSE_Sign1
    messages with an idealised (symbolic) signature scheme.  The byte-level
    envelope is in Cose.v; here a token is (protected algorithm, payload,
    signature value). *)
From PSA Require Import Base Lines Lifecycle Regex Claims Cbor Tags Wire Codec.
Open Scope N_scope.

(** symbolic signature values: made by key [k] with algorithm [alg] over the
    to-be-signed bytes (determined by protected header and payload), or
    bytes that are no signature at all *)
Inductive sigv :=
| SigBy (k : N) (alg : Z) (prot_alg : option Z) (payload : bytes)
| SigJunk (id : N).

Definition opt_Z_eqb (a b : option Z) : bool :=
  match a, b with Some x, Some y => Z.eqb x y | None, None => true | _, _ => false end.

Definition sigv_eqb (a b : sigv) : bool :=
  match a, b with
  | SigBy k1 a1 p1 b1, SigBy k2 a2 p2 b2 => (k1 =? k2) && Z.eqb a1 a2 && opt_Z_eqb p1 p2 && bytes_eqb b1 b2
  | SigJunk i, SigJunk j => i =? j
  | _, _ => false
  end.

(** a COSE_Sign1 message as Evidence holds it *)
Record msg := {
  m_alg : option Z;               (* alg in the protected header *)
  m_payload : option bytes;
  m_sig : option sigv             (* None: no / empty signature *)
}.

Definition fresh_msg : msg := {| m_alg := None; m_payload := None; m_sig := None |}.

(** a token on the wire (what Sign returns / UnmarshalCOSE is given) *)
Inductive token :=
| Tok (alg : option Z) (payload : option bytes) (sig : option sigv)
| TokGarbage.                      (* not a decodable COSE_Sign1 *)

Record ev := { e_claims : option claims; e_msg : option msg }.

(** signers: key, algorithm the signer reports, and behaviour *)
Inductive sbehaviour := SignsOk | SignFails | SignsEmpty.
Record signer := { sg_key : N; sg_alg : Z; sg_beh : sbehaviour }.

(** algorithms go-cose can verify with, and the key type each needs:
    here keys are numbered and [key_alg k] is the one algorithm key k fits *)
Section Ev.
Variable cc : ccfg.
Variable w : wcfg.
Variable key_alg : N -> Z.            (* the algorithm a key pair is made for *)
Variable alg_known : Z -> bool.       (* algorithms go-cose supports *)

Inductive eop :=
| ESetClaims (c : claims)
| EMutate (c : claims)            (* the caller changes the attached claims object behind the Evidence's back *)
| ESign (validating : bool) (s : signer)
| EDecode (t : token)
| EVerify (k : N).

Inductive eout := OutErr | OutOk | OutTok (t : token).

Definition do_sign (c : option claims) (payload : bytes) (s : signer) : ev * eout :=
  (* message: fresh, payload set, algorithm set; then message.Sign *)
  let m0 := {| m_alg := Some (sg_alg s); m_payload := Some payload; m_sig := None |} in
  match sg_beh s with
  | SignFails => ({| e_claims := c; e_msg := Some m0 |}, OutErr)
  | SignsEmpty => ({| e_claims := c; e_msg := Some m0 |}, OutErr)           (* ErrEmptySignature when marshalling *)
  | SignsOk =>
      let sg := SigBy (sg_key s) (sg_alg s) (Some (sg_alg s)) payload in
      let m := {| m_alg := Some (sg_alg s); m_payload := Some payload; m_sig := Some sg |} in
      ({| e_claims := c; e_msg := Some m |}, OutTok (Tok (Some (sg_alg s)) (Some payload) (Some sg)))
  end.

Definition step (e : ev) (o : eop) : ev * eout :=
  match o with
  | ESetClaims c =>
      match validate cc c with
      | Ok _ => ({| e_claims := Some c; e_msg := e_msg e |}, OutOk)
      | _ => (e, OutErr)
      end
  | EMutate c => ({| e_claims := Some c; e_msg := e_msg e |}, OutOk)
  | ESign validating s =>
      let e0 := {| e_claims := e_claims e; e_msg := Some fresh_msg |} in
      match e_claims e with
      | None => (e0, OutErr)      (* outside the domain (Sign encodes null, ValidateAndSign panics) *)
      | Some c =>
          if validating && negb (is_ok (validate cc c)) then (e0, OutErr)
          else match encode_cbor w c with
               | None => (e0, OutErr)
               | Some payload => do_sign (Some c) payload s
               end
      end
  | EDecode t =>
      match t with
      | TokGarbage => ({| e_claims := e_claims e; e_msg := Some fresh_msg |}, OutErr)
      | Tok alg payload sg =>
          match sg with
          | None => ({| e_claims := e_claims e; e_msg := Some fresh_msg |}, OutErr)   (* empty signature: envelope rejected *)
          | Some _ =>
              let m := {| m_alg := alg; m_payload := payload; m_sig := sg |} in
              match payload with
              | None => ({| e_claims := None; e_msg := Some m |}, OutErr)
              | Some p =>
                  match decode_cbor cc w p with
                  | DOk c => ({| e_claims := Some c; e_msg := Some m |}, OutOk)
                  | _ => ({| e_claims := None; e_msg := Some m |}, OutErr)
                  end
              end
          end
      end
  | EVerify k =>
      (e, match e_msg e with
          | None => OutErr
          | Some m =>
              match m_alg m, m_payload m, m_sig m with
              | Some a, Some p, Some sg =>
                  if alg_known a && Z.eqb (key_alg k) a &&
                     sigv_eqb sg (SigBy k a (m_alg m) p)
                  then OutOk else OutErr
              | _, _, _ => OutErr
              end
          end)
  end.

Fixpoint run (e : ev) (ops : list eop) : ev * list eout :=
  match ops with
  | [] => (e, [])
  | o :: r => let '(e1, out) := step e o in
              let '(e2, outs) := run e1 r in (e2, out :: outs)
  end.

Definition verify_ok (e : ev) (k : N) : bool :=
  match snd (step e (EVerify k)) with OutOk => true | _ => false end.

End Ev.
