(** claims_p1.go, claims_p2.go, swcomponent.go, swcomponents.go,
    iswcomponent.go, iclaims.go (ValidateClaims): claims-sets of both
    built-in profiles as one record with a [kind], getters, validators,
    validation walk and setters, parameterised by a table of constants. *)
From PSA Require Import Base Lifecycle Regex.
Open Scope N_scope.

Inductive kind := K1 | K2.

(** value of the profile claim: P1's *string, or P2's *eat.Profile, which
    holds a URL (its Get() string), an OID, or nothing (the zero value) *)
Inductive profv := PStr (s : bytes) | POid (b : bytes) | PZero.

Record swc := {
  sw_mtype : option bytes;
  sw_mval : option bytes;
  sw_version : option bytes;
  sw_signer : option bytes;
  sw_mdesc : option bytes
}.

Record claims := {
  c_kind : kind;
  c_profile : option profv;
  c_client : option Z;
  c_lc : option N;
  c_impl : option bytes;
  c_boot : option bytes;
  c_cert : option bytes;
  c_swc : option (list (option swc));  (* None: nil container; inner None: nil element *)
  c_nosw : option N;                   (* P1 only *)
  c_nonce : option (list bytes);       (* P1: always one entry; P2: eat.Nonce *)
  c_inst : option bytes;
  c_vsi : option bytes;
  c_canon : bytes                      (* CanonicalProfile *)
}.

Inductive claimid := CProfile | CClient | CLc | CImpl | CBoot | CCert | CSwc | CNonce | CInst | CVsi.
Inductive fieldid := FMtype | FMval | FVersion | FSigner | FMdesc.
Inductive reid := RE1 | RE2.

Record ccfg := {
  impl_len : N; inst_len : N; inst_type : N; hash_lens : list N;
  boot1_min : N; boot1_max : N; boot2_min : N; boot2_max : N;
  cc_lc : lc_cfg;
  re1 : list atom; re2 : list atom;
  cert_get1 : list reid; cert_set1 : list reid; cert_get2 : list reid; cert_set2 : list reid;
  vorder : list claimid; sworder : list fieldid;
  prof1 : bytes; prof2 : bytes
}.

Section WithCfg.
Variable cfg : ccfg.

Definition in_N (n : N) (l : list N) : bool := existsb (N.eqb n) l.

Definition validate_hash (b : bytes) : res unit :=
  if in_N (blen b) (hash_lens cfg) then Ok tt else Err e_syntax.

Definition validate_impl (b : bytes) : res unit :=
  if blen b =? impl_len cfg then Ok tt else Err e_syntax.

Definition validate_inst (b : bytes) : res unit :=
  if negb (blen b =? inst_len cfg) then Err e_syntax
  else match b with
       | [] => Panic                                   (* v[0] on an empty slice *)
       | x :: _ => if Byte.to_N x =? inst_type cfg then Ok tt else Err e_syntax
       end.

Definition validate_vsi (b : bytes) : res unit :=
  match b with [] => Err e_syntax | _ => Ok tt end.

Definition validate_boot (k : kind) (b : bytes) : res unit :=
  let l := blen b in
  match k with
  | K1 => if (l <? boot1_min cfg) || (boot1_max cfg <? l) then Err e_syntax else Ok tt
  | K2 => if (l <? boot2_min cfg) || (boot2_max cfg <? l) then Err e_syntax else Ok tt
  end.

Definition re_of (r : reid) : list atom := match r with RE1 => re1 cfg | RE2 => re2 cfg end.

Definition cert_ok (rs : list reid) (s : bytes) : bool :=
  existsb (fun r => re_match (re_of r) s) rs.

Definition validate_cert (rs : list reid) (s : bytes) : res unit :=
  if cert_ok rs s then Ok tt else Err e_syntax.

Definition cert_get_set (k : kind) : list reid := match k with K1 => cert_get1 cfg | K2 => cert_get2 cfg end.
Definition cert_set_set (k : kind) : list reid := match k with K1 => cert_set1 cfg | K2 => cert_set2 cfg end.

Definition chk {A} (r : res unit) (v : A) : res A :=
  match r with Ok _ => Ok v | Err e => Err e | Panic => Panic end.

(** * Software component *)

Definition sw_get_mtype (s : swc) : res bytes := match sw_mtype s with None => Err e_opt | Some v => Ok v end.
Definition sw_get_version (s : swc) : res bytes := match sw_version s with None => Err e_opt | Some v => Ok v end.
Definition sw_get_mdesc (s : swc) : res bytes := match sw_mdesc s with None => Err e_opt | Some v => Ok v end.
Definition sw_get_mval (s : swc) : res bytes :=
  match sw_mval s with None => Err e_mand | Some v => chk (validate_hash v) v end.
Definition sw_get_signer (s : swc) : res bytes :=
  match sw_signer s with None => Err e_mand | Some v => chk (validate_hash v) v end.

Definition forget {A} (r : res A) : res unit :=
  match r with Ok _ => Ok tt | Err e => Err e | Panic => Panic end.

Definition sw_status (f : fieldid) (s : swc) : res unit :=
  match f with
  | FMtype => forget (sw_get_mtype s)
  | FMval => forget (sw_get_mval s)
  | FVersion => forget (sw_get_version s)
  | FSigner => forget (sw_get_signer s)
  | FMdesc => forget (sw_get_mdesc s)
  end.

(** one step of "if err := FilterError(getter()); err != nil { return fmt.Errorf("..%w", err) }" *)
Definition filtered (r : res unit) : res unit :=
  match r with
  | Ok _ => Ok tt
  | Panic => Panic
  | Err e => match filter_error (Some e) with None => Ok tt | Some e' => Err (wrap1 e') end
  end.

Fixpoint walk {I} (status : I -> res unit) (order : list I) : res unit :=
  match order with
  | [] => Ok tt
  | i :: r => match filtered (status i) with
              | Ok _ => walk status r
              | other => other
              end
  end.

Definition validate_swc (s : swc) : res unit := walk (fun f => sw_status f s) (sworder cfg).

(** SwComponents.Values (with the nil-element check): every element is
    validated; the result is the list of elements *)
Fixpoint values (l : list (option swc)) : res (list swc) :=
  match l with
  | [] => Ok []
  | None :: _ => Err e_syntax
  | Some s :: r =>
      match validate_swc s with
      | Ok _ => match values r with Ok vs => Ok (s :: vs) | other => other end
      | Err e => Err (wrap1 e)
      | Panic => Panic
      end
  end.

(** * Getters *)

Definition get_profile (c : claims) : res bytes :=
  match c_kind c, c_profile c with
  | K1, None => Ok (c_canon c)
  | K1, Some (PStr p) => if bytes_eqb p (c_canon c) then Ok p else Err (wrap1 (ESent WrongProfile))
  | K1, Some _ => Err (wrap1 (ESent WrongProfile))          (* not representable for P1 *)
  | K2, None => Err e_mand
  | K2, Some PZero => Err EOpaque                            (* eat.Profile.Get on the zero value *)
  | K2, Some (PStr p) => if bytes_eqb p (c_canon c) then Ok p else Err (wrap1 (ESent WrongProfile))
  | K2, Some (POid _) => Err (wrap1 (ESent WrongProfile))
  end.

Definition get_client (c : claims) : res Z :=
  match c_client c with None => Err e_mand | Some v => Ok v end.

Definition get_lc (c : claims) : res N :=
  match c_lc c with None => Err e_mand | Some v => chk (validate_lc (cc_lc cfg) v) v end.

Definition get_impl (c : claims) : res bytes :=
  match c_impl c with None => Err e_mand | Some v => chk (validate_impl v) v end.

Definition get_boot (c : claims) : res bytes :=
  match c_boot c with
  | None => match c_kind c with K1 => Err e_mand | K2 => Err e_opt end
  | Some v => chk (validate_boot (c_kind c) v) v
  end.

Definition get_cert (c : claims) : res bytes :=
  match c_cert c with None => Err e_opt | Some v => chk (validate_cert (cert_get_set (c_kind c)) v) v end.

Definition swc_empty (c : claims) : bool :=
  match c_swc c with None | Some [] => true | _ => false end.

Definition get_swc (c : claims) : res (list swc) :=
  match c_kind c with
  | K1 =>
      if swc_empty c then
        match c_nosw c with None => Err e_mand | Some _ => Ok [] end
      else
        match c_nosw c with
        | Some _ => Err e_syntax
        | None => match c_swc c with Some l => values l | None => Ok [] end
        end
  | K2 =>
      if swc_empty c then Err e_mand
      else match c_swc c with Some l => values l | None => Ok [] end
  end.

Definition get_nonce (c : claims) : res bytes :=
  match c_nonce c with
  | None => Err e_mand
  | Some [n] => chk (validate_hash n) n
  | Some _ => Err e_syntax
  end.

Definition get_inst (c : claims) : res bytes :=
  match c_inst c with None => Err e_mand | Some v => chk (validate_inst v) v end.

Definition get_vsi (c : claims) : res bytes :=
  match c_vsi c with None => Err e_opt | Some v => chk (validate_vsi v) v end.

Definition status (id : claimid) (c : claims) : res unit :=
  match id with
  | CProfile => forget (get_profile c)
  | CClient => forget (get_client c)
  | CLc => forget (get_lc c)
  | CImpl => forget (get_impl c)
  | CBoot => forget (get_boot c)
  | CCert => forget (get_cert c)
  | CSwc => forget (get_swc c)
  | CNonce => forget (get_nonce c)
  | CInst => forget (get_inst c)
  | CVsi => forget (get_vsi c)
  end.

(** ValidateClaims *)
Definition validate (c : claims) : res unit := walk (fun id => status id c) (vorder cfg).

(** * Setters: new claims-set and the returned error *)

Definition upd_profile c v := {| c_kind := c_kind c; c_profile := v; c_client := c_client c; c_lc := c_lc c; c_impl := c_impl c; c_boot := c_boot c; c_cert := c_cert c; c_swc := c_swc c; c_nosw := c_nosw c; c_nonce := c_nonce c; c_inst := c_inst c; c_vsi := c_vsi c; c_canon := c_canon c |}.
Definition upd_client c v := {| c_kind := c_kind c; c_profile := c_profile c; c_client := v; c_lc := c_lc c; c_impl := c_impl c; c_boot := c_boot c; c_cert := c_cert c; c_swc := c_swc c; c_nosw := c_nosw c; c_nonce := c_nonce c; c_inst := c_inst c; c_vsi := c_vsi c; c_canon := c_canon c |}.
Definition upd_lc c v := {| c_kind := c_kind c; c_profile := c_profile c; c_client := c_client c; c_lc := v; c_impl := c_impl c; c_boot := c_boot c; c_cert := c_cert c; c_swc := c_swc c; c_nosw := c_nosw c; c_nonce := c_nonce c; c_inst := c_inst c; c_vsi := c_vsi c; c_canon := c_canon c |}.
Definition upd_impl c v := {| c_kind := c_kind c; c_profile := c_profile c; c_client := c_client c; c_lc := c_lc c; c_impl := v; c_boot := c_boot c; c_cert := c_cert c; c_swc := c_swc c; c_nosw := c_nosw c; c_nonce := c_nonce c; c_inst := c_inst c; c_vsi := c_vsi c; c_canon := c_canon c |}.
Definition upd_boot c v := {| c_kind := c_kind c; c_profile := c_profile c; c_client := c_client c; c_lc := c_lc c; c_impl := c_impl c; c_boot := v; c_cert := c_cert c; c_swc := c_swc c; c_nosw := c_nosw c; c_nonce := c_nonce c; c_inst := c_inst c; c_vsi := c_vsi c; c_canon := c_canon c |}.
Definition upd_cert c v := {| c_kind := c_kind c; c_profile := c_profile c; c_client := c_client c; c_lc := c_lc c; c_impl := c_impl c; c_boot := c_boot c; c_cert := v; c_swc := c_swc c; c_nosw := c_nosw c; c_nonce := c_nonce c; c_inst := c_inst c; c_vsi := c_vsi c; c_canon := c_canon c |}.
Definition upd_swc c v w := {| c_kind := c_kind c; c_profile := c_profile c; c_client := c_client c; c_lc := c_lc c; c_impl := c_impl c; c_boot := c_boot c; c_cert := c_cert c; c_swc := v; c_nosw := w; c_nonce := c_nonce c; c_inst := c_inst c; c_vsi := c_vsi c; c_canon := c_canon c |}.
Definition upd_nonce c v := {| c_kind := c_kind c; c_profile := c_profile c; c_client := c_client c; c_lc := c_lc c; c_impl := c_impl c; c_boot := c_boot c; c_cert := c_cert c; c_swc := c_swc c; c_nosw := c_nosw c; c_nonce := v; c_inst := c_inst c; c_vsi := c_vsi c; c_canon := c_canon c |}.
Definition upd_inst c v := {| c_kind := c_kind c; c_profile := c_profile c; c_client := c_client c; c_lc := c_lc c; c_impl := c_impl c; c_boot := c_boot c; c_cert := c_cert c; c_swc := c_swc c; c_nosw := c_nosw c; c_nonce := c_nonce c; c_inst := v; c_vsi := c_vsi c; c_canon := c_canon c |}.
Definition upd_vsi c v := {| c_kind := c_kind c; c_profile := c_profile c; c_client := c_client c; c_lc := c_lc c; c_impl := c_impl c; c_boot := c_boot c; c_cert := c_cert c; c_swc := c_swc c; c_nosw := c_nosw c; c_nonce := c_nonce c; c_inst := c_inst c; c_vsi := v; c_canon := c_canon c |}.

Definition guarded (c : claims) (r : res unit) (c' : claims) : claims * res unit :=
  match r with Ok _ => (c', Ok tt) | other => (c, other) end.

Definition set_client (c : claims) (v : Z) : claims * res unit := (upd_client c (Some v), Ok tt).
Definition set_lc (c : claims) (v : N) := guarded c (validate_lc (cc_lc cfg) v) (upd_lc c (Some v)).
Definition set_impl (c : claims) (v : bytes) := guarded c (validate_impl v) (upd_impl c (Some v)).
Definition set_boot (c : claims) (v : bytes) := guarded c (validate_boot (c_kind c) v) (upd_boot c (Some v)).
Definition set_cert (c : claims) (v : bytes) := guarded c (validate_cert (cert_set_set (c_kind c)) v) (upd_cert c (Some v)).
Definition set_nonce (c : claims) (v : bytes) := guarded c (validate_hash v) (upd_nonce c (Some [v])).
Definition set_inst (c : claims) (v : bytes) := guarded c (validate_inst v) (upd_inst c (Some v)).
Definition set_vsi (c : claims) (v : bytes) := guarded c (validate_vsi v) (upd_vsi c (Some v)).

(** validateAndConvert: every supplied component must validate *)
Fixpoint validate_all (l : list swc) : res unit :=
  match l with
  | [] => Ok tt
  | s :: r => match validate_swc s with
              | Ok _ => validate_all r
              | Err e => Err (wrap1 e)
              | Panic => Panic
              end
  end.

(** SetSoftwareComponents; [None] is a nil slice *)
Definition set_swc (c : claims) (v : option (list swc)) : claims * res unit :=
  match c_kind c, v with
  | K1, None => (upd_swc c None (Some 1), Ok tt)
  | K1, Some l =>
      let c0 := match c_swc c with None => upd_swc c (Some []) (c_nosw c) | Some _ => c end in
      match validate_all l with
      | Ok _ => (upd_swc c0 (Some (map Some l)) None, Ok tt)
      | other => (c0, other)
      end
  | K2, _ =>
      let l := match v with Some l => l | None => [] end in
      let c0 := match c_swc c with None => upd_swc c (Some []) (c_nosw c) | Some _ => c end in
      match validate_all l with
      | Ok _ => (upd_swc c0 (Some (map Some l)) (c_nosw c0), Ok tt)
      | other => (c0, other)
      end
  end.

(** SwComponent setters *)
Definition sw_set_mval (s : swc) (v : bytes) : swc * res unit :=
  match validate_hash v with
  | Ok _ => ({| sw_mtype := sw_mtype s; sw_mval := Some v; sw_version := sw_version s; sw_signer := sw_signer s; sw_mdesc := sw_mdesc s |}, Ok tt)
  | other => (s, other)
  end.
Definition sw_set_signer (s : swc) (v : bytes) : swc * res unit :=
  match validate_hash v with
  | Ok _ => ({| sw_mtype := sw_mtype s; sw_mval := sw_mval s; sw_version := sw_version s; sw_signer := Some v; sw_mdesc := sw_mdesc s |}, Ok tt)
  | other => (s, other)
  end.
Definition sw_set_mtype (s : swc) (v : bytes) : swc * res unit :=
  ({| sw_mtype := Some v; sw_mval := sw_mval s; sw_version := sw_version s; sw_signer := sw_signer s; sw_mdesc := sw_mdesc s |}, Ok tt).
Definition sw_set_version (s : swc) (v : bytes) : swc * res unit :=
  ({| sw_mtype := sw_mtype s; sw_mval := sw_mval s; sw_version := Some v; sw_signer := sw_signer s; sw_mdesc := sw_mdesc s |}, Ok tt).
Definition sw_set_mdesc (s : swc) (v : bytes) : swc * res unit :=
  ({| sw_mtype := sw_mtype s; sw_mval := sw_mval s; sw_version := sw_version s; sw_signer := sw_signer s; sw_mdesc := Some v |}, Ok tt).

(** constructors: newP1Claims(true/false), newP2Claims *)
Definition new_p1 (include_profile : bool) : claims :=
  {| c_kind := K1; c_profile := if include_profile then Some (PStr (prof1 cfg)) else None;
     c_client := None; c_lc := None; c_impl := None; c_boot := None; c_cert := None;
     c_swc := Some []; c_nosw := None; c_nonce := None; c_inst := None; c_vsi := None;
     c_canon := prof1 cfg |}.
Definition new_p2 : claims :=
  {| c_kind := K2; c_profile := Some (PStr (prof2 cfg));
     c_client := None; c_lc := None; c_impl := None; c_boot := None; c_cert := None;
     c_swc := Some []; c_nosw := None; c_nonce := None; c_inst := None; c_vsi := None;
     c_canon := prof2 cfg |}.


(** setter calls as first-class operations, and histories of them *)
Inductive sop :=
| OClient (v : Z) | OLc (v : N) | OImpl (v : bytes) | OBoot (v : bytes) | OCert (v : bytes)
| ONonce (v : bytes) | OInst (v : bytes) | OVsi (v : bytes) | OSwc (v : option (list swc)).

Definition apply_sop (c : claims) (o : sop) : claims * res unit :=
  match o with
  | OClient v => set_client c v | OLc v => set_lc c v | OImpl v => set_impl c v | OBoot v => set_boot c v
  | OCert v => set_cert c v | ONonce v => set_nonce c v | OInst v => set_inst c v | OVsi v => set_vsi c v
  | OSwc v => set_swc c v
  end.

Definition run_sops (ops : list sop) (c : claims) : claims :=
  fold_left (fun c o => fst (apply_sop c o)) ops c.

End WithCfg.
