(** Runner for C14 cases:  "C14 <v> <pre>"  (pre = "_" or a value already
    stored in the claims-set before the setter is called). *)
From Coq Require Import String.
From PSA Require Import Base Lines Lifecycle Regex Claims Obs CaseClaims.
Open Scope N_scope.

Definition c14_profile (cfg : ccfg) (c0 : claims) (v : N) (pre : option N) : list bytes :=
  let '(c1, r) := set_lc cfg (upd_lc c0 pre) v in
  [ tok_res_unit r; tok_opt_N (c_lc c1); tok_res_N (get_lc cfg (upd_lc c0 (Some v))) ].

Definition run_c14 (cfg : ccfg) (args : list bytes) : bytes :=
  match args with
  | [tv; tp] =>
      match parse_N tv, parse_opt_N tp with
      | Some v, Some pre =>
          let st := lc_to_state (cc_lc cfg) v in
          join_sp ([ dec_of_N st; hex_of (lc_state_name (cc_lc cfg) st);
                     bool_tok (lc_is_valid (cc_lc cfg) st);
                     tok_res_unit (validate_lc (cc_lc cfg) v) ]
                   ++ c14_profile cfg (new_p1 cfg true) v pre
                   ++ c14_profile cfg (new_p2 cfg) v pre)
      | _, _ => bad_input
      end
  | _ => bad_input
  end.
