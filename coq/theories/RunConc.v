(** Runner for concurrent read-side histories (see harness/conc.go):
      CONC <ks> <13 claims tokens> T<k> <op>* | T<k> <op>* | ...
    The model executes the threads under the sequential schedule of Conc.v;
    by ConcProofs.complete_schedules_agree every complete interleaving gives
    the same outputs. *)
From Coq Require Import String.
From PSA Require Import Base Lines Lifecycle Regex Claims Cbor Tags Wire Codec Evidence Gates Json JsonCodec Purity Obs CaseClaims RunHist RunEv RunPur Conc.
Open Scope N_scope.

(** abbreviate long result values: <length>:<first 24>..<last 8> *)
Definition compact (b : bytes) : bytes :=
  let n := length b in
  if Nat.leb n 40 then b
  else dec_of_N (N.of_nat n) ++ s2b ":" ++ firstn 24 b ++ s2b ".." ++ skipn (n - 8) b.

(** calls on a thread's own objects *)
Inductive wop := WRead (o : rop) | WNew | WDecJ | WDecC | WSer.

Section Inst.
Variable fx : fxcfg.
Variable cc : ccfg.
Variable w : wcfg.
Variable c0 : claims.       (* the claims-set whose encodings the threads decode *)

Definition rstepB (s : pstate) (o : rop) : pstate * bytes :=
  let '(s', out) := pstep fx cc w key_alg alg_known s o in (s', compact (print_rout cc out)).

Definition dres_tok (d : dres claims) : bytes :=
  match d with
  | DOk c => join_with x2c (obs_getters cc c)
  | DErr => s2b "err"
  | DUnmodelled => s2b "*"
  end.

Definition wstepB (s : pstate) (o : wop) : pstate * bytes :=
  match o with
  | WRead r => rstepB s r
  | WNew => (s, s2b "ok:1")
  | WSer => (s, s2b "*")        (* the embedding-aware serialisers on a private struct: judged by the race detector and the sequential run *)
  | WDecJ => (s, compact (match encode_json w c0 with Some j => dres_tok (decode_json cc w j) | None => s2b "na" end))
  | WDecC => (s, compact (match encode_cbor w c0 with Some b => dres_tok (decode_cbor cc w b) | None => s2b "na" end))
  end.

Definition parse_top (t : bytes) : option (top rop wop) :=
  match t with
  | [x6e] => Some (TPriv WNew)
  | [x78] => Some (TPriv WSer)
  | [x44] => Some (TPriv WSer)      (* the deprecated JSON aliases: wildcard, judged by the race detector and the sequential run *)
  | [x4a] => Some (TPriv WDecJ)
  | [x43] => Some (TPriv WDecC)
  | x73 :: r => option_map TShared (parse_rop r)
  | x70 :: r => option_map (fun o => TPriv (WRead o)) (parse_rop r)
  | _ => None
  end.

Fixpoint all_some {A} (l : list (option A)) : option (list A) :=
  match l with
  | [] => Some []
  | None :: _ => None
  | Some a :: r => option_map (cons a) (all_some r)
  end.

Definition st_tok (st : N) : bytes :=
  if st =? 2 then s2b "sig,dec" else if st =? 1 then s2b "sig,nodec" else s2b "nosig".

Definition mk_signer (k : N) : signer := {| sg_key := k; sg_alg := key_alg k; sg_beh := SignsOk |}.

(** a thread: its own objects (created, signed, decoded by the thread itself), its program *)
Definition start_of (tbl : list (N * (pstate * N))) (k : N) : pstate * N :=
  match find (fun e => fst e =? k) tbl with
  | Some e => snd e
  | None => start cc w key_alg alg_known c0 (mk_signer k)
  end.

Definition parse_thread (tbl : list (N * (pstate * N))) (toks : list bytes) : option (thread pstate rop wop bytes) :=
  match toks with
  | (x54 :: kd) :: ops =>
      match parse_N kd, all_some (map parse_top ops) with
      | Some k, Some prog =>
          let '(own, st) := start_of tbl k in
          Some {| t_priv := own; t_todo := prog; t_out := [st_tok st] |}
      | _, _ => None
      end
  | _ => None
  end.

Fixpoint split_bar (ts : list bytes) (cur : list bytes) : list (list bytes) :=
  match ts with
  | [] => [rev cur]
  | t :: r => if bytes_eqb t [x7c] then rev cur :: split_bar r [] else split_bar r (t :: cur)
  end.

Fixpoint join_bar (l : list bytes) : bytes :=
  match l with
  | [] => []
  | [a] => a
  | a :: r => a ++ s2b " | " ++ join_bar r
  end.

Definition run_conc_threads (ks : N) (progs : list (list bytes)) : option bytes :=
  (* the five keys of the harness: computed once, not once per thread *)
  let tbl := map (fun k => (k, start cc w key_alg alg_known c0 (mk_signer k))) [1; 2; 3; 4; 5] in
  match all_some (map (parse_thread tbl) progs) with
  | Some ths =>
      let '(sh0, st) := start_of tbl ks in
      let conf0 := {| g_sh := sh0; g_th := ths |} in
      let final := run_sched pstate pstate rop wop bytes rstepB wstepB conf0 (seq_sched pstate rop wop bytes 0 ths) in
      Some (st_tok st ++ x20 :: join_bar (map (fun t => join_sp (rev (t_out t))) (g_th final)) ++ s2b " conc=same")
  | None => None
  end.
End Inst.

Definition run_conc (fx : fxcfg) (cc : ccfg) (w : wcfg) (args : list bytes) : bytes :=
  match args with
  | tk :: rest =>
      match parse_N tk, parse_claims rest with
      | Some ks, Some (c, ops) =>
          match c_kind c, c_swc c, c_profile c with
          | K2, Some [], _ => s2b "*"
          | _, _, Some (POid _) => s2b "*"
          | _, _, _ =>
              let unmodelled := match encode_cbor w c with
                                | Some b => match decode_cbor cc w b with DUnmodelled => true | _ => false end
                                | None => false
                                end in
              if unmodelled then s2b "*"
              else match run_conc_threads fx cc w c ks (split_bar ops []) with
                   | Some out => out
                   | None => bad_input
                   end
          end
      | _, _ => bad_input
      end
  | [] => bad_input
  end.
