(** C04: the order of the pairs in a claims map does not matter (distinct integer keys). *)
From Coq Require Import Arith ZArith String Lia Permutation.
From PSA Require Import Base Lines Lifecycle Regex Claims Cbor Utf8 Tags Wire.
Open Scope N_scope.

Definition int_keys (kvs : list (cbor * cbor)) : list Z :=
  flat_map (fun kv => match classify_key (fst kv) with KInt z => [z] | _ => [] end) kvs.

Lemma nodup_app_r {T} (l1 l2 : list T) : NoDup (l1 ++ l2) -> NoDup l2.
Proof. induction l1 as [|x l1 IH]; cbn; intro H; [exact H|]. inversion H. auto. Qed.

Section Gen.
Context {A X : Type} (tags : list field_tag) (setf : field_tag -> cbor -> A -> option A).
Variable dv : field_tag -> cbor -> option X.
Variable put : X -> A -> A.
Hypothesis setf_fact : forall f v a, setf f v a = option_map (fun x => put x a) (dv f v).
(** fields found under different keys write different parts of the value *)
Hypothesis put_comm : forall z1 z2 f1 f2 v1 v2 x1 x2 a, z1 <> z2 ->
  find_field tags z1 = Some f1 -> find_field tags z2 = Some f2 -> dv f1 v1 = Some x1 -> dv f2 v2 = Some x2 ->
  put x1 (put x2 a) = put x2 (put x1 a).

Notation dp := (dec_pairs tags setf).

Lemma dp_err_true : forall kvs found a err, dp kvs found a true = (fst (dp kvs found a err), true).
Proof.
  induction kvs as [|[k v] r IH]; intros found a err; [reflexivity|].
  cbn [dec_pairs]. destruct (classify_key k) as [z| |].
  - destruct (zmem z found); [apply IH|]. destruct (find_field tags z) as [f|]; [|apply IH].
    destruct (setf f v a) as [a'|]; [apply IH|]. rewrite (IH _ a true). rewrite (IH _ a true). reflexivity.
  - apply IH.
  - rewrite (IH _ a true). rewrite (IH _ a true). reflexivity.
Qed.

Lemma dp_found_ext : forall kvs found found' a err, (forall z, zmem z found = zmem z found') ->
  dp kvs found a err = dp kvs found' a err.
Proof.
  induction kvs as [|[k v] r IH]; intros found found' a err H; [reflexivity|].
  cbn [dec_pairs]. destruct (classify_key k) as [z| |]; try (apply IH; exact H).
  rewrite <- (H z). destruct (zmem z found); [apply IH; exact H|].
  assert (forall y, zmem y (z :: found) = zmem y (z :: found')) as H' by (intro y; unfold zmem in *; cbn [existsb]; rewrite (H y); reflexivity).
  destruct (find_field tags z) as [f|]; [|apply IH; exact H].
  destruct (setf f v a); apply IH; exact H'.
Qed.

Lemma zmem_swap z1 z2 found y : zmem y (z1 :: z2 :: found) = zmem y (z2 :: z1 :: found).
Proof. cbn. destruct (Z.eqb y z1), (Z.eqb y z2); reflexivity. Qed.

(** two adjacent pairs with different integer keys (or with keys that are not integers) can be swapped *)
Lemma dp_swap k1 v1 k2 v2 r found a err :
  (forall z1 z2, classify_key k1 = KInt z1 -> classify_key k2 = KInt z2 -> z1 <> z2) ->
  dp ((k1, v1) :: (k2, v2) :: r) found a err = dp ((k2, v2) :: (k1, v1) :: r) found a err.
Proof.
  intro D. cbn [dec_pairs].
  destruct (classify_key k1) as [z1| |] eqn:C1, (classify_key k2) as [z2| |] eqn:C2; try reflexivity.
  specialize (D z1 z2 eq_refl eq_refl).
    assert (zmem z2 (z1 :: found) = zmem z2 found) as M21 by (cbn; destruct (Z.eqb_spec z2 z1); [congruence|reflexivity]).
    assert (zmem z1 (z2 :: found) = zmem z1 found) as M12 by (cbn; destruct (Z.eqb_spec z1 z2); [congruence|reflexivity]).
    destruct (zmem z1 found) eqn:F1, (zmem z2 found) eqn:F2.
    + reflexivity.
    + destruct (find_field tags z2) as [f2|]; [|reflexivity].
      destruct (setf f2 v2 a); rewrite M12; reflexivity.
    + destruct (find_field tags z1) as [f1|]; [|reflexivity].
      destruct (setf f1 v1 a); rewrite M21; reflexivity.
    + destruct (find_field tags z1) as [f1|] eqn:FF1, (find_field tags z2) as [f2|] eqn:FF2.
      * rewrite !setf_fact.
        destruct (dv f1 v1) as [x1|] eqn:D1, (dv f2 v2) as [x2|] eqn:D2; cbn [option_map];
          rewrite ?M21, ?M12, ?F1, ?F2, ?setf_fact, ?D1, ?D2; cbn [option_map].
        -- rewrite (put_comm z1 z2 f1 f2 v1 v2 x1 x2 a D FF1 FF2 D1 D2).
           apply dp_found_ext. intro y. apply zmem_swap.
        -- apply dp_found_ext. intro y. apply zmem_swap.
        -- apply dp_found_ext. intro y. apply zmem_swap.
        -- apply dp_found_ext. intro y. apply zmem_swap.
      * destruct (setf f1 v1 a); rewrite ?M21, ?F2; reflexivity.
      * destruct (setf f2 v2 a); rewrite ?M12, ?F1; reflexivity.
      * reflexivity.
Qed.

Lemma int_keys_perm l l' : Permutation l l' -> Permutation (int_keys l) (int_keys l').
Proof. intro P. unfold int_keys. apply Permutation_flat_map. exact P. Qed.

Theorem dec_pairs_perm : forall kvs kvs', Permutation kvs kvs' -> NoDup (int_keys kvs) ->
  forall found a err, dp kvs found a err = dp kvs' found a err.
Proof.
  intros kvs kvs' P. induction P as [|[k v] l l' P IH|[k1 v1] [k2 v2] l|l l' l'' P1 IH1 P2 IH2]; intros ND found a err.
  - reflexivity.
  - assert (NoDup (int_keys l)) as ND'.
    { unfold int_keys in ND. cbn [flat_map] in ND. apply nodup_app_r in ND. exact ND. }
    cbn [dec_pairs]. destruct (classify_key k) as [z| |]; try (apply IH; exact ND').
    destruct (zmem z found); [apply IH; exact ND'|]. destruct (find_field tags z) as [f|]; [|apply IH; exact ND'].
    destruct (setf f v a); apply IH; exact ND'.
  - symmetry. apply dp_swap. intros z1 z2 C1 C2 E. subst z2.
    unfold int_keys in ND. cbn [flat_map fst] in ND. rewrite C1, C2 in ND. cbn in ND.
    inversion ND as [|? ? Hn _]. apply Hn. left. reflexivity.
  - rewrite (IH1 ND). apply IH2. eapply Permutation_NoDup; [apply int_keys_perm; exact P1|exact ND].
Qed.
End Gen.

(** * instances *)
From PSA Require Import Codec.
From PSA.Spec Require Import SpecTables SpecTags.

Lemma existsb_perm {T} (p : T -> bool) l l' : Permutation l l' -> existsb p l = existsb p l'.
Proof.
  intro P. induction P as [|x l l' P IH|x y l|l l' l'' P1 IH1 P2 IH2]; cbn; try congruence.
  destruct (p x), (p y); reflexivity.
Qed.

(** the value a pair contributes, and where it goes *)
Inductive cval :=
| VProf (o : option profv) | VClient (o : option Z) | VLc (o : option N) | VNosw (o : option N)
| VImpl (o : option bytes) | VBoot (o : option bytes) | VInst (o : option bytes)
| VCert (o : option bytes) | VVsi (o : option bytes) | VNonce (o : option (list bytes)) | VSwc (l : list (option swc)).

Definition put_cval (x : cval) (c : claims) : claims :=
  match x with
  | VProf o => upd_profile c o | VClient o => upd_client c o | VLc o => upd_lc c o
  | VNosw o => upd_swc c (c_swc c) o | VImpl o => upd_impl c o | VBoot o => upd_boot c o | VInst o => upd_inst c o
  | VCert o => upd_cert c o | VVsi o => upd_vsi c o | VNonce o => upd_nonce c o
  | VSwc l => upd_swc c (Some l) (c_nosw c)
  end.

Definition dv_claim (swtags : list field_tag) (f : field_tag) (v : cbor) : option cval :=
  let k := kind_of_type (f_type f) in
  let nil := is_nil v in
  match slot_of_name (f_name f), k with
  | SProfile, TStr => if nil then Some (VProf None) else option_map (fun s => VProf (Some (PStr s))) (dec_text v)
  | SProfile, TProfile => if nil then Some (VProf None)
                          else match v with
                               | CText _ => option_map (fun s => VProf (Some (PStr s))) (dec_text v)
                               | _ => None
                               end
  | SClient, TInt bits => if nil then Some (VClient None) else option_map (fun z => VClient (Some z)) (dec_int bits v)
  | SLc, TUintK bits => if nil then Some (VLc None) else option_map (fun n => VLc (Some n)) (dec_uint bits v)
  | SNosw, TUintK bits => if nil then Some (VNosw None) else option_map (fun n => VNosw (Some n)) (dec_uint bits v)
  | SImpl, TBytes => if nil then Some (VImpl None) else option_map (fun b => VImpl (Some b)) (dec_bytes v)
  | SBoot, TBytes => if nil then Some (VBoot None) else option_map (fun b => VBoot (Some b)) (dec_bytes v)
  | SInst, TBytes => if nil then Some (VInst None) else option_map (fun b => VInst (Some b)) (dec_bytes v)
  | SCert, TStr => if nil then Some (VCert None) else option_map (fun b => VCert (Some b)) (dec_text v)
  | SVsi, TStr => if nil then Some (VVsi None) else option_map (fun b => VVsi (Some b)) (dec_text v)
  | SNonce, TBytes => if nil then Some (VNonce None) else option_map (fun b => VNonce (Some [b])) (dec_bytes v)
  | SNonce, TNonce => if nil then Some (VNonce None) else option_map (fun l => VNonce (Some l)) (dec_nonce v)
  | SSwc, TSwcs => option_map VSwc (dec_swcs swtags v)
  | _, _ => None
  end.

Lemma set_claim_fact swtags f v c :
  set_claim_field swtags f v c = option_map (fun x => put_cval x c) (dv_claim swtags f v).
Proof.
  unfold set_claim_field, dv_claim.
  destruct (slot_of_name (f_name f)), (kind_of_type (f_type f)); try reflexivity;
    destruct (is_nil v); try reflexivity;
    try (match goal with |- context [option_map _ ?d] => destruct d; reflexivity end).
  destruct v as [| | |tx| | | | |]; try reflexivity. destruct (dec_text (CText tx)); reflexivity.
Qed.

(** which part of the claims-set a value writes *)
Definition slot_of_cval (x : cval) : slotid :=
  match x with
  | VProf _ => SProfile | VClient _ => SClient | VLc _ => SLc | VNosw _ => SNosw | VImpl _ => SImpl | VBoot _ => SBoot
  | VInst _ => SInst | VCert _ => SCert | VVsi _ => SVsi | VNonce _ => SNonce | VSwc _ => SSwc
  end.

Lemma dv_claim_slot swtags f v x : dv_claim swtags f v = Some x -> slot_of_cval x = slot_of_name (f_name f).
Proof.
  unfold dv_claim.
  destruct (slot_of_name (f_name f)), (kind_of_type (f_type f)); try discriminate;
    destruct (is_nil v); try (intro H; injection H as <-; reflexivity);
    try (match goal with |- context [option_map _ ?d] => destruct d; cbn; intro H; try discriminate; injection H as <-; reflexivity end).
  destruct v as [| | |tx| | | | |]; try discriminate. destruct (dec_text (CText tx)); cbn; intro H; try discriminate. injection H as <-. reflexivity.
Qed.

Lemma put_cval_comm x1 x2 c : slot_of_cval x1 <> slot_of_cval x2 -> put_cval x1 (put_cval x2 c) = put_cval x2 (put_cval x1 c).
Proof. destruct x1, x2; cbn; intro H; try congruence; destruct c; reflexivity. Qed.

(** in a claims table different keys name different claims *)
Definition slots_distinct (tags : list field_tag) : Prop :=
  forall z1 z2 f1 f2, z1 <> z2 -> find_field tags z1 = Some f1 -> find_field tags z2 = Some f2 ->
  slot_of_name (f_name f1) <> slot_of_name (f_name f2).

Lemma find_field_some tags z f : find_field tags z = Some f -> In f tags /\ f_key f = z.
Proof.
  unfold find_field. intro H. apply find_some in H. destruct H as [I H]. split; [exact I|].
  apply andb_true_iff in H. destruct H as [_ H]. apply Z.eqb_eq in H. exact H.
Qed.

Ltac in_cases2 H := repeat (destruct H as [<-|H]); [..|destruct H].

Lemma p1_slots_distinct : slots_distinct spec_p1_fields.
Proof.
  intros z1 z2 f1 f2 Ne F1 F2. apply find_field_some in F1, F2. destruct F1 as [I1 <-], F2 as [I2 <-].
  unfold spec_p1_fields in I1, I2. in_cases2 I1; in_cases2 I2; try (exfalso; apply Ne; reflexivity); cbn; discriminate.
Qed.

Lemma p2_slots_distinct : slots_distinct spec_p2_fields.
Proof.
  intros z1 z2 f1 f2 Ne F1 F2. apply find_field_some in F1, F2. destruct F1 as [I1 <-], F2 as [I2 <-].
  unfold spec_p2_fields in I1, I2. in_cases2 I1; in_cases2 I2; try (exfalso; apply Ne; reflexivity); cbn; discriminate.
Qed.

(** the claims map: any order of the pairs gives the same claims-set and the same verdict *)
Theorem decode_pairs_order_irrelevant tags swtags kvs kvs' c0 : slots_distinct tags ->
  Permutation kvs kvs' -> NoDup (int_keys kvs) ->
  dec_pairs tags (set_claim_field swtags) kvs [] c0 false = dec_pairs tags (set_claim_field swtags) kvs' [] c0 false.
Proof.
  intros SD P ND.
  apply (dec_pairs_perm tags (set_claim_field swtags) (dv_claim swtags) put_cval (set_claim_fact swtags)); [|exact P|exact ND].
  intros z1 z2 f1 f2 v1 v2 x1 x2 a Ne F1 F2 D1 D2. apply put_cval_comm.
  rewrite (dv_claim_slot _ _ _ _ D1), (dv_claim_slot _ _ _ _ D2). apply (SD z1 z2 f1 f2 Ne F1 F2).
Qed.

Theorem decode_into_order_irrelevant tags swtags kvs kvs' c0 : slots_distinct tags ->
  Permutation kvs kvs' -> NoDup (int_keys kvs) ->
  decode_into tags swtags (CMap kvs) c0 = decode_into tags swtags (CMap kvs') c0.
Proof.
  intros SD P ND. unfold decode_into.
  unfold unmodelled_pairs. rewrite (existsb_perm _ kvs kvs' P).
  match goal with |- context [if existsb ?p kvs then _ else _] => rewrite (existsb_perm p kvs kvs' P) end.
  rewrite (decode_pairs_order_irrelevant tags swtags kvs kvs' _ SD P ND). reflexivity.
Qed.

(** the profile selector reads one key only *)
Lemma selector_order_irrelevant kvs kvs' : Permutation kvs kvs' -> NoDup (int_keys kvs) ->
  decode_selector (CMap kvs) = decode_selector (CMap kvs').
Proof.
  intros P ND. unfold decode_selector. unfold unmodelled_pairs. rewrite (existsb_perm _ kvs kvs' P).
  rewrite (dec_pairs_perm selector_tags (fun _ v s => if is_nil v then Some s else dec_text v)
             (fun _ v => if is_nil v then Some None else option_map Some (dec_text v))
             (fun x s => match x with Some t => t | None => s end)) with (kvs' := kvs'); [reflexivity| | |exact P|exact ND].
  - intros f v a. destruct (is_nil v); [reflexivity|]. destruct (dec_text v); reflexivity.
  - intros z1 z2 f1 f2 v1 v2 x1 x2 a Ne F1 F2 _ _. exfalso. apply Ne.
    apply find_field_some in F1, F2. destruct F1 as [I1 <-], F2 as [I2 <-].
    unfold selector_tags in I1, I2. destruct I1 as [<-|[]], I2 as [<-|[]]. reflexivity.
Qed.

(** DecodeClaimsFromCBOR: two tokens whose claims maps hold the same pairs in different order
    (integer keys pairwise distinct) are decoded alike -- same verdict, same claims-set *)
Theorem decode_cbor_order_irrelevant b b' kvs kvs' :
  parse_all b = Some (CMap kvs) -> parse_all b' = Some (CMap kvs') ->
  Permutation kvs kvs' -> NoDup (int_keys kvs) ->
  decode_cbor spec_ccfg {| w_p1 := spec_p1_fields; w_p2 := spec_p2_fields; w_swc := spec_swc_fields |} b =
  decode_cbor spec_ccfg {| w_p1 := spec_p1_fields; w_p2 := spec_p2_fields; w_swc := spec_swc_fields |} b'.
Proof.
  intros P1 P2 P ND. unfold decode_cbor. rewrite P1, P2. cbn [w_p1 w_p2 w_swc].
  rewrite (selector_order_irrelevant kvs kvs' P ND).
  rewrite (decode_into_order_irrelevant spec_p1_fields spec_swc_fields kvs kvs' _ p1_slots_distinct P ND).
  rewrite (decode_into_order_irrelevant spec_p2_fields spec_swc_fields kvs kvs' _ p2_slots_distinct P ND).
  reflexivity.
Qed.

(** non-vacuity: a profile-2 token and the same pairs in another order *)
Example order_witness :
  let kvs := [(CUint 265, CText (prof2 spec_ccfg)); (CUint 2394, CUint 7); (CUint 2395, CUint 12288);
              (CUint 10, CBytes (repeat x01 32))] in
  let kvs' := [(CUint 10, CBytes (repeat x01 32)); (CUint 2395, CUint 12288); (CUint 265, CText (prof2 spec_ccfg)); (CUint 2394, CUint 7)] in
  Permutation kvs kvs' /\ NoDup (int_keys kvs) /\ kvs <> kvs' /\
  parse_all (enc (CMap kvs)) = Some (CMap kvs) /\ parse_all (enc (CMap kvs')) = Some (CMap kvs') /\
  exists c, decode_cbor spec_ccfg {| w_p1 := spec_p1_fields; w_p2 := spec_p2_fields; w_swc := spec_swc_fields |} (enc (CMap kvs)) = DOk c
            /\ c_client c = Some 7%Z /\ c_lc c = Some 12288.
Proof.
  cbv zeta. split.
  - apply Permutation_sym.
    eapply perm_trans; [apply perm_swap|]. eapply perm_trans; [apply perm_skip; apply perm_swap|].
    eapply perm_trans; [apply perm_swap|]. apply perm_skip.
    eapply perm_trans; [apply perm_skip; apply perm_swap|]. eapply perm_trans; [apply perm_swap|]. apply Permutation_refl.
  - split; [vm_compute; repeat constructor; cbn; intuition discriminate|].
    split; [discriminate|]. split; [vm_compute; reflexivity|]. split; [vm_compute; reflexivity|].
    eexists. split; [vm_compute; reflexivity|]. split; reflexivity.
Qed.
