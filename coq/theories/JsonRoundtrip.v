(** C12: decoding the JSON form of a claims-set gives back, observably, that claims-set. *)
From Coq Require Import Arith ZArith String Lia ZifyN ZifyBool ZifyNat.
From PSA Require Import Base Lines Lifecycle Regex Claims ClaimsSpec Utf8 Tags Wire Codec CborProofs SetterProofs CodecProofs Json Registry JsonCodec JsonProofs.
From PSA.Spec Require Import SpecTables SpecTags.
Open Scope N_scope.

Definition jname (f : field_tag) : bytes := s2b (f_json f).
Definition jlive (ts : list field_tag) : list field_tag := filter (fun f => negb (f_json_skip f)) ts.

Lemma bytes_eqb_neq a b : a <> b -> bytes_eqb a b = false.
Proof. intro H. destruct (bytes_eqb a b) eqn:E; [|reflexivity]. apply bytes_eqb_eq in E. contradiction. Qed.

Section Gen.
Context {A : Type} (value : field_tag -> A -> option (option json)) (a : A).

(** what a lookup by member name finds in the emitted object *)
Definition emitted_member (f : field_tag) : option json :=
  match value f a with
  | Some (Some v) => Some v
  | Some None => if f_json_omitempty f then None else Some JNull
  | None => None
  end.

Lemma jassoc_not_named : forall ts m k, jfields_gen value ts a = Some m ->
  ~ In k (map jname (jlive ts)) -> jassoc m k = None.
Proof.
  induction ts as [|g r IH]; intros m k E N.
  - cbn in E. injection E as <-. reflexivity.
  - cbn [jfields_gen] in E. unfold jlive in N. cbn [filter] in N. destruct (f_json_skip g) eqn:Sk; cbn [negb] in N.
    + apply (IH m k E N).
    + cbn [map In] in N.
      destruct (value g a) as [[v|]|]; [| |discriminate];
        (destruct (jfields_gen value r a) as [rest|] eqn:R; [|discriminate]).
      * injection E as <-. cbn [jassoc]. fold (jname g). rewrite bytes_eqb_neq by (intro X; apply N; left; exact X).
        apply (IH rest k eq_refl). intro X. apply N. right. exact X.
      * destruct (f_json_omitempty g); injection E as <-.
        -- apply (IH rest k eq_refl). intro X. apply N. right. exact X.
        -- cbn [jassoc]. fold (jname g). rewrite bytes_eqb_neq by (intro X; apply N; left; exact X).
           apply (IH rest k eq_refl). intro X. apply N. right. exact X.
Qed.

Lemma jassoc_fields : forall ts m, jfields_gen value ts a = Some m ->
  NoDup (map jname (jlive ts)) ->
  forall f, In f ts -> f_json_skip f = false -> jassoc m (jname f) = emitted_member f.
Proof.
  induction ts as [|g r IH]; intros m E ND f Hin Sf; [destruct Hin|].
  cbn [jfields_gen] in E. unfold jlive in ND. cbn [filter] in ND. destruct (f_json_skip g) eqn:Sk; cbn [negb] in ND.
  - destruct Hin as [<-|Hin]; [congruence|]. apply (IH m E ND f Hin Sf).
  - cbn [map] in ND. inversion ND as [|? ? Hnotin ND']. subst.
    unfold emitted_member.
    destruct (value g a) as [[v|]|] eqn:V; [| |discriminate];
      (destruct (jfields_gen value r a) as [rest|] eqn:R; [|discriminate]).
    + injection E as <-. destruct Hin as [<-|Hin].
      * cbn [jassoc]. fold (jname g). rewrite bytes_eqb_refl, V. reflexivity.
      * cbn [jassoc]. fold (jname g). rewrite bytes_eqb_neq.
        -- apply (IH rest eq_refl ND' f Hin Sf).
        -- intro X. apply Hnotin. rewrite X. apply in_map. apply filter_In. rewrite Sf. auto.
    + destruct Hin as [<-|Hin].
      * rewrite V. destruct (f_json_omitempty g); injection E as <-.
        -- apply (jassoc_not_named r rest _ R Hnotin).
        -- cbn [jassoc]. fold (jname g). rewrite bytes_eqb_refl. reflexivity.
      * assert (jname g <> jname f) as Ne.
        { intro X. apply Hnotin. rewrite X. apply in_map. apply filter_In. rewrite Sf. auto. }
        destruct (f_json_omitempty g); injection E as <-.
        -- apply (IH rest eq_refl ND' f Hin Sf).
        -- cbn [jassoc]. fold (jname g). rewrite bytes_eqb_neq by exact Ne. apply (IH rest eq_refl ND' f Hin Sf).
Qed.

Lemma jfields_values : forall ts m, jfields_gen value ts a = Some m ->
  forall f, In f ts -> f_json_skip f = false -> value f a <> None.
Proof.
  induction ts as [|g r IH]; intros m E f Hin Sf; [destruct Hin|].
  cbn [jfields_gen] in E. destruct (f_json_skip g) eqn:Sk.
  - destruct Hin as [<-|Hin]; [congruence|]. apply (IH m E f Hin Sf).
  - destruct (value g a) as [[v|]|] eqn:V; [| |discriminate];
      (destruct (jfields_gen value r a) as [rest|] eqn:R; [|discriminate]);
      (destruct Hin as [<-|Hin]; [congruence|apply (IH rest eq_refl f Hin Sf)]).
Qed.

(** no repeated member names *)
Lemma nodup_keys_fields : forall ts m, jfields_gen value ts a = Some m ->
  NoDup (map jname (jlive ts)) -> nodup_keys m = true.
Proof.
  assert (K : forall ts m k, jfields_gen value ts a = Some m -> ~ In k (map jname (jlive ts)) ->
              existsb (fun kv => bytes_eqb (fst kv) k) m = false).
  { induction ts as [|g r IH]; intros m k E N.
    - cbn in E. injection E as <-. reflexivity.
    - cbn [jfields_gen] in E. unfold jlive in N. cbn [filter] in N. destruct (f_json_skip g); cbn [negb] in N; [apply (IH m k E N)|].
      cbn [map In] in N.
      assert (bytes_eqb (jname g) k = false) as Ng by (apply bytes_eqb_neq; intro X; apply N; left; exact X).
      assert (~ In k (map jname (jlive r))) as Nr by (intro X; apply N; right; exact X).
      destruct (value g a) as [[v|]|]; [| |discriminate];
        (destruct (jfields_gen value r a) as [rest|] eqn:R; [|discriminate]).
      + injection E as <-. cbn. fold (jname g). rewrite Ng. apply (IH rest k eq_refl Nr).
      + destruct (f_json_omitempty g); injection E as <-; [apply (IH rest k eq_refl Nr)|].
        cbn. fold (jname g). rewrite Ng. apply (IH rest k eq_refl Nr). }
  induction ts as [|g r IH]; intros m E ND.
  - cbn in E. injection E as <-. reflexivity.
  - cbn [jfields_gen] in E. unfold jlive in ND. cbn [filter] in ND. destruct (f_json_skip g); cbn [negb] in ND; [apply (IH m E ND)|].
    cbn [map] in ND. inversion ND as [|? ? Hnotin ND']. subst.
    destruct (value g a) as [[v|]|]; [| |discriminate];
      (destruct (jfields_gen value r a) as [rest|] eqn:R; [|discriminate]).
    + injection E as <-. cbn [nodup_keys]. fold (jname g). rewrite (K r rest (jname g) R Hnotin). cbn. apply (IH rest eq_refl ND').
    + destruct (f_json_omitempty g); injection E as <-; [apply (IH rest eq_refl ND')|].
      cbn [nodup_keys]. fold (jname g). rewrite (K r rest (jname g) R Hnotin). cbn. apply (IH rest eq_refl ND').
Qed.

End Gen.

Arguments b64_encode : simpl never.
Arguments b64_dec : simpl never.

(** * software components *)
Lemma jd_j_swc (s : swc) : exists j, j_swc SW s = Some j /\ jd_swc SW j = Some (Some s) /\ j <> JNull.
Proof.
  destruct s as [a b c d e].
  destruct a as [a|], b as [b|], c as [c|], d as [d|], e as [e|];
    (eexists; split; [reflexivity|]; split; [|discriminate]);
    cbn; rewrite ?b64_dec_enc; reflexivity.
Qed.

Lemma jd_j_swcs (l : list (option swc)) : exists cs, j_swcs SW l = Some cs /\ Wire.all_some (map (jd_swc SW) cs) = Some l.
Proof.
  induction l as [|o l (cs & E & D)].
  - exists []. split; reflexivity.
  - destruct o as [s|].
    + destruct (jd_j_swc s) as (j & Ej & Dj & _). exists (j :: cs). cbn [j_swcs]. rewrite Ej, E. split; [reflexivity|].
      cbn [map Wire.all_some]. rewrite Dj, D. reflexivity.
    + exists (JNull :: cs). cbn [j_swcs]. rewrite E. split; [reflexivity|]. cbn [map Wire.all_some jd_swc]. rewrite D. reflexivity.
Qed.

Lemma all_some_b64 (l : list bytes) :
  Wire.all_some (map (fun e => match e with JStr s => b64_dec s | _ => None end) (map (fun b => JStr (b64_encode b)) l)) = Some l.
Proof. induction l as [|b l IH]; [reflexivity|]. cbn [map Wire.all_some]. rewrite b64_dec_enc, IH. reflexivity. Qed.

Arguments j_swcs : simpl never.
Arguments Wire.all_some : simpl never.

Lemma jd_int_num lo hi z : (lo <= z <= hi)%Z -> jd_int lo hi (JNum z) = Some (Some z).
Proof. intro H. unfold jd_int. destruct (Z.leb_spec lo z); [|lia]. destruct (Z.leb_spec z hi); [|lia]. reflexivity. Qed.

(** * per-field inverse: the member emitted for a field decodes back into that field *)
Ltac optcase x := destruct x as [x|]; [| first [discriminate | (match goal with V : _ = Some _ |- _ => injection V as <- end; reflexivity)]];
                  match goal with V : _ = Some _ |- _ => injection V as <- end.

Lemma jd_field_value c : claims_wire_ok c -> forall f v acc,
  In f (tags_of W (c_kind c)) -> f_json_skip f = false ->
  emitted_member (j_claim_value SW) c f = Some v -> jd_field SW f v acc = Some (putf_claim f c acc).
Proof.
  intros Ok f v acc H Sk V.
  destruct c as [k p cl lc im bo ce sw ns no ins vs can].
  destruct Ok as (Ca & Pr & Cl & Lc & Im & Bo & Ce & Sw & Ns & No & In_ & Vs). cbn in Ca, Pr, Cl, Lc, Im, Bo, Ce, Sw, Ns, No, In_, Vs.
  destruct k; cbn [tags_of W w_p1 w_p2 c_kind] in H; in_cases H; try discriminate Sk;
    unfold emitted_member, j_claim_value in V; cbn in V; unfold jd_field, putf_claim; cbn.
  (* ---- profile 1 ---- *)
  - destruct p as [[s| |]|]; try discriminate; try contradiction. injection V as <-. reflexivity.
  - optcase cl. rewrite jd_int_num by lia. reflexivity.
  - optcase lc. rewrite jd_int_num by lia. cbn. rewrite N2Z.id. reflexivity.
  - optcase im. cbn. rewrite b64_dec_enc. reflexivity.
  - optcase bo. cbn. rewrite b64_dec_enc. reflexivity.
  - optcase ce. reflexivity.
  - destruct sw as [[|o l]|]; try discriminate.
    destruct (jd_j_swcs (o :: l)) as (cs & E & D). rewrite E in V. injection V as <-. rewrite D. reflexivity.
  - optcase ns. rewrite jd_int_num by lia. cbn. rewrite N2Z.id. reflexivity.
  - destruct no as [[|b [|b' l]]|]; try discriminate; injection V as <-; [|reflexivity]. cbn. rewrite b64_dec_enc. reflexivity.
  - optcase ins. cbn. rewrite b64_dec_enc. reflexivity.
  - optcase vs. reflexivity.
  (* ---- profile 2 ---- *)
  - destruct p as [[s| |]|]; try discriminate; try contradiction. injection V as <-. reflexivity.
  - optcase cl. rewrite jd_int_num by lia. reflexivity.
  - optcase lc. rewrite jd_int_num by lia. cbn. rewrite N2Z.id. reflexivity.
  - optcase im. cbn. rewrite b64_dec_enc. reflexivity.
  - optcase bo. cbn. rewrite b64_dec_enc. reflexivity.
  - optcase ce. reflexivity.
  - destruct sw as [l|].
    + destruct (jd_j_swcs l) as (cs & E & D). rewrite E in V. injection V as <-. rewrite D. reflexivity.
    + injection V as <-. reflexivity.
  - destruct no as [[|b [|b' l]]|]; try discriminate.
    + destruct (nonce_len_ok b); [|discriminate]. injection V as <-. rewrite b64_dec_enc. reflexivity.
    + destruct (forallb nonce_len_ok (b :: b' :: l)); [|discriminate]. injection V as <-.
      change (JStr (b64_encode b) :: JStr (b64_encode b') :: map (fun b => JStr (b64_encode b)) l) with (map (fun b => JStr (b64_encode b)) (b :: b' :: l)).
      rewrite all_some_b64. reflexivity.
    + injection V as <-. reflexivity.
  - optcase ins. cbn. rewrite b64_dec_enc. reflexivity.
  - optcase vs. reflexivity.
Qed.

(** * the decoder's walk over the tag table *)

Definition jom (c : claims) (f : field_tag) : bool :=
  f_json_skip f ||
  match j_claim_value SW f c with
  | None => true
  | Some y => f_json_omitempty f && match y with None => true | Some _ => false end
  end.

Lemma jom_spec c f :
  jom c f = f_json_skip f || match emitted_member (j_claim_value SW) c f with None => true | Some _ => false end.
Proof. unfold jom, emitted_member. destruct (j_claim_value SW f c) as [[v|]|], (f_json_omitempty f); reflexivity. Qed.

(* the accumulator occurs once, so that unfolding a fold over the table stays linear in size *)
Definition stepj (c : claims) (acc : claims) (f : field_tag) : claims := (if jom c f then (fun a => a) else putf_claim f c) acc.

Lemma jd_fields_fold c m : forall ts acc,
  (forall f, In f ts -> f_json_skip f = false -> jassoc m (jname f) = emitted_member (j_claim_value SW) c f) ->
  (forall f v acc, In f ts -> f_json_skip f = false -> emitted_member (j_claim_value SW) c f = Some v ->
                   jd_field SW f v acc = Some (putf_claim f c acc)) ->
  jd_fields SW ts m acc = Some (fold_left (stepj c) ts acc).
Proof.
  induction ts as [|f r IH]; intros acc HA HD; [reflexivity|].
  cbn [jd_fields fold_left].
  assert (IH' : forall acc', jd_fields SW r m acc' = Some (fold_left (stepj c) r acc')).
  { intro acc'. apply IH; intros; [apply HA|apply HD]; auto; right; assumption. }
  destruct (f_json_skip f) eqn:Sk.
  - unfold stepj at 2. assert (jom c f = true) as -> by (rewrite jom_spec, Sk; reflexivity). apply IH'.
  - fold (jname f). rewrite (HA f (or_introl eq_refl) Sk).
    destruct (emitted_member (j_claim_value SW) c f) as [v|] eqn:E.
    + unfold stepj at 2. assert (jom c f = false) as -> by (rewrite jom_spec, Sk, E; reflexivity).
      rewrite (HD f v acc (or_introl eq_refl) Sk E). apply IH'.
    + unfold stepj at 2. assert (jom c f = true) as -> by (rewrite jom_spec, Sk, E; reflexivity). apply IH'.
Qed.

Lemma p1_jnodup : NoDup (map jname (jlive spec_p1_fields)).
Proof. cbn. repeat constructor; cbn; intuition discriminate. Qed.
Lemma p2_jnodup : NoDup (map jname (jlive spec_p2_fields)).
Proof. cbn. repeat constructor; cbn; intuition discriminate. Qed.

Ltac decide_jom :=
  repeat match goal with
  | |- context [jom ?c ?f] =>
      let X := fresh "X" in
      first [ assert (jom c f = true) as X by (unfold jom; try (match goal with EN : j_claim_value _ _ _ = Some _ |- _ => rewrite EN end); unfold j_claim_value; cbn; try (match goal with E : j_swcs _ _ = Some _ |- _ => rewrite E end); reflexivity)
            | assert (jom c f = false) as X by (unfold jom; try (match goal with EN : j_claim_value _ _ _ = Some _ |- _ => rewrite EN end); unfold j_claim_value; cbn; try (match goal with E : j_swcs _ _ = Some _ |- _ => rewrite E end); reflexivity) ];
      rewrite X; clear X
  end.

Lemma final_j1 c : c_kind c = K1 -> claims_wire_ok c ->
  view (fold_left (stepj c) spec_p1_fields (upd_profile (new_p1 S true) None)) = view c.
Proof.
  intros K Ok.
  destruct c as [k p cl lc im bo ce sw ns no ins vs can]. cbn in K. subst k.
  destruct Ok as (Ca & Pr & _ & _ & _ & _ & _ & _ & _ & No & _). cbn in Ca, Pr, No. subst can.
  unfold spec_p1_fields. cbn [fold_left]. unfold stepj. decide_jom.
  destruct p as [[s| |]|]; try contradiction;
  destruct ce as [ce|]; destruct ns as [ns|]; destruct vs as [vs|].
  all: destruct no as [no|]; [destruct No as (_ & _ & Nb); destruct (Nb eq_refl) as [b ->]|].
  all: destruct sw as [[|o l]|]; [| destruct (jd_j_swcs (o :: l)) as (cs & E & _) |].
  all: decide_jom; reflexivity.
Qed.

Lemma final_j2 c : c_kind c = K2 -> claims_wire_ok c ->
  (forall f, In f spec_p2_fields -> f_json_skip f = false -> j_claim_value SW f c <> None) ->
  view (fold_left (stepj c) spec_p2_fields (upd_profile (new_p2 S) None)) = view c.
Proof.
  intros K Ok Hn.
  destruct c as [k p cl lc im bo ce sw ns no ins vs can]. cbn in K. subst k.
  destruct Ok as (Ca & Pr & _ & _ & _ & _ & _ & _ & Ns & _). cbn in Ca, Pr, Ns. subst can.
  destruct p as [[s| |]|]; try contradiction. subst s.
  destruct ns as [ns|]; [destruct Ns; discriminate|].
  unfold spec_p2_fields in *. cbn [fold_left]. unfold stepj.
  match goal with |- context [jom ?c ?f] =>
    match f with {| f_name := "Nonce" |} => pose proof (Hn f ltac:(cbn; tauto) eq_refl) as Hnn;
                                             destruct (j_claim_value SW f c) as [y|] eqn:EN; [|contradiction] end end.
  clear Hn Hnn. decide_jom.
  destruct bo as [bo|]; destruct ce as [ce|]; destruct vs as [vs|].
  all: destruct sw as [l|]; [destruct (jd_j_swcs l) as (cs & E & _)|].
  all: decide_jom.
  all: try (destruct l; reflexivity); try reflexivity.
  all: idtac.
Qed.

(** the profile claim a claims-set may carry so that the dispatching decoder finds its profile again *)
Definition profile_claim_ok (c : claims) : Prop :=
  match c_kind c, c_profile c with
  | K1, None => True
  | K1, Some (PStr s) => s = prof1 S
  | K2, Some (PStr s) => s = prof2 S
  | _, _ => False
  end.

(** Decoding the JSON form of a claims-set through the dispatching decoder gives back,
    observably, that claims-set. *)
Theorem json_encode_decode_roundtrip c j :
  claims_wire_ok c -> profile_claim_ok c -> encode_json W c = Some j ->
  exists c', decode_json S W j = DOk c' /\ view c' = view c.
Proof.
  intros Ok Pc E. unfold encode_json, to_json in E. change (w_swc W) with SW in E.
  destruct (jfields_gen (j_claim_value SW) (tags_of W (c_kind c)) c) as [m|] eqn:EF; [|discriminate]. injection E as <-.
  unfold decode_json.
  destruct (c_kind c) eqn:K.
  - (* profile 1 *)
    change (tags_of W K1) with spec_p1_fields in EF.
    rewrite (nodup_keys_fields _ c _ m EF p1_jnodup). cbn [negb].
    assert (HA : forall f, In f spec_p1_fields -> f_json_skip f = false -> jassoc m (jname f) = emitted_member (j_claim_value SW) c f)
      by (apply (jassoc_fields _ c _ m EF p1_jnodup)).
    assert (Me : members_fn m (s2b "eat-profile") = PAbsent).
    { unfold members_fn. rewrite (jassoc_not_named _ c _ m _ EF); [reflexivity|]. cbn. intuition discriminate. }
    assert (Mp : members_fn m (s2b "psa-profile") = match c_profile c with None => PAbsent | Some _ => PText (prof1 S) end).
    { unfold members_fn.
      match goal with |- context [jassoc m ?k] =>
        change k with (jname (hd (Build_field_tag "" "" 0 false false false "" false false) spec_p1_fields)) end.
      rewrite HA by (cbn; auto). unfold emitted_member, j_claim_value. cbn.
      unfold profile_claim_ok in Pc. rewrite K in Pc. destruct (c_profile c) as [[s| |]|]; try contradiction; [subst s|]; reflexivity. }
    assert (D : exists e, dispatch_json (reg0 (prof1 S) (prof2 S)) (members_fn m) = Some e /\ en_kind e = K1).
    { unfold dispatch_json, reg0. cbn [filter existsb]. unfold jmatches, jpresent. cbn [en_jtag en_name]. rewrite !Me, !Mp.
      destruct (c_profile c); [rewrite bytes_eqb_refl|]; cbn; eexists; split; reflexivity. }
    destruct D as (e & -> & ->).
    change (tags_of W K1) with spec_p1_fields. change (w_swc W) with SW.
    rewrite (jd_fields_fold c m spec_p1_fields _ HA).
    + eexists. split; [reflexivity|]. apply final_j1; assumption.
    + intros f v acc Hf Sk V. apply (jd_field_value c Ok f v acc); [rewrite K; exact Hf|exact Sk|exact V].
  - (* profile 2 *)
    change (tags_of W K2) with spec_p2_fields in EF.
    rewrite (nodup_keys_fields _ c _ m EF p2_jnodup). cbn [negb].
    assert (HA : forall f, In f spec_p2_fields -> f_json_skip f = false -> jassoc m (jname f) = emitted_member (j_claim_value SW) c f)
      by (apply (jassoc_fields _ c _ m EF p2_jnodup)).
    assert (Mp : members_fn m (s2b "psa-profile") = PAbsent).
    { unfold members_fn. rewrite (jassoc_not_named _ c _ m _ EF); [reflexivity|]. cbn. intuition discriminate. }
    assert (Me : members_fn m (s2b "eat-profile") = PText (prof2 S)).
    { unfold members_fn.
      match goal with |- context [jassoc m ?k] =>
        change k with (jname (hd (Build_field_tag "" "" 0 false false false "" false false) spec_p2_fields)) end.
      rewrite HA by (cbn; auto). unfold emitted_member, j_claim_value. cbn.
      unfold profile_claim_ok in Pc. rewrite K in Pc. destruct (c_profile c) as [[s| |]|]; try contradiction. subst s. reflexivity. }
    assert (D : exists e, dispatch_json (reg0 (prof1 S) (prof2 S)) (members_fn m) = Some e /\ en_kind e = K2).
    { unfold dispatch_json, reg0. cbn [filter existsb]. unfold jmatches, jpresent. cbn [en_jtag en_name]. rewrite !Me, !Mp.
      rewrite bytes_eqb_refl. cbn. eexists; split; reflexivity. }
    destruct D as (e & -> & ->).
    change (tags_of W K2) with spec_p2_fields. change (w_swc W) with SW.
    rewrite (jd_fields_fold c m spec_p2_fields _ HA).
    + eexists. split; [reflexivity|]. apply final_j2; try assumption.
      intros f Hf Sk. apply (jfields_values _ c _ m EF f Hf Sk).
    + intros f v acc Hf Sk V. apply (jd_field_value c Ok f v acc); [rewrite K; exact Hf|exact Sk|exact V].
Qed.

