(** EncodeClaimsToJSON / DecodeClaimsFromJSON at tree level with the built-in register. *)
From Coq Require Import String.
From PSA Require Import Base Lines Lifecycle Regex Claims Utf8 Tags Wire Codec Json Registry.
Open Scope N_scope.

Definition encode_json (w : wcfg) (c : claims) : option json :=
  to_json (tags_of w (c_kind c)) (w_swc w) c.

Definition members_fn (m : list (bytes * json)) (name : bytes) : pval :=
  match jassoc m name with
  | None => PAbsent
  | Some JNull => PNull
  | Some (JStr s) => PText s
  | Some _ => POther
  end.

(** objects with repeated members are outside the model *)
Definition decode_json (cc : ccfg) (w : wcfg) (j : json) : dres claims :=
  match j with
  | JObj m =>
      if negb (nodup_keys m) then DUnmodelled
      else match dispatch_json (reg0 (prof1 cc) (prof2 cc)) (members_fn m) with
           | None => DErr
           | Some e =>
               let c0 := match en_kind e with K1 => new_p1 cc true | K2 => new_p2 cc end in
               match jd_fields (w_swc w) (tags_of w (en_kind e)) m (upd_profile c0 None) with
               | Some c => DOk c
               | None => DErr
               end
           end
  | _ => DErr
  end.

(** the validating JSON entry points as compositions with validation *)
Definition validate_and_encode_json (cc : ccfg) (w : wcfg) (c : claims) : option json :=
  match validate cc c with Ok _ => encode_json w c | _ => None end.

Definition decode_and_validate_json (cc : ccfg) (w : wcfg) (j : json) : dres claims :=
  match decode_json cc w j with
  | DOk c => match validate cc c with Ok _ => DOk c | _ => DErr end
  | other => other
  end.
