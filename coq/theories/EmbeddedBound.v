(** C06: what the hand-rolled reader returns is bounded by what it was given -- for EVERY input:
    at most one entry per two input bytes, and the raw values together are no longer than the input. *)
From Coq Require Import Arith ZArith String Lia ZifyN ZifyNat ZifyBool FMapPositive.
From PSA Require Import Base Lines Cbor CborProofs Tags Wire Embedded EmbeddedProofs.
Open Scope nat_scope.

Definition total_raw (m : fmap) : nat := fold_right (fun kv acc => length (snd kv) + acc) 0 m.

Lemma seq_ge (g : bytes -> option nat) : forall n r acc res,
  (fix seq (n : nat) (r : bytes) (acc : nat) : option nat :=
     match n with
     | O => Some acc
     | S k => match g r with Some l => seq k (skipn l r) (acc + l) | None => None end
     end) n r acc = Some res -> acc <= res.
Proof.
  induction n as [|n IH]; intros r acc res H.
  - injection H as <-. lia.
  - destruct (g r) as [l|]; [|discriminate]. apply IH in H. lia.
Qed.

Lemma item_len_pos : forall f b l, item_len f b = Some l -> 1 <= l.
Proof.
  destruct f as [|f]; intros b l H; [discriminate|]. cbn [item_len] in H.
  destruct (parse_head b) as [[[[major ai] arg] r]|]; [|discriminate].
  set (hl := if (ai =? 24)%N then 2 else if (ai =? 25)%N then 3 else if (ai =? 26)%N then 5 else if (ai =? 27)%N then 9 else 1) in *.
  assert (1 <= hl) as Hh by (unfold hl; repeat match goal with |- context [if ?c then _ else _] => destruct c end; lia).
  destruct major as [|p]; [injection H as <-; exact Hh|].
  repeat (destruct p as [p|p|]; try (injection H as <-; lia));
    try (apply seq_ge in H; lia);
    try (destruct (item_len f r); [injection H as <-; lia|discriminate]).
Qed.

Lemma parse_first_nonempty b t r : parse_first b = Some (t, r) -> b <> [].
Proof. intros H E. subst b. vm_compute in H. discriminate. Qed.

(** one item taken off the front: its raw bytes and the rest make up the input, and the rest is shorter *)
Lemma raw_first_consumes b t raw r : raw_first b = Some (t, raw, r) ->
  length raw + length r = length b /\ length r + 1 <= length b.
Proof.
  unfold raw_first. destruct (parse_first b) as [[t0 r0]|] eqn:P; [|discriminate].
  destruct (item_len 40 b) as [l|] eqn:L; [|discriminate]. intro H. injection H as _ <- <-.
  pose proof (item_len_pos _ _ _ L) as Lp. pose proof (parse_first_nonempty _ _ _ P) as Ne.
  split.
  - rewrite <- (firstn_skipn l b) at 3. rewrite app_length. reflexivity.
  - rewrite skipn_length. destruct b; [contradiction|]. cbn [length]. lia.
Qed.

Lemma read_pair_consumes st b st' b' : read_pair st b = Some (st', b') ->
  length (snd st') = S (length (snd st)) /\
  total_raw (snd st') + length b' + 1 <= total_raw (snd st) + length b /\
  length b' + 2 <= length b.
Proof.
  unfold read_pair. destruct (raw_first b) as [[[kt kraw] r1]|] eqn:R1; [|discriminate].
  destruct (key_as_int kt) as [k|]; [|discriminate].
  destruct (raw_first r1) as [[[vt raw] r2]|] eqn:R2; [|discriminate].
  destruct (PositiveMap.mem (zpos k) (fst st)); [discriminate|]. intro H. injection H as <- <-.
  apply raw_first_consumes in R1, R2. cbn [snd length total_raw fold_right]. fold (total_raw (snd st)). lia.
Qed.

Lemma read_pairs_S n st b :
  read_pairs (S n) st b = match read_pair st b with Some (st', b') => read_pairs n st' b' | None => None end.
Proof. reflexivity. Qed.

Lemma read_until_break_S f st b :
  read_until_break (S f) st b =
  match b with
  | [] => None
  | xff :: _ => Some (rev_append (snd st) [])
  | _ => match read_pair st b with Some (st', b') => read_until_break f st' b' | None => None end
  end.
Proof. reflexivity. Qed.

#[local] Opaque read_pair.

Lemma read_pairs_consumes : forall n st b st' b', read_pairs n st b = Some (st', b') ->
  length (snd st') = n + length (snd st) /\
  total_raw (snd st') + length b' + n <= total_raw (snd st) + length b /\
  length b' + 2 * n <= length b.
Proof.
  induction n as [|n IH]; intros st b st' b' H; [cbn [read_pairs] in H|rewrite read_pairs_S in H].
  - injection H as <- <-. lia.
  - destruct (read_pair st b) as [[st1 b1]|] eqn:R; [|discriminate].
    apply read_pair_consumes in R. apply IH in H. lia.
Qed.

Lemma read_until_break_consumes : forall fuel st b m, read_until_break fuel st b = Some m ->
  2 * length m <= 2 * length (snd st) + length b /\ total_raw m <= total_raw (snd st) + length b.
Proof.
  induction fuel as [|f IH]; intros st b m H; [discriminate|]. rewrite read_until_break_S in H.
  destruct b as [|x b0]; [discriminate|].
  assert (forall l : fmap, length (rev_append l []) = length l /\ total_raw (rev_append l []) = total_raw l) as Rv.
  { intro l. rewrite rev_append_rev, app_nil_r, rev_length. split; [reflexivity|].
    induction l as [|a l IHl]; [reflexivity|]. cbn [rev]. unfold total_raw in *. rewrite fold_right_app. cbn [fold_right].
    rewrite <- IHl. clear. generalize (rev l). intro q. induction q as [|y q IHq]; cbn [fold_right]; lia. }
  set (b := x :: b0) in *.
  assert (match read_pair st b with Some (st', b') => read_until_break f st' b' | None => None end = Some m \/
          Some (rev_append (snd st) []) = Some m) as [H'|H'].
  { clearbody b. revert H. generalize (match read_pair st b with Some (st', b') => read_until_break f st' b' | None => None end).
    generalize (Some (rev_append (snd st) [])). intros A B H. destruct x; auto. }
  - destruct (read_pair st b) as [[st1 b1]|] eqn:R; [|discriminate].
    apply read_pair_consumes in R. apply IH in H'. lia.
  - injection H' as <-. destruct (Rv (snd st)) as [-> ->]. subst b. cbn [length]. lia.
Qed.

(** FromCBOR: the map it returns has at most one entry per two input bytes, and its raw values
    together are no longer than the input -- whatever lengths the input declares *)
Theorem from_cbor_output_bounded (data : bytes) (m : fmap) : from_cbor data = Some m ->
  2 * length m <= length data /\ total_raw m <= length data.
Proof.
  unfold from_cbor, from_cbor_alloc. destruct data as [|h rest]; [discriminate|].
  set (v := Byte.to_N h).
  match goal with |- context [match ?X with Some _ => _ | None => _ end] => destruct X as [[[mj ai2] r]|] eqn:AT end; [|discriminate].
  assert (length r <= length rest) as Rr.
  { destruct (v / 32 =? 6)%N.
    - destruct (process_ai (v mod 32) rest) as [[l r0]|] eqn:P; [|discriminate].
      apply process_ai_rest in P. destruct r0 as [|h2 r2]; [discriminate|]. injection AT as _ _ <-.
      unfold blen in *. cbn [length] in P. lia.
    - injection AT as _ _ <-. lia. }
  destruct (negb (mj =? 5)%N); [discriminate|].
  destruct (process_ai ai2 r) as [[len r']|] eqn:P2; [|discriminate].
  apply process_ai_rest in P2. unfold blen in P2.
  destruct (ai2 =? 31)%N.
  - cbn [fst]. intro H. apply read_until_break_consumes in H. cbn [st0 snd length total_raw fold_right] in H. cbn [length]. lia.
  - destruct (negb (at_least r' (2 * len))); [discriminate|]. cbn [fst].
    destruct (read_pairs (N.to_nat len) st0 r') as [[st br]|] eqn:RP; [|discriminate].
    intro H. injection H as <-. apply read_pairs_consumes in RP. cbn [st0 snd length total_raw fold_right] in RP.
    rewrite rev_append_rev, app_nil_r, rev_length. cbn [length].
    assert (total_raw (rev (snd st)) = total_raw (snd st)) as ->.
    { generalize (snd st). intro l. induction l as [|a l IHl]; [reflexivity|]. cbn [rev]. unfold total_raw in *. rewrite fold_right_app. cbn [fold_right].
      rewrite <- IHl. clear. generalize (rev l). intro q. induction q as [|y q IHq]; cbn [fold_right]; lia. }
    lia.
Qed.
