(** Runner for codec cases:
      ENC <13 claims tokens>      EncodeClaimsToCBOR
      DEC <hex>                   DecodeClaimsFromCBOR, then Validate and all getters
      RT  <13 claims tokens>      encode, decode the result, re-encode *)
From Coq Require Import String.
From PSA Require Import Base Lines Lifecycle Regex Claims Cbor Utf8 Tags Wire Codec Obs CaseClaims.
Open Scope N_scope.

Definition tok_enc (w : wcfg) (c : claims) : bytes :=
  match encode_cbor w c with
  | Some b =>
      (* Go distinguishes a nil from an empty component slice when profile 2 encodes it (f6 vs 80); the model does not *)
      match c_kind c, c_swc c, c_profile c with
      | K2, Some [], _ => s2b "*"
      | _, _, Some (POid _) => s2b "*"          (* OID profiles are outside the model *)
      | _, _, _ => s2b "ok:" ++ hex_of b
      end
  | None => s2b "err"
  end.

Definition star (n : nat) : list bytes := repeat (s2b "*") n.

Definition obs_decoded (cc : ccfg) (r : dres claims) : list bytes :=
  match r with
  | DOk c => s2b "ok" :: print_claims c ++ obs_getters cc c
  | DErr => [s2b "err"]
  | DUnmodelled => [s2b "*"]
  end.

Definition run_enc (w : wcfg) (args : list bytes) : bytes :=
  match parse_claims args with
  | Some (c, []) => tok_enc w c
  | _ => bad_input
  end.

Definition run_dec (cc : ccfg) (w : wcfg) (args : list bytes) : bytes :=
  match args with
  | [h] => match parse_hex h with
           | Some b => join_sp (obs_decoded cc (decode_cbor cc w b))
           | None => bad_input
           end
  | _ => bad_input
  end.

Definition run_rt (cc : ccfg) (w : wcfg) (args : list bytes) : bytes :=
  match parse_claims args with
  | Some (c, []) =>
      match encode_cbor w c with
      | None => s2b "err"
      | Some b =>
          match c_kind c, c_swc c, c_profile c with
          | K2, Some [], _ => s2b "*"
          | _, _, Some (POid _) => s2b "*"
          | _, _, _ =>
              let r := decode_cbor cc w b in
              join_sp (tok_enc w c :: obs_decoded cc r ++
                       [match r with DOk c' => tok_enc w c' | _ => s2b "-" end])
          end
      end
  | _ => bad_input
  end.
