(** Runner for codec cases:
      ENC <13 claims tokens>      EncodeClaimsToCBOR
      DEC <hex>                   DecodeClaimsFromCBOR, then Validate and all getters
      RT  <13 claims tokens>      encode, decode the result, re-encode *)
From Coq Require Import String.
From PSA Require Import Base Lines Lifecycle Regex Claims Cbor Utf8 Tags Wire Codec Evidence Gates Obs CaseClaims RunHist.
Open Scope N_scope.

Definition tok_enc (w : wcfg) (c : claims) : bytes :=
  match encode_cbor w c with
  | Some b =>
      (* Go distinguishes a nil from an empty component slice when profile 2 encodes it (f6 vs 80); the model does not *)
      match c_kind c, c_swc c, c_profile c with
      | K2, Some [], _ => s2b "*"
      | _, _, Some (POid _) => s2b "*"          (* OID profiles are outside the model *)
      | _, _, _ => s2b "ok:" ++ hex_of b
      end
  | None => s2b "err"
  end.

Definition star (n : nat) : list bytes := repeat (s2b "*") n.

Definition obs_decoded (cc : ccfg) (r : dres claims) : list bytes :=
  match r with
  | DOk c => s2b "ok" :: print_claims c ++ obs_getters cc c
  | DErr => [s2b "err"]
  | DUnmodelled => [s2b "*"]
  end.

Definition run_enc (w : wcfg) (args : list bytes) : bytes :=
  match parse_claims args with
  | Some (c, []) => tok_enc w c
  | _ => bad_input
  end.

Definition run_dec (cc : ccfg) (w : wcfg) (args : list bytes) : bytes :=
  match args with
  | [h] => match parse_hex h with
           | Some b => join_sp (obs_decoded cc (decode_cbor cc w b)) ++ s2b " ## lenient=" ++ bool_tok (lenient_cbor cc w b)
           | None => bad_input
           end
  | _ => bad_input
  end.

(** REENC <hex>: decode, then encode what was decoded *)
Definition run_reenc (cc : ccfg) (w : wcfg) (args : list bytes) : bytes :=
  match args with
  | [h] => match parse_hex h with
           | Some b =>
               match decode_cbor cc w b with
               | DOk c =>
                   match c_kind c, c_swc c with
                   | K2, Some [] => s2b "*"
                   | _, _ => match encode_cbor w c with Some e => s2b "ok:" ++ hex_of e | None => s2b "encerr" end
                   end
               | DErr => s2b "err"
               | DUnmodelled => s2b "*"
               end
           | None => bad_input
           end
  | _ => bad_input
  end.

Definition run_rt (cc : ccfg) (w : wcfg) (args : list bytes) : bytes :=
  match parse_claims args with
  | Some (c, []) =>
      match encode_cbor w c with
      | None => join_sp (obs_getters cc c ++ [s2b "err"])
      | Some b =>
          match c_kind c, c_swc c, c_profile c with
          | K2, Some [], _ => s2b "*"
          | _, _, Some (POid _) => s2b "*"
          | _, _, _ =>
              let r := decode_cbor cc w b in
              join_sp (obs_getters cc c ++ tok_enc w c :: obs_decoded cc r ++
                       [match r with DOk c' => tok_enc w c' | _ => s2b "-" end])
          end
      end
  | _ => bad_input
  end.

(** GATE <13 claims tokens>: Validate, ValidateAndEncodeClaimsToCBOR vs EncodeClaimsToCBOR,
    Evidence.SetClaims (result, attached?), ValidateAndSign with a good signer (result) *)
Definition tok_optbytes (k : kind) (c : claims) (o : option bytes) : bytes :=
  match o with
  | None => s2b "err"
  | Some b => match c_kind c, c_swc c, c_profile c with
              | K2, Some [], _ => s2b "*"
              | _, _, Some (POid _) => s2b "*"
              | _, _, _ => s2b "ok:" ++ hex_of b
              end
  end.

Definition run_gate (cc : ccfg) (w : wcfg) (args : list bytes) : bytes :=
  match parse_claims args with
  | Some (c, []) =>
      let v := validate cc c in
      let e0 := {| e_claims := None; e_msg := None |} in
      let '(e1, o1) := step cc w (fun _ => (-7)%Z) (fun _ => true) e0 (ESetClaims c) in
      let '(_, o2) := step cc w (fun _ => (-7)%Z) (fun _ => true) {| e_claims := Some c; e_msg := None |}
                           (ESign true {| sg_key := 1; sg_alg := (-7)%Z; sg_beh := SignsOk |}) in
      join_sp [ tok_res_unit v;
                tok_optbytes (c_kind c) c (validate_and_encode cc w c);
                tok_optbytes (c_kind c) c (encode_cbor w c);
                match o1 with OutErr => s2b "err" | _ => s2b "ok" end;
                match e_claims e1 with Some _ => s2b "1" | None => s2b "0" end;
                match o2 with OutErr => s2b "err" | _ => s2b "ok" end ]
  | _ => bad_input
  end.

(** DECV <hex>: DecodeAndValidateClaimsFromCBOR, DecodeClaimsFromCBOR, and
    DecodeAndValidateEvidenceFromCOSE / DecodeEvidenceFromCOSE of an envelope around the bytes *)
Definition run_decv (cc : ccfg) (w : wcfg) (args : list bytes) : bytes :=
  match args with
  | [h] => match parse_hex h with
           | Some b =>
               let d := decode_cbor cc w b in
               let dv := decode_and_validate cc w b in
               let t (r : dres claims) := match r with DOk _ => s2b "ok" | DErr => s2b "err" | DUnmodelled => s2b "*" end in
               join_sp [t dv; t d; t dv; t d]
           | None => bad_input
           end
  | _ => bad_input
  end.

(** ENCH new1|new1np|new2 <op>*: build a claims-set through setters, then encode *)
Definition run_ench (cc : ccfg) (w : wcfg) (args : list bytes) : bytes :=
  match args with
  | init :: ops =>
      let start :=
        if bytes_eqb init (s2b "new1") then Some (new_p1 cc true)
        else if bytes_eqb init (s2b "new1np") then Some (new_p1 cc false)
        else if bytes_eqb init (s2b "new2") then Some (new_p2 cc)
        else None in
      match start with
      | Some c0 =>
          let fix go (c : claims) (ops : list bytes) : option claims :=
            match ops with
            | [] => Some c
            | op :: r => match RunHist.apply_op cc c op with Some (c', _) => go c' r | None => None end
            end in
          match go c0 ops with
          | Some c => join_sp [tok_res_unit (validate cc c); tok_enc w c]
          | None => bad_input
          end
      | None => bad_input
      end
  | [] => bad_input
  end.
