(** Round trip of the claims wire codec (specified tables): decoding what
    the encoder emits gives back, observably, the same claims-set. *)
From Coq Require Import Arith ZArith String ZifyN ZifyBool ZifyNat.
From PSA Require Import Base Lines Lifecycle Regex Claims ClaimsSpec Cbor CborProofs Utf8 Tags Wire WireProofs Codec SetterProofs.
From PSA.Spec Require Import SpecTables SpecTags.
Open Scope N_scope.

Notation S := spec_ccfg.
Notation SW := spec_swc_fields.
Definition W : wcfg := {| w_p1 := spec_p1_fields; w_p2 := spec_p2_fields; w_swc := spec_swc_fields |}.

(** * what can be put on the wire and read back *)

Definition text_ok (o : option bytes) : Prop := match o with Some s => utf8_valid s = true /\ blen s < 2 ^ 64 | None => True end.
Definition bytes_ok (o : option bytes) : Prop := match o with Some s => blen s < 2 ^ 64 | None => True end.

Definition swc_ok (s : swc) : Prop :=
  text_ok (sw_mtype s) /\ bytes_ok (sw_mval s) /\ text_ok (sw_version s) /\ bytes_ok (sw_signer s) /\ text_ok (sw_mdesc s).

Definition oswc_ok (o : option swc) : Prop := match o with Some s => swc_ok s | None => True end.

(** * components *)

Definition swc_value (f : field_tag) (s : swc) : option (option cbor) :=
  Some (enc_optbytes (kind_of_type (f_type f)) (swc_field s (swslot_of_name (f_name f)))).

Definition putf_swc (f : field_tag) (s acc : swc) : swc :=
  match swslot_of_name (f_name f) with
  | WMtype => {| sw_mtype := sw_mtype s; sw_mval := sw_mval acc; sw_version := sw_version acc; sw_signer := sw_signer acc; sw_mdesc := sw_mdesc acc |}
  | WMval => {| sw_mtype := sw_mtype acc; sw_mval := sw_mval s; sw_version := sw_version acc; sw_signer := sw_signer acc; sw_mdesc := sw_mdesc acc |}
  | WVersion => {| sw_mtype := sw_mtype acc; sw_mval := sw_mval acc; sw_version := sw_version s; sw_signer := sw_signer acc; sw_mdesc := sw_mdesc acc |}
  | WSigner => {| sw_mtype := sw_mtype acc; sw_mval := sw_mval acc; sw_version := sw_version acc; sw_signer := sw_signer s; sw_mdesc := sw_mdesc acc |}
  | WMdesc => {| sw_mtype := sw_mtype acc; sw_mval := sw_mval acc; sw_version := sw_version acc; sw_signer := sw_signer acc; sw_mdesc := sw_mdesc s |}
  | WNoSlot => acc
  end.

Ltac in_cases H := repeat (destruct H as [<-|H]); [..|destruct H].

Lemma sw_tags_found f : In f SW -> f_skip f = false -> find_field SW (f_key f) = Some f /\ key_small f.
Proof. intros H _. in_cases H; (split; [vm_compute; reflexivity | unfold key_small; cbn; lia]). Qed.

Lemma sw_set_value s : swc_ok s -> forall f v acc, In f SW -> f_skip f = false ->
  swc_value f s = Some (Some v) -> set_swc_field f v acc = Some (putf_swc f s acc).
Proof.
  intros Ok f v acc H _ V. destruct s as [mt mv ve si md]. destruct Ok as (Mt & Mv & Ve & Si & Md). cbn in Mt, Mv, Ve, Si, Md.
  in_cases H; unfold swc_value in V; cbn in V.
  - destruct mt as [b|]; [|discriminate]. injection V as <-. destruct Mt as [U _].
    unfold set_swc_field, putf_swc. cbn. rewrite U. reflexivity.
  - destruct mv as [b|]; [|discriminate]. injection V as <-. reflexivity.
  - destruct ve as [b|]; [|discriminate]. injection V as <-. destruct Ve as [U _].
    unfold set_swc_field, putf_swc. cbn. rewrite U. reflexivity.
  - destruct si as [b|]; [|discriminate]. injection V as <-. reflexivity.
  - destruct md as [b|]; [|discriminate]. injection V as <-. destruct Md as [U _].
    unfold set_swc_field, putf_swc. cbn. rewrite U. reflexivity.
Qed.

Lemma sw_set_null s : forall f acc, In f SW -> f_skip f = false -> f_omitempty f = false ->
  swc_value f s = Some None -> set_swc_field f c_null acc = Some (putf_swc f s acc).
Proof.
  intros f acc H _ Om V. destruct s as [mt mv ve si md].
  in_cases H; try discriminate Om; unfold swc_value in V; cbn in V.
  - destruct mv as [b|]; [discriminate|]. reflexivity.
  - destruct si as [b|]; [discriminate|]. reflexivity.
Qed.

Lemma sw_nodup : NoDup (map f_key (filter (fun f => negb (f_skip f)) SW)).
Proof. cbn. repeat constructor; cbn; intuition discriminate. Qed.

Lemma enc_swc_some s : exists kvs, enc_fields_gen swc_value SW s = Some kvs /\ enc_swc SW s = Some (CMap kvs).
Proof.
  unfold enc_swc. change (fun f s0 => Some (enc_optbytes (kind_of_type (f_type f)) (swc_field s0 (swslot_of_name (f_name f))))) with swc_value.
  destruct s as [[a|] [b|] [c|] [d|] [e|]]; cbn; eexists; split; reflexivity.
Qed.

Theorem dec_enc_swc s : swc_ok s ->
  exists t, enc_swc SW s = Some t /\ dec_swc SW t = Some (Some s).
Proof.
  intro Ok. destruct (enc_swc_some s) as (kvs & E & ->). eexists; split; [reflexivity|].
  unfold dec_swc. cbn [is_nil].
  destruct (dec_enc_fields SW set_swc_field swc_value putf_swc s sw_tags_found (sw_set_value s Ok) (sw_set_null s)
              SW kvs [] empty_swc (fun f H => H) sw_nodup (fun _ _ _ => eq_refl) E) as [found' D].
  rewrite D. cbn [dec_pairs].
  destruct s as [[a|] [b|] [c|] [d|] [e|]]; reflexivity.
Qed.

Theorem dec_enc_swcs l : Forall oswc_ok l ->
  exists cs, enc_swcs SW l = Some cs /\ all_some (map (dec_swc SW) cs) = Some l.
Proof.
  induction 1 as [|o l Ho Hl IH]; [exists []; split; reflexivity|].
  destruct IH as (cs & E & D). destruct o as [s|]; cbn [enc_swcs].
  - destruct (dec_enc_swc s Ho) as (t & Et & Dt). rewrite Et, E. eexists; split; [reflexivity|].
    cbn [map all_some]. rewrite Dt, D. reflexivity.
  - rewrite E. eexists; split; [reflexivity|]. cbn [map all_some]. rewrite D. reflexivity.
Qed.

(** * claims *)

Arguments dec_uint : simpl never.
Arguments dec_int : simpl never.
Arguments dec_text : simpl never.
Arguments dec_swcs : simpl never.
Arguments dec_nonce : simpl never.
Arguments has_tag : simpl never.

Lemma dec_text_ok s : utf8_valid s = true -> dec_text (CText s) = Some s.
Proof. intro H. unfold dec_text. rewrite H. reflexivity. Qed.

Definition claims_wire_ok (c : claims) : Prop :=
  c_canon c = (match c_kind c with K1 => prof1 S | K2 => prof2 S end) /\
  (match c_kind c, c_profile c with
   | K1, None => True
   | K1, Some (PStr s) => utf8_valid s = true /\ blen s < 2 ^ 64
   | K2, Some (PStr s) => s = prof2 S
   | _, _ => False
   end) /\
  (match c_client c with Some z => (- 2 ^ 31 <= z < 2 ^ 31)%Z | None => True end) /\
  (match c_lc c with Some n => n < 2 ^ 16 | None => True end) /\
  bytes_ok (c_impl c) /\ bytes_ok (c_boot c) /\ text_ok (c_cert c) /\
  (match c_swc c with Some l => Forall oswc_ok l /\ N.of_nat (length l) < 2 ^ 64 | None => True end) /\
  (match c_nosw c with Some n => n < 2 ^ 64 /\ c_kind c = K1 | None => True end) /\
  (match c_nonce c with
   | Some l => Forall (fun b => blen b < 2 ^ 64) l /\ N.of_nat (length l) < 2 ^ 64 /\ (c_kind c = K1 -> exists b, l = [b])
   | None => True end) /\
  bytes_ok (c_inst c) /\ text_ok (c_vsi c).

Lemma dec_int_enc bits z : (- 2 ^ (Z.of_N bits - 1) <= z < 2 ^ (Z.of_N bits - 1))%Z -> 1 <= bits ->
  dec_int bits (enc_int z) = Some z.
Proof.
  intros H Hb. unfold enc_int, dec_int.
  assert (Z.of_N (2 ^ (bits - 1)) = (2 ^ (Z.of_N bits - 1))%Z) as P by (rewrite N2Z.inj_pow; f_equal; lia).
  destruct z as [|p|p].
  - cbn [as_uint Z.to_N]. destruct (N.ltb_spec 0 (2 ^ (bits - 1))); [reflexivity|]. lia.
  - cbn [as_uint]. destruct (N.ltb_spec (Z.to_N (Z.pos p)) (2 ^ (bits - 1))); [rewrite Z2N.id by lia; reflexivity|lia].
  - destruct (N.ltb_spec (Z.to_N (- Z.neg p - 1)) (2 ^ (bits - 1))); [|lia].
    f_equal. rewrite Z2N.id by lia. lia.
Qed.

Lemma dec_uint_enc bits n : n < 2 ^ bits -> dec_uint bits (CUint n) = Some n.
Proof. intro H. unfold dec_uint. cbn [as_uint]. destruct (N.ltb_spec n (2 ^ bits)); [reflexivity|lia]. Qed.

Lemma all_some_nonce l : all_some (map dec_nonce_elem (map CBytes l)) = Some l.
Proof. induction l as [|b l IH]; cbn; [reflexivity|]. cbn in IH. rewrite IH. reflexivity. Qed.

Definition putf_claim (f : field_tag) (c acc : claims) : claims :=
  match slot_of_name (f_name f) with
  | SProfile => upd_profile acc (c_profile c)
  | SClient => upd_client acc (c_client c)
  | SLc => upd_lc acc (c_lc c)
  | SImpl => upd_impl acc (c_impl c)
  | SBoot => upd_boot acc (c_boot c)
  | SCert => upd_cert acc (c_cert c)
  | SSwc => upd_swc acc (Some (comps c)) (c_nosw acc)
  | SNosw => upd_swc acc (c_swc acc) (c_nosw c)
  | SNonce => upd_nonce acc (c_nonce c)
  | SInst => upd_inst acc (c_inst c)
  | SVsi => upd_vsi acc (c_vsi c)
  | SNoSlot => acc
  end.

Lemma p1_tags_found f : In f spec_p1_fields -> f_skip f = false -> find_field spec_p1_fields (f_key f) = Some f /\ key_small f.
Proof. intros H Sk. in_cases H; try discriminate Sk; (split; [vm_compute; reflexivity | unfold key_small; cbn; lia]). Qed.

Lemma p2_tags_found f : In f spec_p2_fields -> f_skip f = false -> find_field spec_p2_fields (f_key f) = Some f /\ key_small f.
Proof. intros H Sk. in_cases H; try discriminate Sk; (split; [vm_compute; reflexivity | unfold key_small; cbn; lia]). Qed.

Lemma p1_nodup : NoDup (map f_key (filter (fun f => negb (f_skip f)) spec_p1_fields)).
Proof. cbn. repeat constructor; cbn; intuition discriminate. Qed.
Lemma p2_nodup : NoDup (map f_key (filter (fun f => negb (f_skip f)) spec_p2_fields)).
Proof. cbn. repeat constructor; cbn; intuition discriminate. Qed.

(** the value the encoder emits for a field decodes back into that field *)
Lemma claim_set_value c : claims_wire_ok c -> forall f v acc,
  In f (tags_of W (c_kind c)) -> f_skip f = false ->
  claim_value SW f c = Some (Some v) -> set_claim_field SW f v acc = Some (putf_claim f c acc).
Proof.
  intros Ok f v acc H Sk V.
  destruct c as [k p cl lc im bo ce sw ns no ins vs can].
  destruct Ok as (Ca & Pr & Cl & Lc & Im & Bo & Ce & Sw & Ns & No & In_ & Vs). cbn in Ca, Pr, Cl, Lc, Im, Bo, Ce, Sw, Ns, No, In_, Vs.
  destruct k; cbn [tags_of W w_p1 w_p2 c_kind] in H; in_cases H; try discriminate Sk;
    unfold claim_value in V; cbn in V; unfold set_claim_field, putf_claim; cbn.
  (* ---- profile 1 ---- *)
  - destruct p as [[s| |]|]; try discriminate; try contradiction. injection V as <-. destruct Pr as [U _]. cbn. rewrite (dec_text_ok s U). reflexivity.
  - destruct cl as [z|]; [|discriminate]. injection V as <-.
    assert (is_nil (enc_int z) = false) as -> by (destruct z; reflexivity).
    rewrite (dec_int_enc 32 z) by (cbn; lia). reflexivity.
  - destruct lc as [n|]; [|discriminate]. injection V as <-. cbn. rewrite (dec_uint_enc 16 n) by exact Lc. reflexivity.
  - destruct im as [b|]; [|discriminate]. injection V as <-. reflexivity.
  - destruct bo as [b|]; [|discriminate]. injection V as <-. reflexivity.
  - destruct ce as [b|]; [|discriminate]. injection V as <-. destruct Ce as [U _]. cbn. rewrite (dec_text_ok b U). reflexivity.
  - destruct sw as [[|o l]|]; try discriminate.
    destruct Sw as [Fo _]. destruct (dec_enc_swcs (o :: l) Fo) as (cs & E & D). rewrite E in V. injection V as <-.
    cbn. unfold dec_swcs. cbn [is_nil]. rewrite D. reflexivity.
  - destruct ns as [n|]; [|discriminate]. injection V as <-. cbn. rewrite (dec_uint_enc 64 n) by (apply Ns). reflexivity.
  - destruct no as [[|b [|b' l]]|]; try discriminate. injection V as <-. reflexivity.
  - destruct ins as [b|]; [|discriminate]. injection V as <-. reflexivity.
  - destruct vs as [b|]; [|discriminate]. injection V as <-. destruct Vs as [U _]. cbn. rewrite (dec_text_ok b U). reflexivity.
  (* ---- profile 2 ---- *)
  - destruct p as [[s| |]|]; try discriminate; try contradiction. injection V as <-. subst s. reflexivity.
  - destruct cl as [z|]; [|discriminate]. injection V as <-.
    assert (is_nil (enc_int z) = false) as -> by (destruct z; reflexivity).
    rewrite (dec_int_enc 32 z) by (cbn; lia). reflexivity.
  - destruct lc as [n|]; [|discriminate]. injection V as <-. cbn. rewrite (dec_uint_enc 16 n) by exact Lc. reflexivity.
  - destruct im as [b|]; [|discriminate]. injection V as <-. reflexivity.
  - destruct bo as [b|]; [|discriminate]. injection V as <-. reflexivity.
  - destruct ce as [b|]; [|discriminate]. injection V as <-. destruct Ce as [U _]. cbn. rewrite (dec_text_ok b U). reflexivity.
  - destruct sw as [l|]; try discriminate.
    destruct Sw as [Fo _]. destruct (dec_enc_swcs l Fo) as (cs & E & D). rewrite E in V. injection V as <-.
    cbn. unfold dec_swcs. cbn [is_nil]. rewrite D. reflexivity.
  - destruct no as [[|b [|b' l]]|]; try discriminate.
    + destruct (nonce_len_ok b); [|discriminate]. injection V as <-. reflexivity.
    + destruct (forallb nonce_len_ok (b :: b' :: l)); [|discriminate]. injection V as <-.
      cbn [is_nil]. unfold dec_nonce. change (CBytes b :: CBytes b' :: map CBytes l) with (map CBytes (b :: b' :: l)). rewrite all_some_nonce. reflexivity.
  - destruct ins as [b|]; [|discriminate]. injection V as <-. reflexivity.
  - destruct vs as [b|]; [|discriminate]. injection V as <-. destruct Vs as [U _]. cbn. rewrite (dec_text_ok b U). reflexivity.
Qed.

Lemma claim_set_null c : forall f acc,
  In f (tags_of W (c_kind c)) -> f_skip f = false -> f_omitempty f = false ->
  claim_value SW f c = Some None -> set_claim_field SW f c_null acc = Some (putf_claim f c acc).
Proof.
  intros f acc H Sk Om V.
  destruct c as [k p cl lc im bo ce sw ns no ins vs can].
  destruct k; cbn [tags_of W w_p1 w_p2 c_kind] in H; in_cases H; try discriminate Sk; try discriminate Om;
    unfold claim_value in V; cbn in V; unfold set_claim_field, putf_claim; cbn.
  - destruct cl; [discriminate|reflexivity].
  - destruct lc; [discriminate|reflexivity].
  - destruct im; [discriminate|reflexivity].
  - destruct bo; [discriminate|reflexivity].
  - destruct no as [[|b [|b' l]]|]; try discriminate. reflexivity.
  - destruct ins; [discriminate|reflexivity].
  - destruct p as [[s| |]|]; try discriminate. reflexivity.
  - destruct cl; [discriminate|reflexivity].
  - destruct lc; [discriminate|reflexivity].
  - destruct im; [discriminate|reflexivity].
  - destruct sw as [l|]; [destruct (enc_swcs SW l); discriminate|]. reflexivity.
  - destruct no as [[|b [|b' l]]|]; try discriminate; [destruct (nonce_len_ok b); discriminate|destruct (forallb nonce_len_ok (b :: b' :: l)); discriminate|reflexivity].
  - destruct ins; [discriminate|reflexivity].
Qed.

(** * the emitted tree is well-formed, shallow and inside the modelled space *)

Definition good_tree (fuel : nat) (t : cbor) : Prop := wf t /\ (depth t <= 2)%nat /\ has_tag fuel t = false.

Lemma enc_swc_facts s t : swc_ok s -> enc_swc SW s = Some t ->
  wf t /\ depth t = 1%nat /\ has_tag 39 t = false /\ match t with CMap m => unmodelled_pairs SW m = false | _ => False end.
Proof.
  intros (Mt & Mv & Ve & Si & Md) E. unfold enc_swc in E.
  destruct s as [[a|] [b|] [c|] [d|] [e|]]; cbn in E; injection E as <-; cbn in Mt, Mv, Ve, Si, Md;
    repeat match goal with H : _ /\ _ |- _ => destruct H end;
    (split; [cbn; repeat split; try lia; assumption|]); (split; [reflexivity|]); split; reflexivity.
Qed.

Lemma enc_swcs_facts l cs : Forall oswc_ok l -> enc_swcs SW l = Some cs ->
  length cs = length l /\
  Forall (fun t => wf t /\ (depth t <= 1)%nat /\ has_tag 39 t = false /\
                   match t with CMap m => unmodelled_pairs SW m = false | _ => True end) cs.
Proof.
  intro F. revert cs. induction F as [|o l Ho Hl IH]; intros cs E.
  - cbn in E. injection E as <-. split; [reflexivity|constructor].
  - cbn [enc_swcs] in E. destruct o as [s|].
    + destruct (enc_swc SW s) as [t|] eqn:Et; [|discriminate]. destruct (enc_swcs SW l) as [r|] eqn:Er; [|discriminate].
      injection E as <-. destruct (IH r eq_refl) as [L Fr]. split; [cbn; lia|].
      constructor; [|exact Fr]. destruct (enc_swc_facts s t Ho Et) as (A & B & C & D).
      repeat split; auto; [lia|]. destruct t; auto.
    + destruct (enc_swcs SW l) as [r|] eqn:Er; [|discriminate]. injection E as <-.
      destruct (IH r eq_refl) as [L Fr]. split; [cbn; lia|]. constructor; [|exact Fr]. repeat split; cbn; auto; lia.
Qed.

Lemma depth_array_le (cs : list cbor) n : Forall (fun t => (depth t <= n)%nat) cs -> (depth (CArray cs) <= Datatypes.S n)%nat.
Proof. intro F. cbn. apply le_n_S. induction F; cbn; lia. Qed.

Lemma wf_array (cs : list cbor) : N.of_nat (length cs) < 2 ^ 64 -> Forall wf cs -> wf (CArray cs).
Proof. intros L F. cbn [wf]. split; [exact L|]. clear L. induction F as [|x l Hx Hl IH]; cbn [fold_right]; [exact I|split; assumption]. Qed.

Lemma has_tag_array f (cs : list cbor) : Forall (fun t => has_tag f t = false) cs -> has_tag (Datatypes.S f) (CArray cs) = false.
Proof.
  intro F. change (has_tag (Datatypes.S f) (CArray cs)) with (existsb (has_tag f) cs).
  induction F as [|x l Hx Hl IH]; cbn [existsb]; [reflexivity|]. rewrite Hx. exact IH.
Qed.

(** every value the encoder emits for a claim *)
Lemma claim_value_facts c f v : claims_wire_ok c -> In f (tags_of W (c_kind c)) ->
  claim_value SW f c = Some (Some v) ->
  wf v /\ (depth v <= 2)%nat /\ has_tag 40 v = false /\
  match v with CArray l => Forall (fun e => match e with CMap m => unmodelled_pairs SW m = false | _ => True end) l | _ => True end.
Proof.
  intros Ok H V.
  destruct c as [k p cl lc im bo ce sw ns no ins vs can].
  destruct Ok as (Ca & Pr & Cl & Lc & Im & Bo & Ce & Sw & Ns & No & In_ & Vs). cbn in Ca, Pr, Cl, Lc, Im, Bo, Ce, Sw, Ns, No, In_, Vs.
  assert (forall z, (- 2 ^ 31 <= z < 2 ^ 31)%Z -> wf (enc_int z) /\ (depth (enc_int z) <= 2)%nat /\ has_tag 40 (enc_int z) = false /\ match enc_int z with CArray _ => False | _ => True end) as IntF.
  { intros z Hz. unfold enc_int. destruct z; repeat split; cbn [wf depth has_tag]; try lia; try reflexivity; try exact I. }
  assert (forall n, n < 2 ^ 64 -> wf (CUint n) /\ (depth (CUint n) <= 2)%nat /\ has_tag 40 (CUint n) = false /\ True) as UF.
  { intros n Hn. repeat split; [exact Hn | cbn; lia]. }
  assert (forall b, blen b < 2 ^ 64 -> wf (CBytes b) /\ (depth (CBytes b) <= 2)%nat /\ has_tag 40 (CBytes b) = false /\ True) as BF.
  { intros b Hb. repeat split; [exact Hb | cbn; lia]. }
  assert (forall b, blen b < 2 ^ 64 -> wf (CText b) /\ (depth (CText b) <= 2)%nat /\ has_tag 40 (CText b) = false /\ True) as TF.
  { intros b Hb. repeat split; [exact Hb | cbn; lia]. }
  assert (forall l cs, Forall oswc_ok l -> N.of_nat (length l) < 2 ^ 64 -> enc_swcs SW l = Some cs ->
          wf (CArray cs) /\ (depth (CArray cs) <= 2)%nat /\ has_tag 40 (CArray cs) = false /\
          Forall (fun e => match e with CMap m => unmodelled_pairs SW m = false | _ => True end) cs) as AF.
  { intros l cs Fo Ln E. destruct (enc_swcs_facts l cs Fo E) as [L Fc]. split; [|split; [|split]].
    - apply wf_array; [rewrite L; exact Ln|]. eapply Forall_impl; [|exact Fc]. cbv beta. tauto.
    - apply (depth_array_le cs 1). eapply Forall_impl; [|exact Fc]. cbv beta. tauto.
    - apply (has_tag_array 39). eapply Forall_impl; [|exact Fc]. cbv beta. tauto.
    - eapply Forall_impl; [|exact Fc]. cbv beta. tauto. }
  destruct k; cbn [tags_of W w_p1 w_p2 c_kind] in H; in_cases H; unfold claim_value in V; cbn in V; try discriminate V.
  (* ---- profile 1 ---- *)
  - destruct p as [[s| |]|]; try discriminate; try contradiction. injection V as <-. apply TF; apply Pr.
  - destruct cl as [z|]; [|discriminate]. injection V as <-.
    destruct (IntF z Cl) as (A & B & C & D). split; [exact A|split; [exact B|split; [exact C|]]]. destruct (enc_int z); auto; contradiction.
  - destruct lc as [n|]; [|discriminate]. injection V as <-. apply UF. lia.
  - destruct im as [b|]; [|discriminate]. injection V as <-. apply BF; apply Im.
  - destruct bo as [b|]; [|discriminate]. injection V as <-. apply BF; apply Bo.
  - destruct ce as [b|]; [|discriminate]. injection V as <-. apply TF; apply Ce.
  - destruct sw as [[|o l]|]; try discriminate. destruct Sw as [Fo Ln].
    destruct (enc_swcs SW (o :: l)) as [cs|] eqn:E; [|discriminate]. injection V as <-. eapply AF; eauto.
  - destruct ns as [n|]; [|discriminate]. injection V as <-. apply UF; apply Ns.
  - destruct no as [[|b [|b' l]]|]; try discriminate. injection V as <-. destruct No as [Fb _].
    inversion Fb; subst. apply BF. assumption.
  - destruct ins as [b|]; [|discriminate]. injection V as <-. apply BF; apply In_.
  - destruct vs as [b|]; [|discriminate]. injection V as <-. apply TF; apply Vs.
  (* ---- profile 2 ---- *)
  - destruct p as [[s| |]|]; try discriminate; try contradiction. injection V as <-. subst s. apply TF. vm_compute. reflexivity.
  - destruct cl as [z|]; [|discriminate]. injection V as <-.
    destruct (IntF z Cl) as (A & B & C & D). split; [exact A|split; [exact B|split; [exact C|]]]. destruct (enc_int z); auto; contradiction.
  - destruct lc as [n|]; [|discriminate]. injection V as <-. apply UF. lia.
  - destruct im as [b|]; [|discriminate]. injection V as <-. apply BF; apply Im.
  - destruct bo as [b|]; [|discriminate]. injection V as <-. apply BF; apply Bo.
  - destruct ce as [b|]; [|discriminate]. injection V as <-. apply TF; apply Ce.
  - destruct sw as [l|]; try discriminate. destruct Sw as [Fo Ln].
    destruct (enc_swcs SW l) as [cs|] eqn:E; [|discriminate]. injection V as <-. eapply AF; eauto.
  - destruct no as [[|b [|b' l]]|]; try discriminate.
    + destruct (nonce_len_ok b); [|discriminate]. injection V as <-. destruct No as [Fb _]. inversion Fb; subst.
      apply BF. assumption.
    + destruct (forallb nonce_len_ok (b :: b' :: l)); [|discriminate]. injection V as <-. destruct No as [Fb [Ln _]].
      change (CBytes b :: CBytes b' :: map CBytes l) with (map CBytes (b :: b' :: l)).
      split; [|split; [|split]].
      * apply wf_array; [rewrite map_length; exact Ln|]. clear - Fb. induction Fb; cbn [map]; constructor; auto.
      * apply Nat.le_trans with 1%nat; [|lia]. apply (depth_array_le _ 0). clear. induction (b :: b' :: l); cbn [map]; constructor; cbn; auto.
      * apply (has_tag_array 39). clear. induction (b :: b' :: l); cbn [map]; constructor; auto.
      * clear. induction (b :: b' :: l); cbn [map]; constructor; auto.
  - destruct ins as [b|]; [|discriminate]. injection V as <-. apply BF; apply In_.
  - destruct vs as [b|]; [|discriminate]. injection V as <-. apply TF; apply Vs.
Qed.

(** * the round trip *)

Lemma existsb_false {A} (p : A -> bool) l : Forall (fun x => p x = false) l -> existsb p l = false.
Proof. induction 1 as [|x l Hx Hl IH]; cbn; [reflexivity|]. rewrite Hx. exact IH. Qed.

Definition tags_k (k : kind) : list field_tag := tags_of W k.

Lemma tags_found_k k f : In f (tags_k k) -> f_skip f = false -> find_field (tags_k k) (f_key f) = Some f /\ key_small f.
Proof. destruct k; [apply p1_tags_found|apply p2_tags_found]. Qed.

Lemma nodup_k k : NoDup (map f_key (filter (fun f => negb (f_skip f)) (tags_k k))).
Proof. destruct k; [apply p1_nodup|apply p2_nodup]. Qed.

Definition kv_good (k : kind) (kv : cbor * cbor) : Prop :=
  exists f, In f (tags_k k) /\ f_skip f = false /\ key_small f /\ fst kv = enc_int (f_key f) /\
            find_field (tags_k k) (f_key f) = Some f /\
            wf (snd kv) /\ (depth (snd kv) <= 2)%nat /\ has_tag 40 (snd kv) = false /\
            match snd kv with
            | CArray l => Forall (fun e => match e with CMap m => unmodelled_pairs SW m = false | _ => True end) l
            | _ => True
            end.

Lemma kvs_good c kvs : claims_wire_ok c ->
  enc_fields_gen (claim_value SW) (tags_k (c_kind c)) c = Some kvs -> Forall (kv_good (c_kind c)) kvs.
Proof.
  intros Ok E. apply Forall_forall. intros kv Hin.
  destruct (enc_fields_keys (claim_value SW) c _ _ E kv Hin) as (f & Hf & Sk & Hk & Hv).
  destruct (tags_found_k _ f Hf Sk) as [FF KS].
  exists f. repeat (split; [assumption|]).
  destruct Hv as [V|[_ ->]].
  - apply (claim_value_facts c f (snd kv) Ok Hf V).
  - cbn. repeat split; lia.
Qed.

Lemma wf_map_of kvs k : Forall (kv_good k) kvs -> N.of_nat (length kvs) < 2 ^ 64 ->
  wf (CMap kvs) /\ (depth (CMap kvs) <= 3)%nat.
Proof.
  intros F L. split.
  - cbn [wf]. split; [exact L|]. clear L. induction F as [|kv l (f & _ & _ & KS & Hk & _ & Wv & _) Hl IH]; cbn [fold_right]; [exact I|].
    split; [|split; [exact Wv|exact IH]]. rewrite Hk. unfold key_small in KS. unfold enc_int. destruct (f_key f); cbn [wf]; lia.
  - cbn [depth]. apply le_n_S. clear L. induction F as [|kv l (f & _ & _ & KS & Hk & _ & _ & Dv & _) Hl IH]; cbn [fold_right]; [lia|].
    rewrite Hk. assert (depth (enc_int (f_key f)) = 0%nat) as -> by (unfold enc_int; destruct (f_key f); reflexivity). lia.
Qed.

Lemma enc_int_not_tag z : match enc_int z with CTag _ _ => true | _ => false end = false.
Proof. unfold enc_int. destruct z; reflexivity. Qed.

Lemma unmodelled_false_of_good k tags kvs : Forall (kv_good k) kvs -> unmodelled_pairs tags kvs = false.
Proof.
  intro F. unfold unmodelled_pairs. apply existsb_false. eapply Forall_impl; [|exact F].
  intros kv (f & _ & _ & KS & Hk & _ & _ & _ & HT & _). rewrite Hk, classify_enc_int by exact KS.
  rewrite enc_int_not_tag, orb_false_r. destruct (find_field tags (f_key f)); [exact HT|reflexivity].
Qed.

(** the selector sees the profile name iff key 265 is present *)
Definition sel_setf : field_tag -> cbor -> bytes -> option bytes := fun _ v s => if is_nil v then Some s else dec_text v.

Lemma selector_find z : find_field selector_tags z = if Z.eqb z 265 then find_field selector_tags 265 else None.
Proof.
  unfold find_field, selector_tags. cbn [find f_skip f_keyasint f_key negb andb].
  rewrite Z.eqb_sym. destruct (Z.eqb_spec z 265); [subst; reflexivity|reflexivity].
Qed.

Lemma selector_k1 kvs : Forall (kv_good K1) kvs ->
  dec_pairs selector_tags sel_setf kvs [] [] false = ([], false).
Proof.
  intro F. apply dec_pairs_foreign. intros kv Hin. rewrite Forall_forall in F.
  destruct (F kv Hin) as (f & Hf & Sk & KS & Hk & _). exists (f_key f). split; [exact KS|split; [exact Hk|]].
  rewrite selector_find. cbn [tags_k tags_of W w_p1] in Hf. in_cases Hf; try discriminate Sk; reflexivity.
Qed.

Lemma selector_k2 c kvs : claims_wire_ok c -> c_kind c = K2 ->
  enc_fields_gen (claim_value SW) (tags_k K2) c = Some kvs ->
  dec_pairs selector_tags sel_setf kvs [] [] false = (prof2 S, false).
Proof.
  intros Ok K E.
  assert (exists rest, kvs = (enc_int 265, CText (prof2 S)) :: rest /\
                       enc_fields_gen (claim_value SW) (tl (tags_k K2)) c = Some rest) as (rest & -> & R).
  { destruct c as [k p cl lc im bo ce sw ns no ins vs can]. cbn in K. subst k.
    destruct Ok as (_ & Pr & _). cbn in Pr. destruct p as [[s| |]|]; try contradiction. subst s.
    cbn [tags_k tags_of W w_p2 spec_p2_fields enc_fields_gen f_skip] in E.
    change (claim_value SW _ _) with (Some (Some (CText (prof2 S)))) in E at 1.
    cbv beta iota in E.
    match type of E with match ?x with _ => _ end = _ => destruct x as [rest|] eqn:R; [|discriminate] end.
    injection E as <-. exists rest. split; [reflexivity|exact R]. }
  cbn [dec_pairs]. change (classify_key (enc_int 265)) with (KInt 265%Z). cbn [zmem existsb].
  change (find_field selector_tags 265) with (Some (hd {| f_name := ""; f_type := ""; f_key := 0; f_keyasint := false; f_omitempty := false; f_skip := true; f_json := ""; f_json_omitempty := false; f_json_skip := true |} selector_tags)).
  cbv iota. unfold sel_setf at 1. cbn [is_nil].
  assert (dec_text (CText (prof2 S)) = Some (prof2 S)) as -> by (vm_compute; reflexivity).
  apply dec_pairs_foreign. intros kv Hin.
  destruct (enc_fields_keys (claim_value SW) c _ _ R kv Hin) as (f & Hf & Sk & Hk & _).
  assert (In f (tags_k K2)) as Hf2 by (right; exact Hf).
  destruct (tags_found_k K2 f Hf2 Sk) as [_ KS].
  exists (f_key f). split; [exact KS|split; [exact Hk|]].
  rewrite selector_find. cbn in Hf. in_cases Hf; try discriminate Sk; reflexivity.
Qed.

Lemma space2_ok k kvs : Forall (kv_good k) kvs ->
  existsb (fun kv => match classify_key (fst kv), snd kv with
                     | KInt z, CArray l =>
                         match find_field (tags_k k) z with
                         | Some f => match kind_of_type (f_type f) with
                                     | TSwcs => existsb (fun e => match e with CMap m => unmodelled_pairs SW m | _ => false end) l
                                     | _ => false
                                     end
                         | None => false
                         end
                     | _, _ => false
                     end) kvs = false.
Proof.
  intro F. apply existsb_false. eapply Forall_impl; [|exact F].
  intros kv (f & _ & _ & KS & Hk & _ & _ & _ & _ & HA). rewrite Hk, classify_enc_int by exact KS.
  destruct (snd kv); try reflexivity.
  destruct (find_field (tags_k k) (f_key f)); [|reflexivity]. destruct (kind_of_type (f_type f0)); try reflexivity.
  apply existsb_false. eapply Forall_impl; [|exact HA]. intros e He. destruct e; auto.
Qed.

(** [omitted] with the omitempty flag tested first, so that it computes for the fields that are never omitted *)
Definition is_nil_val (x : option (option cbor)) : bool := match x with Some None => true | _ => false end.

Definition om (c : claims) (f : field_tag) : bool :=
  f_skip f || (f_omitempty f && is_nil_val (claim_value SW f c)).

Lemma omitted_om c f : omitted (claim_value SW) c f = om c f.
Proof. unfold omitted, om, is_nil_val. destruct (f_skip f), (f_omitempty f), (claim_value SW f c) as [[|]|]; reflexivity. Qed.

Lemma fold_left_ext {A B} (g g' : A -> B -> A) (l : list B) : (forall a x, g a x = g' a x) -> forall a, fold_left g l a = fold_left g' l a.
Proof. intro H. induction l as [|x l IH]; intro a; cbn; [reflexivity|]. rewrite H. apply IH. Qed.

Lemma fold_filter {A B} (p : B -> bool) (g : A -> B -> A) (l : list B) : forall a,
  fold_left g (filter p l) a = fold_left (fun a x => if p x then g a x else a) l a.
Proof. induction l as [|x l IH]; intro a; cbn; [reflexivity|]. destruct (p x); cbn; apply IH. Qed.

Lemma emitted_fold c ts acc :
  fold_left (fun acc f => putf_claim f c acc) (emitted (claim_value SW) c ts) acc =
  fold_left (fun acc f => if om c f then acc else putf_claim f c acc) ts acc.
Proof.
  unfold emitted. rewrite fold_filter. apply fold_left_ext. intros a x. rewrite omitted_om. destruct (om c x); reflexivity.
Qed.

Arguments enc_swcs : simpl never.

(** decide every remaining "is this field's value nil" test by evaluation *)
Ltac decide_nil_tests :=
  repeat match goal with
  | |- context [is_nil_val (claim_value SW ?f ?c)] =>
      let X := fresh "X" in
      first [ assert (is_nil_val (claim_value SW f c) = true) as X
                by (unfold is_nil_val, claim_value; cbn; try destruct (enc_swcs _ _); reflexivity)
            | assert (is_nil_val (claim_value SW f c) = false) as X
                by (unfold is_nil_val, claim_value; cbn; try destruct (enc_swcs _ _); reflexivity) ];
      rewrite X; clear X
  end.

Lemma final_p1 c : c_kind c = K1 -> claims_wire_ok c ->
  view (fold_left (fun acc f => putf_claim f c acc) (emitted (claim_value SW) c spec_p1_fields) (upd_profile (new_p1 S true) None)) = view c.
Proof.
  intros K Ok. rewrite emitted_fold.
  destruct c as [k p cl lc im bo ce sw ns no ins vs can]. cbn in K. subst k.
  destruct Ok as (Ca & Pr & _). cbn in Ca, Pr. subst can.
  unfold spec_p1_fields, om. cbn [fold_left f_skip f_omitempty orb andb].
  destruct p as [[s| |]|]; try contradiction;
  destruct ce as [ce|]; destruct sw as [[|o l]|]; destruct ns as [ns|]; destruct vs as [vs|];
    decide_nil_tests; reflexivity.
Qed.

Lemma final_p2 c : c_kind c = K2 -> claims_wire_ok c ->
  view (fold_left (fun acc f => putf_claim f c acc) (emitted (claim_value SW) c spec_p2_fields) (upd_profile (new_p2 S) None)) = view c.
Proof.
  intros K Ok. rewrite emitted_fold.
  destruct c as [k p cl lc im bo ce sw ns no ins vs can]. cbn in K. subst k.
  destruct Ok as (Ca & Pr & _ & _ & _ & _ & _ & _ & Ns & _). cbn in Ca, Pr, Ns. subst can.
  destruct p as [[s| |]|]; try contradiction. subst s.
  destruct ns as [ns|]; [destruct Ns; discriminate|].
  unfold spec_p2_fields, om. cbn [fold_left f_skip f_omitempty orb andb].
  destruct bo as [bo|]; destruct ce as [ce|]; destruct vs as [vs|]; destruct sw as [[|o l]|];
    decide_nil_tests; reflexivity.
Qed.

(** Decoding the encoding of a claims-set gives back, observably, that claims-set. *)
Theorem encode_decode_roundtrip c b :
  claims_wire_ok c -> encode_cbor W c = Some b ->
  exists c', decode_cbor S W b = DOk c' /\ view c' = view c.
Proof.
  intros Ok E. unfold encode_cbor, encode_tree in E. change (w_swc W) with SW in E. fold (tags_k (c_kind c)) in E.
  destruct (enc_fields_gen (claim_value SW) (tags_k (c_kind c)) c) as [kvs|] eqn:EF; [|discriminate].
  unfold option_map in E. injection E as <-.
  change (head 5 (N.of_nat (length kvs)) ++ flat_map (fun kv => enc (fst kv) ++ enc (snd kv)) kvs)%list with (enc (CMap kvs)).
  pose proof (kvs_good c kvs Ok EF) as G.
  assert (N.of_nat (length kvs) < 2 ^ 64) as Ln.
  { pose proof (enc_fields_length (claim_value SW) c _ _ EF) as L.
    assert (length (tags_k (c_kind c)) = 12%nat \/ length (tags_k (c_kind c)) = 11%nat) as [X|X] by (destruct (c_kind c); cbn; auto); lia. }
  destruct (wf_map_of kvs _ G Ln) as [Wf Dp].
  unfold decode_cbor. rewrite parse_all_enc by (auto; unfold max_nesting; lia).
  unfold decode_selector. rewrite (unmodelled_false_of_good _ selector_tags kvs G).
  change (fun (_ : field_tag) (v : cbor) (s : bytes) => if is_nil v then Some s else dec_text v) with sel_setf.
  destruct (c_kind c) eqn:K.
  - rewrite (selector_k1 kvs G). cbv iota.
    unfold decode_into. change (w_p1 W) with (tags_k K1). change (w_swc W) with SW.
    rewrite (unmodelled_false_of_good K1 (tags_k K1) kvs G), (space2_ok K1 kvs G).
    destruct (dec_enc_fields (tags_k K1) (set_claim_field SW) (claim_value SW) putf_claim c
                (tags_found_k K1)
                (fun f v acc Hf Sk V => claim_set_value c Ok f v acc (eq_ind_r (fun k => In f (tags_of W k)) Hf K) Sk V)
                (fun f acc Hf Sk Om V => claim_set_null c f acc (eq_ind_r (fun k => In f (tags_of W k)) Hf K) Sk Om V)
                (tags_k K1) kvs [] (upd_profile (new_p1 S true) None) (fun f H => H) (nodup_k K1) (fun _ _ _ => eq_refl) EF) as [found' D].
    rewrite D. cbn [dec_pairs]. eexists. split; [reflexivity|]. apply final_p1; assumption.
  - rewrite (selector_k2 c kvs Ok K EF). cbv iota.
    assert (match prof2 S with [] => true | _ :: _ => bytes_eqb (prof2 S) (prof1 S) end = false) as -> by (vm_compute; reflexivity).
    rewrite bytes_eqb_refl.
    unfold decode_into. change (w_p2 W) with (tags_k K2). change (w_swc W) with SW.
    rewrite (unmodelled_false_of_good K2 (tags_k K2) kvs G), (space2_ok K2 kvs G).
    destruct (dec_enc_fields (tags_k K2) (set_claim_field SW) (claim_value SW) putf_claim c
                (tags_found_k K2)
                (fun f v acc Hf Sk V => claim_set_value c Ok f v acc (eq_ind_r (fun k => In f (tags_of W k)) Hf K) Sk V)
                (fun f acc Hf Sk Om V => claim_set_null c f acc (eq_ind_r (fun k => In f (tags_of W k)) Hf K) Sk Om V)
                (tags_k K2) kvs [] (upd_profile (new_p2 S) None) (fun f H => H) (nodup_k K2) (fun _ _ _ => eq_refl) EF) as [found' D].
    rewrite D. cbn [dec_pairs]. eexists. split; [reflexivity|]. apply final_p2; assumption.
Qed.
