(** Effect summaries of the methods of the claims / component / Evidence
    types, as the translator reads them from the source (gen/GenEffects.v). *)
From Coq Require Import String NArith List Bool.
From PSA Require Import Purity.
Import ListNotations.
Open Scope string_scope.
Open Scope N_scope.

Record meth_fx := {
  fx_type : string; fx_name : string;
  fx_ptr : bool;          (* pointer receiver *)
  fx_shallow : N;         (* assignments to recv.Field / recv *)
  fx_deep : N;            (* assignments reached through an index, a dereference or a second selector *)
  fx_escapes : N;         (* pointer receivers: &recv.Field, receiver passed on as an argument *)
  fx_mutcalls : N         (* Add / Replace / Set* / Unmarshal* / From* called through the receiver *)
}.

(** nothing the body does reaches memory the caller can see *)
Definition fx_pure (m : meth_fx) : bool :=
  (fx_deep m =? 0) && (fx_mutcalls m =? 0) &&
  (negb (fx_ptr m) || ((fx_shallow m =? 0) && (fx_escapes m =? 0))).

(** the read side of the API *)
Definition is_read_name (n : string) : bool :=
  prefix "Get" n || String.eqb n "Validate" || String.eqb n "MarshalCBOR" || String.eqb n "MarshalJSON" ||
  String.eqb n "IsEmpty" || String.eqb n "Values" || String.eqb n "Verify".

Definition lookup_fx (l : list meth_fx) (t n : string) : option meth_fx :=
  find (fun m => String.eqb (fx_type m) t && String.eqb (fx_name m) n) l.

Definition leaks (l : list meth_fx) (t n : string) : bool :=
  match lookup_fx l t n with Some m => negb (fx_pure m) | None => false end.

Definition fxcfg_of (l : list meth_fx) : fxcfg :=
  {| fx_p1_cbor_leaks := leaks l "P1Claims" "MarshalCBOR"; fx_p1_json_leaks := leaks l "P1Claims" "MarshalJSON" |}.

Definition read_methods (l : list meth_fx) : list meth_fx := filter (fun m => is_read_name (fx_name m)) l.
