(** C10 / C09: shape of the emitted CBOR, byte stability, and what a valid
    claims-set needs to be carried on the wire. *)
From Coq Require Import Arith ZArith String Lia.
From PSA Require Import Base Lines Lifecycle Regex Claims ClaimsSpec ClaimsProofs Cbor CborProofs Utf8 Tags Wire WireProofs Codec SetterProofs CodecProofs.
From PSA.Spec Require Import SpecTables SpecTags.
Open Scope N_scope.

Notation S := spec_ccfg.
Notation SW := spec_swc_fields.

(** the encoder output is one definite-length map, and nothing follows it *)
Theorem emitted_is_single_map c b : claims_wire_ok c -> encode_cbor W c = Some b ->
  exists kvs, b = enc (CMap kvs) /\ parse_all b = Some (CMap kvs) /\
              enc_fields_gen (claim_value SW) (tags_k (c_kind c)) c = Some kvs.
Proof.
  intros Ok E. unfold encode_cbor, encode_tree in E. change (w_swc W) with SW in E. fold (tags_k (c_kind c)) in E.
  destruct (enc_fields_gen (claim_value SW) (tags_k (c_kind c)) c) as [kvs|] eqn:EF; [|discriminate].
  unfold option_map in E. injection E as <-.
  change (head 5 (N.of_nat (length kvs)) ++ flat_map (fun kv => enc (fst kv) ++ enc (snd kv)) kvs)%list with (enc (CMap kvs)).
  exists kvs. split; [reflexivity|]. split; [|reflexivity].
  pose proof (kvs_good c kvs Ok EF) as G.
  assert (N.of_nat (length kvs) < 2 ^ 64) as Ln.
  { pose proof (enc_fields_length (claim_value SW) c _ _ EF) as L.
    assert (length (tags_k (c_kind c)) = 12%nat \/ length (tags_k (c_kind c)) = 11%nat) as [X|X] by (destruct (c_kind c); cbn; auto); lia. }
  destruct (wf_map_of kvs _ G Ln) as [Wf Dp].
  apply parse_all_enc; [exact Wf|unfold max_nesting; lia].
Qed.

(** keys of the emitted pairs, in order, form a sub-sequence of the table's keys *)
Inductive subseq {A} : list A -> list A -> Prop :=
| sub_nil l : subseq [] l
| sub_take x l1 l2 : subseq l1 l2 -> subseq (x :: l1) (x :: l2)
| sub_skip x l1 l2 : subseq l1 l2 -> subseq l1 (x :: l2).

Lemma enc_fields_subseq {A} (value : field_tag -> A -> option (option cbor)) (a : A) : forall ts kvs,
  enc_fields_gen value ts a = Some kvs ->
  subseq (map fst kvs) (map (fun f => enc_int (f_key f)) (filter (fun f => negb (f_skip f)) ts)).
Proof.
  induction ts as [|f r IH]; intros kvs E.
  - cbn in E. injection E as <-. constructor.
  - cbn [enc_fields_gen] in E. cbn [filter]. destruct (f_skip f); cbn [negb].
    + apply IH, E.
    + destruct (value f a) as [[v|]|]; [| |discriminate];
        (destruct (enc_fields_gen value r a) as [rest|]; [|discriminate]); specialize (IH rest eq_refl).
      * injection E as <-. cbn. constructor. exact IH.
      * destruct (f_omitempty f); injection E as <-; cbn; [apply sub_skip|apply sub_take]; exact IH.
Qed.

Lemma subseq_in {A} (l1 l2 : list A) x : subseq l1 l2 -> In x l1 -> In x l2.
Proof. induction 1 as [l|y l1 l2 S IH|y l1 l2 S IH]; intro I; [destruct I| |right; auto]. destruct I as [<-|I]; [left; reflexivity|right; auto]. Qed.

Lemma subseq_nodup {A} (l1 l2 : list A) : subseq l1 l2 -> NoDup l2 -> NoDup l1.
Proof.
  induction 1 as [l|x l1 l2 H IH|x l1 l2 H IH]; intro N; [constructor| |].
  - inversion N; subst. constructor; [|auto]. intro I. apply (subseq_in _ _ _ H) in I. contradiction.
  - inversion N; subst. auto.
Qed.

Lemma key_terms_nodup k : NoDup (map (fun f => enc_int (f_key f)) (filter (fun f => negb (f_skip f)) (tags_k k))).
Proof. destruct k; cbn; repeat constructor; cbn; intuition discriminate. Qed.

(** no key occurs twice *)
Theorem emitted_keys_distinct c kvs :
  enc_fields_gen (claim_value SW) (tags_k (c_kind c)) c = Some kvs -> NoDup (map fst kvs).
Proof. intro E. eapply subseq_nodup; [apply (enc_fields_subseq _ _ _ _ E)|apply key_terms_nodup]. Qed.

(** every emitted pair is the specified key of a claim with that claim's wire
    value, or null for an absent claim whose field is not omitempty *)
Theorem emitted_pairs_are_claims c kvs :
  enc_fields_gen (claim_value SW) (tags_k (c_kind c)) c = Some kvs ->
  forall kv, In kv kvs ->
  exists f, In f (tags_k (c_kind c)) /\ f_skip f = false /\ fst kv = enc_int (f_key f) /\
            (claim_value SW f c = Some (Some (snd kv)) \/ (claim_value SW f c = Some None /\ snd kv = c_null)).
Proof. intros E kv Hin. exact (enc_fields_keys (claim_value SW) c _ _ E kv Hin). Qed.

(** a claim's wire value is never null *)
Lemma enc_int_not_null z : enc_int z <> c_null.
Proof. unfold enc_int. destruct z; discriminate. Qed.

Theorem claim_value_not_null f c v : claim_value SW f c = Some (Some v) -> v <> c_null.
Proof.
  unfold claim_value. intro V.
  destruct (slot_of_name (f_name f)); destruct (kind_of_type (f_type f)); try discriminate V;
    unfold option_map, enc_optbytes in V;
    repeat match type of V with
           | context [match ?x with _ => _ end] => destruct x eqn:?; try discriminate V
           end;
    cbn in V; try discriminate V;
    try (injection V as <-; first [discriminate | apply enc_int_not_null]).
Qed.

(** in a conformant claims-set every claim whose field is not omitempty is present,
    so no null is emitted: absent optional claims are omitted *)
Theorem conformant_emits_no_null c kvs : conformant c = true ->
  enc_fields_gen (claim_value SW) (tags_k (c_kind c)) c = Some kvs ->
  forall kv, In kv kvs -> snd kv <> c_null.
Proof.
  intros Cf E kv Hin.
  assert (forall f, In f (tags_k (c_kind c)) -> f_skip f = false -> f_omitempty f = false -> claim_value SW f c <> Some None) as Present.
  { pose proof (conformant_each c CClient Cf) as Hcl. pose proof (conformant_each c CLc Cf) as Hlc.
    pose proof (conformant_each c CImpl Cf) as Him. pose proof (conformant_each c CNonce Cf) as Hno.
    pose proof (conformant_each c CInst Cf) as Hin_. pose proof (conformant_each c CProfile Cf) as Hpr.
    pose proof (conformant_each c CSwc Cf) as Hsw. pose proof (conformant_each c CBoot Cf) as Hbo.
    cbn [conf_of] in *.
    destruct c as [k p cl lc im bo ce sw ns no ins vs can].
    unfold conf_client, conf_lc, conf_impl, conf_nonce, conf_inst, conf_profile, conf_swc, conf_boot, comps in *.
    cbn in Hcl, Hlc, Him, Hno, Hin_, Hpr, Hsw, Hbo.
    intros f Hf Sk Om.
    destruct k; cbn [tags_k tags_of W w_p1 w_p2 c_kind] in Hf; in_cases Hf; try discriminate Sk; try discriminate Om;
      unfold claim_value; cbn.
    all: try (destruct cl; [discriminate|discriminate Hcl]).
    all: try (destruct lc; [discriminate|discriminate Hlc]).
    all: try (destruct im; [discriminate|discriminate Him]).
    all: try (destruct bo; [discriminate|discriminate Hbo]).
    all: try (destruct ins; [discriminate|discriminate Hin_]).
    all: try (destruct no as [[|b [|b' l]]|]; try discriminate Hno; try discriminate; destruct (nonce_len_ok b); discriminate).
    - destruct p as [[s| |]|]; try discriminate Hpr; discriminate.
    - destruct sw as [[|o l]|]; try discriminate Hsw. destruct (enc_swcs SW (o :: l)); discriminate. }
  destruct (enc_fields_keys (claim_value SW) c _ _ E kv Hin) as (f & Hf & Sk & Hk & [V|[V N]]).
  - apply (claim_value_not_null f c _ V).
  - exfalso. pose proof (enc_fields_omit_null (claim_value SW) c _ _ E kv Hin) as X. 
    destruct X as (g & Hg & Skg & Hkg & [Vg|(Vg & Ng & Og)]).
    + apply (claim_value_not_null g c _ Vg). exact N.
    + apply (Present g Hg Skg Og Vg).
Qed.

(** re-encoding is byte-stable: encoders only see the observable view
    (profile 1 always; profile 2 when the component list is not empty) *)
Lemma claim_value_view f c : (c_kind c = K1 \/ comps c <> []) ->
  claim_value SW f (view c) = claim_value SW f c.
Proof.
  intro H. destruct c as [k p cl lc im bo ce sw ns no ins vs can]. unfold comps in H. cbn in H.
  unfold claim_value, view. cbn [c_kind c_profile c_client c_lc c_impl c_boot c_cert c_swc c_nosw c_nonce c_inst c_vsi c_canon upd_swc].
  destruct (slot_of_name (f_name f)); try reflexivity.
  destruct (kind_of_type (f_type f)); try reflexivity.
  destruct sw as [[|o l]|]; try reflexivity.
  destruct k; [reflexivity|]. destruct H as [H|H]; [discriminate|exfalso; apply H; reflexivity].
Qed.

Lemma encode_view c : (c_kind c = K1 \/ comps c <> []) -> encode_cbor W (view c) = encode_cbor W c.
Proof.
  intro H. unfold encode_cbor, encode_tree.
  assert (c_kind (view c) = c_kind c) as -> by (destruct c; reflexivity).
  rewrite (enc_fields_ext (claim_value (w_swc W)) (view c) c); [reflexivity|].
  intros f _. apply claim_value_view, H.
Qed.

Theorem encode_depends_on_view c c' : view c' = view c -> (c_kind c = K1 \/ comps c <> []) ->
  encode_cbor W c' = encode_cbor W c.
Proof.
  intros V H. rewrite <- (encode_view c H), <- V. symmetry. apply encode_view.
  assert (c_kind c' = c_kind c) as K by (apply (f_equal c_kind) in V; destruct c, c'; exact V).
  assert (comps c' = comps c) as C.
  { apply (f_equal c_swc) in V. destruct c as [k p cl lc im bo ce sw ns no ins vs can], c' as [k' p' cl' lc' im' bo' ce' sw' ns' no' ins' vs' can'].
    unfold view, comps in *. cbn in *. destruct sw as [[|o l]|], sw' as [[|o' l']|]; try discriminate; try reflexivity; congruence. }
  rewrite K, C. exact H.
Qed.

(** a conformant claims-set of a built-in profile whose texts are valid
    UTF-8 (and whose sizes a CBOR head can express) can be carried on the wire *)
Definition texts_utf8 (c : claims) : Prop :=
  text_ok (c_cert c) /\ text_ok (c_vsi c) /\
  match c_swc c with Some l => Forall oswc_ok l /\ N.of_nat (length l) < 2 ^ 64 | None => True end /\
  bytes_ok (c_impl c) /\ bytes_ok (c_boot c) /\ bytes_ok (c_inst c) /\
  match c_nonce c with Some l => Forall (fun b => blen b < 2 ^ 64) l | None => True end /\
  match c_client c with Some z => (- 2 ^ 31 <= z < 2 ^ 31)%Z | None => True end /\
  match c_nosw c with Some n => n < 2 ^ 64 | None => True end.

Definition builtin (c : claims) : Prop :=
  c_canon c = match c_kind c with K1 => prof1 S | K2 => prof2 S end /\
  (c_kind c = K2 -> c_nosw c = None).

Theorem valid_is_wire_ok c : conformant c = true -> builtin c -> texts_utf8 c -> claims_wire_ok c.
Proof.
  intros Cf [Bc Bn] (Ce & Vs & Sw & Im & Bo & In_ & No & Cl & Ns).
  pose proof (conformant_each c CLc Cf) as Hlc. pose proof (conformant_each c CNonce Cf) as Hno.
  pose proof (conformant_each c CProfile Cf) as Hpr. cbn [conf_of] in *.
  destruct c as [k p cl lc im bo ce sw ns no ins vs can].
  unfold conf_lc, conf_nonce, conf_profile, claims_wire_ok in *. cbn in *. subst can.
  split; [reflexivity|]. split.
  { destruct k; destruct p as [[s| |]|]; try discriminate; auto.
    - apply bytes_eqb_eq in Hpr. subst s. split; [vm_compute; reflexivity|vm_compute; reflexivity].
    - apply bytes_eqb_eq in Hpr. exact Hpr. }
  split; [exact Cl|]. split.
  { destruct lc as [v|]; [|exact I]. unfold lc_page_ok in Hlc.
    assert (v / 256 <= 96) as X.
    { repeat (apply orb_true_iff in Hlc; destruct Hlc as [Hlc|Hlc]); apply N.eqb_eq in Hlc; lia. }
    pose proof (N.div_mod v 256 ltac:(lia)) as DM. pose proof (N.mod_lt v 256 ltac:(lia)) as ML. cbn. lia. }
  repeat (split; [assumption|]).
  split.
  { destruct ns as [n|]; [|exact I]. split; [exact Ns|]. destruct k; [reflexivity|]. specialize (Bn eq_refl). discriminate. }
  split; [|split; assumption].
  destruct no as [[|b [|b' l]]|]; try discriminate.
  split; [exact No|]. split; [cbn; lia|]. intros _. exists b. reflexivity.
Qed.

(** the encoder never fails on a valid, wire-representable claims-set *)
Theorem valid_encodes c : claims_wire_ok c -> validate S c = Ok tt ->
  enc_fields_gen (claim_value SW) (tags_of W (c_kind c)) c = None -> False.
Proof.
  intros Ok V E. apply validate_iff_conformant in V.
  destruct (enc_fields_none (claim_value SW) c _ E) as (f & Hf & Sk & N).
  pose proof (conformant_each c CNonce V) as Hno. cbn [conf_of] in Hno.
  destruct c as [k p cl lc im bo ce sw ns no ins vs can].
  destruct Ok as (Ca & Pr & _ & _ & _ & _ & _ & Sw & _). cbn in Ca, Pr, Sw.
  unfold conf_nonce in Hno. cbn in Hno.
  assert (forall l, Forall oswc_ok l -> enc_swcs SW l <> None) as ES.
  { intros l F. destruct (dec_enc_swcs l F) as (cs & E' & _). rewrite E'. discriminate. }
  destruct k; cbn [tags_of W w_p1 w_p2 c_kind] in Hf; in_cases Hf; try discriminate Sk;
    unfold claim_value in N; cbn in N; try discriminate N.
  - destruct p as [[s| |]|]; try contradiction; discriminate.
  - destruct sw as [[|o l]|]; try discriminate. destruct Sw as [F _]. specialize (ES _ F).
    destruct (enc_swcs SW (o :: l)); [discriminate|congruence].
  - destruct no as [[|b [|b' l]]|]; try discriminate Hno; discriminate.
  - destruct p as [[s| |]|]; try contradiction; discriminate.
  - destruct sw as [l|]; try discriminate. destruct Sw as [F _]. specialize (ES _ F).
    destruct (enc_swcs SW l); [discriminate|congruence].
  - destruct no as [[|b [|b' l]]|]; try discriminate Hno.
    assert (nonce_len_ok b = true) as X.
    { unfold nonce_len_ok. unfold hash_size in Hno.
      repeat (apply orb_true_iff in Hno; destruct Hno as [Hno|Hno]); apply N.eqb_eq in Hno; rewrite Hno; reflexivity. }
    rewrite X in N. discriminate.
Qed.
