(** Proofs about the lifecycle mapping instantiated with the specified table. *)
From Coq Require Import String ZifyN ZifyBool.
From PSA Require Import Base Lines Lifecycle.
From PSA.Spec Require Import SpecTables.
Open Scope N_scope.
Ltac Zify.zify_post_hook ::= Z.div_mod_to_equations.

(** The property's own wording: the state whose 256-value range contains v. *)
Definition spec_state (v : N) : N :=
  let h := v / 256 in
  if h =? 0x00 then 0 else if h =? 0x10 then 1 else if h =? 0x20 then 2 else
  if h =? 0x30 then 3 else if h =? 0x40 then 4 else if h =? 0x50 then 5 else
  if h =? 0x60 then 6 else 7.

Definition spec_name (s : N) : bytes :=
  match s with
  | 0 => s2b "unknown" | 1 => s2b "assembly-and-test" | 2 => s2b "psa-rot-provisioning"
  | 3 => s2b "secured" | 4 => s2b "non-psa-rot-debug" | 5 => s2b "recoverable-psa-rot-debug"
  | 6 => s2b "decommissioned" | _ => s2b "invalid"
  end.

Lemma range_is_page (k v : N) :
  (256 * k <=? v) && (v <=? 256 * k + 255) = (v / 256 =? k).
Proof.
  destruct (N.leb_spec (256 * k) v); destruct (N.leb_spec v (256 * k + 255));
    destruct (N.eqb_spec (v / 256) k); cbn [andb]; try reflexivity; exfalso; lia.
Qed.

Lemma lc_to_state_spec (v : N) : lc_to_state spec_lc v = spec_state v.
Proof.
  unfold lc_to_state, spec_state, spec_lc, lc_ranges, lc_invalid, lc_lookup.
  change ((0 <=? v) && (v <=? 255)) with ((256 * 0 <=? v) && (v <=? 256 * 0 + 255)).
  change ((4096 <=? v) && (v <=? 4351)) with ((256 * 16 <=? v) && (v <=? 256 * 16 + 255)).
  change ((8192 <=? v) && (v <=? 8447)) with ((256 * 32 <=? v) && (v <=? 256 * 32 + 255)).
  change ((12288 <=? v) && (v <=? 12543)) with ((256 * 48 <=? v) && (v <=? 256 * 48 + 255)).
  change ((16384 <=? v) && (v <=? 16639)) with ((256 * 64 <=? v) && (v <=? 256 * 64 + 255)).
  change ((20480 <=? v) && (v <=? 20735)) with ((256 * 80 <=? v) && (v <=? 256 * 80 + 255)).
  change ((24576 <=? v) && (v <=? 24831)) with ((256 * 96 <=? v) && (v <=? 256 * 96 + 255)).
  rewrite !range_is_page. reflexivity.
Qed.

Lemma spec_state_range v : spec_state v <= 7.
Proof.
  unfold spec_state.
  repeat match goal with
  | |- context [if ?a =? ?b then _ else _] => destruct (N.eqb_spec a b)
  end; lia.
Qed.

Lemma lc_valid_iff (v : N) :
  lc_is_valid spec_lc (lc_to_state spec_lc v) = negb (spec_state v =? 7).
Proof.
  rewrite lc_to_state_spec. unfold lc_is_valid, spec_lc, lc_invalid.
  pose proof (spec_state_range v). destruct (N.eqb_spec (spec_state v) 7); cbn; lia.
Qed.

Lemma validate_lc_iff (v : N) :
  validate_lc spec_lc v = Ok tt <-> spec_state v <> 7.
Proof.
  unfold validate_lc. rewrite lc_valid_iff.
  destruct (N.eqb_spec (spec_state v) 7); cbn; split; congruence.
Qed.

Lemma validate_lc_err (v : N) :
  spec_state v = 7 -> validate_lc spec_lc v = Err e_syntax.
Proof.
  intro H. unfold validate_lc. rewrite lc_valid_iff, H. reflexivity.
Qed.

Lemma lc_names_spec (s : N) : lc_state_name spec_lc s = spec_name s.
Proof.
  unfold lc_state_name, spec_lc, lc_names, lc_default_name, assoc_N.
  repeat match goal with
  | |- context [if ?a =? ?b then _ else _] => destruct (N.eqb_spec a b); [subst; reflexivity|]
  end.
  destruct s as [|p]; [lia|].
  do 3 (destruct p as [p|p|]; try lia; try reflexivity).
Qed.

(** setters / getters of both profiles (the profile kind plays no role) *)
From PSA Require Import Claims.

Lemma set_lc_iff (c : claims) (v : N) :
  snd (set_lc spec_ccfg c v) = Ok tt <-> spec_state v <> 7.
Proof.
  unfold set_lc, guarded. change (cc_lc spec_ccfg) with spec_lc.
  rewrite <- validate_lc_iff.
  destruct (validate_lc spec_lc v) as [[]| |]; cbn; split; congruence.
Qed.

Lemma set_lc_effect (c : claims) (v : N) :
  (spec_state v <> 7 -> c_lc (fst (set_lc spec_ccfg c v)) = Some v) /\
  (spec_state v = 7 -> fst (set_lc spec_ccfg c v) = c).
Proof.
  unfold set_lc, guarded. change (cc_lc spec_ccfg) with spec_lc. split; intro H.
  - apply validate_lc_iff in H. rewrite H. reflexivity.
  - rewrite (validate_lc_err v H). reflexivity.
Qed.

Lemma get_lc_iff (c : claims) (v : N) :
  c_lc c = Some v -> (get_lc spec_ccfg c = Ok v <-> spec_state v <> 7).
Proof.
  intro Hc. unfold get_lc. rewrite Hc. change (cc_lc spec_ccfg) with spec_lc.
  rewrite <- validate_lc_iff. unfold chk.
  destruct (validate_lc spec_lc v) as [[]| |]; split; congruence.
Qed.
