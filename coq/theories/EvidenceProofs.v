(** C19 / C03 / C08 at the level of the Evidence state machine (idealised
    signatures): binding of verified signatures to the attached claims over
    arbitrary operation histories. *)
From Coq Require Import Arith ZArith String.
From PSA Require Import Base Lines Lifecycle Regex Claims ClaimsSpec ClaimsProofs Cbor Tags Wire Codec Evidence Gates SetterProofs CodecProofs FormatProofs.
From PSA.Spec Require Import SpecTables SpecTags.
Open Scope N_scope.

Notation S := spec_ccfg.
Arguments validate : simpl never.
Arguments encode_cbor : simpl never.
Arguments decode_cbor : simpl never.

Section WithKeys.
Variable key_alg : N -> Z.
Variable alg_known : Z -> bool.

Notation stepS := (step S W key_alg alg_known).
Notation runS := (run S W key_alg alg_known).
Notation verifyS := (verify_ok S W key_alg alg_known).

Lemma sigv_eqb_eq a b : sigv_eqb a b = true -> a = b.
Proof.
  destruct a as [k1 a1 p1 b1|i], b as [k2 a2 p2 b2|j]; cbn; try discriminate.
  - rewrite !andb_true_iff. intros [[[K A] P] B].
    apply N.eqb_eq in K. apply Z.eqb_eq in A. apply bytes_eqb_eq in B. subst.
    destruct p1, p2; cbn in P; try discriminate; [apply Z.eqb_eq in P; subst|]; reflexivity.
  - intro H. apply N.eqb_eq in H. subst. reflexivity.
Qed.

(** whenever verification succeeds, the message carries an algorithm, a
    payload and a signature made with exactly that key over exactly that
    protected header and payload *)
Theorem verify_needs_alg_payload_sig e k :
  verifyS e k = true ->
  exists m a p, e_msg e = Some m /\ m_alg m = Some a /\ m_payload m = Some p /\
                m_sig m = Some (SigBy k a (Some a) p) /\ key_alg k = a /\ alg_known a = true.
Proof.
  unfold verify_ok, step. cbn [snd]. destruct (e_msg e) as [m|]; [|discriminate].
  destruct (m_alg m) as [a|] eqn:A; [|discriminate]. destruct (m_payload m) as [p|] eqn:P; [|discriminate].
  destruct (m_sig m) as [sg|] eqn:Sg; [|discriminate].
  destruct (alg_known a) eqn:Ka; [|discriminate]. destruct (Z.eqb_spec (key_alg k) a) as [Ek|]; [|discriminate].
  cbn [andb]. destruct (sigv_eqb sg (SigBy k a (Some a) p)) eqn:E; [|discriminate].
  apply sigv_eqb_eq in E. subst sg. intros _. exists m, a, p. repeat split; auto.
Qed.

(** a failed operation returns no token *)
Theorem failed_op_no_token e o t : snd (stepS e o) = OutTok t ->
  exists v s c p, o = ESign v s /\ sg_beh s = SignsOk /\ e_claims e = Some c /\ encode_cbor W c = Some p /\
                  t = Tok (Some (sg_alg s)) (Some p) (Some (SigBy (sg_key s) (sg_alg s) (Some (sg_alg s)) p)) /\
                  (v = true -> validate S c = Ok tt).
Proof.
  destruct o as [c|c|v s|t'|k]; cbn [step].
  - destruct (validate S c); cbn; discriminate.
  - cbn. discriminate.
  - destruct (e_claims e) as [c|]; [|cbn; discriminate].
    destruct (v && negb (is_ok (validate S c))) eqn:V; [cbn; discriminate|].
    destruct (encode_cbor W c) as [p|] eqn:E; [|cbn; discriminate].
    unfold do_sign. destruct (sg_beh s) eqn:B; cbn; try discriminate.
    intro H. injection H as <-. exists v, s, c, p. repeat split; auto.
    intros ->. cbn in V. destruct (validate S c) as [[]| |]; cbn in V; try discriminate. reflexivity.
  - destruct t' as [a p sg|]; [destruct sg; [destruct p as [p|]; [destruct (decode_cbor S W p)|]|]|]; cbn; discriminate.
  - cbn. destruct (e_msg e) as [m|]; [|discriminate].
    destruct (m_alg m), (m_payload m), (m_sig m); try discriminate.
    match goal with |- (if ?b then _ else _) = _ -> _ => destruct b end; discriminate.
Qed.

(** after a failed signing attempt, verification fails with every key *)
Theorem failed_sign_then_verify_fails e v s k :
  snd (stepS e (ESign v s)) = OutErr -> verifyS (fst (stepS e (ESign v s))) k = false.
Proof.
  cbn [step]. destruct (e_claims e) as [c|]; [|reflexivity].
  destruct (v && negb (is_ok (validate S c))); [reflexivity|].
  destruct (encode_cbor W c) as [p|]; [|reflexivity].
  unfold do_sign. destruct (sg_beh s); cbn; try reflexivity. discriminate.
Qed.

(** a failed attempt does not prevent a later successful one: the outcome of
    signing depends only on the attached claims and the signer *)
Theorem sign_outcome_depends_on_claims_only e e' v s :
  e_claims e = e_claims e' -> snd (stepS e (ESign v s)) = snd (stepS e' (ESign v s)).
Proof. intro H. cbn [step]. rewrite H. destruct (e_claims e'); reflexivity. Qed.

(** * the binding invariant over histories *)

(** the claims were not replaced since the last sign or decode *)
Fixpoint clean_since (ops : list eop) : bool :=
  match ops with
  | [] => true
  | o :: r => match o with
              | ESetClaims _ | EMutate _ => false && clean_since r
              | _ => clean_since r
              end
  end.

(** state invariant: the attached claims are nil or the decoding of the
    message's payload (when both exist and nothing was attached since) *)
Definition bound (e : ev) : Prop :=
  match e_msg e, e_claims e with
  | Some m, Some c =>
      match m_payload m, m_sig m with
      | Some p, Some _ => exists c', decode_cbor S W p = DOk c' /\ view c' = view c
      | _, _ => True
      end
  | _, _ => True
  end.

(** the claims-sets handed to SetClaims can be carried on the wire (valid
    UTF-8 texts, the profile's own canonical name, sizes below 2^64) *)
Definition op_wire_ok (o : eop) : Prop :=
  match o with ESetClaims c | EMutate c => claims_wire_ok c | _ => True end.

Definition claims_state_ok (e : ev) : Prop :=
  match e_claims e with Some c => claims_wire_ok c | None => True end.

Lemma decode_wire_ok p c : decode_cbor S W p = DOk c -> True.
Proof. trivial. Qed.

(** one step: a sign or decode establishes the binding; other operations keep the message *)
Lemma step_bound e o :
  claims_state_ok e ->
  match o with
  | ESetClaims _ | EMutate _ => True
  | EVerify _ => bound e -> bound (fst (stepS e o))
  | _ => bound (fst (stepS e o))
  end.
Proof.
  intro CS. destruct o as [c|c|v s|t|k]; [exact I|exact I| | |].
  - cbn [step]. unfold claims_state_ok in CS. destruct (e_claims e) as [c|] eqn:C; [|cbn; exact I].
    destruct (v && negb (is_ok (validate S c))); [cbn; exact I|].
    destruct (encode_cbor W c) as [p|] eqn:E; [|cbn; exact I].
    unfold do_sign. destruct (sg_beh s); cbn; try exact I.
    destruct (encode_decode_roundtrip c p CS E) as (c' & D & V). exists c'. auto.
  - cbn [step]. destruct t as [a p sg|]; [|cbn; destruct (e_claims e); exact I].
    destruct sg as [sg|]; [|cbn; destruct (e_claims e); exact I].
    destruct p as [p|]; [|cbn; exact I].
    destruct (decode_cbor S W p) as [c| |] eqn:D; cbn; try exact I.
    exists c. auto.
  - intro B. exact B.
Qed.

(** [dirty]: the claims were replaced (SetClaims succeeded) since the last sign or decode *)
Definition dirty_step (d : bool) (e : ev) (o : eop) : bool :=
  match o with
  | ESetClaims c => if is_ok (validate S c) then true else d
  | EMutate _ => true
  | ESign _ _ | EDecode _ => false
  | EVerify _ => d
  end.

Fixpoint dirty_run (d : bool) (e : ev) (ops : list eop) : bool :=
  match ops with
  | [] => d
  | o :: r => dirty_run (dirty_step d e o) (fst (stepS e o)) r
  end.

(** every claims-set attached along the run can be carried on the wire *)
Fixpoint all_states_ok (e : ev) (ops : list eop) : Prop :=
  claims_state_ok e /\ match ops with [] => True | o :: r => all_states_ok (fst (stepS e o)) r end.

Lemma run_cons e o r : fst (runS e (o :: r)) = fst (runS (fst (stepS e o)) r).
Proof. cbn [run]. destruct (stepS e o) as [e1 out]. cbn [fst]. destruct (runS e1 r). reflexivity. Qed.

Theorem binding_invariant : forall (ops : list eop) (e : ev) (d : bool),
  (d = false -> bound e) -> all_states_ok e ops ->
  dirty_run d e ops = false -> bound (fst (runS e ops)).
Proof.
  induction ops as [|o r IH]; intros e d Hb Hok Hd.
  - cbn in *. apply Hb, Hd.
  - rewrite run_cons. destruct Hok as [CS Hok]. cbn [dirty_run] in Hd.
    apply (IH (fst (stepS e o)) (dirty_step d e o)); auto.
    intro Hd'. pose proof (step_bound e o CS) as SB.
    destruct o as [c|c|v s|t|k]; cbn [dirty_step] in Hd'.
    + cbn [step]. destruct (validate S c) as [[]| |]; cbn in Hd' |- *; try discriminate; apply Hb, Hd'.
    + discriminate.
    + exact SB.
    + exact SB.
    + apply SB, Hb, Hd'.
Qed.

(** Main theorem (C19): after ANY history of attach / sign / validate-and-sign
    (with arbitrary signer faults) / decode / verify operations, if
    verification succeeds and the claims were not replaced since the last
    sign or decode, the attached claims are nil or (observably) the decoding
    of the payload which the verified signature covers. *)
Theorem verified_claims_are_signed_payload (ops : list eop) (k : N) :
  let e0 := {| e_claims := None; e_msg := None |} in
  all_states_ok e0 ops -> dirty_run false e0 ops = false ->
  let e := fst (runS e0 ops) in
  verifyS e k = true ->
  exists m p, e_msg e = Some m /\ m_payload m = Some p /\
              m_sig m = Some (SigBy k (key_alg k) (Some (key_alg k)) p) /\
              match e_claims e with
              | None => True
              | Some c => exists c', decode_cbor S W p = DOk c' /\ view c' = view c
              end.
Proof.
  intros e0 Hok Hd e V.
  assert (bound e) as B by (apply (binding_invariant ops e0 false); auto; intros _; exact I).
  destruct (verify_needs_alg_payload_sig e k V) as (m & a & p & Hm & Ha & Hp & Hs & Hk & _).
  subst a. exists m, p. repeat split; auto.
  unfold bound in B. rewrite Hm in B. destruct (e_claims e) as [c|]; [|exact I].
  rewrite Hp, Hs in B. exact B.
Qed.

(** signing twice yields two independently valid tokens: any token returned
    by a successful sign verifies, after decoding into a fresh Evidence,
    under the signer's key -- whatever happened before or after *)
Theorem signed_token_verifies e v s t :
  claims_state_ok e ->
  snd (stepS e (ESign v s)) = OutTok t ->
  key_alg (sg_key s) = sg_alg s -> alg_known (sg_alg s) = true ->
  forall e', verifyS (fst (stepS e' (EDecode t))) (sg_key s) = true /\
             exists c c', e_claims e = Some c /\ e_claims (fst (stepS e' (EDecode t))) = Some c' /\ view c' = view c.
Proof.
  intros CS H Ka Kn e'.
  destruct (failed_op_no_token e (ESign v s) t H) as (v0 & s0 & c & p & Eo & B & C & E & -> & _).
  injection Eo as <- <-.
  unfold claims_state_ok in CS. rewrite C in CS.
  destruct (encode_decode_roundtrip c p CS E) as (c' & D & V).
  cbn [step]. rewrite D. cbn [fst]. split.
  - unfold verify_ok. cbn. rewrite Kn, Ka, Z.eqb_refl, N.eqb_refl, bytes_eqb_refl. reflexivity.
  - exists c, c'. auto.
Qed.

End WithKeys.

(** * C03 / C08 composed *)
Section Composed.
Variable key_alg : N -> Z.
Variable alg_known : Z -> bool.

(** ValidateAndSign on a valid, wire-representable claims-set with a
    working signer yields a token whose protected header carries the
    signer's algorithm and whose payload is exactly the plain encoding;
    decoding it gives back the claims and it verifies under the signer's key,
    also on the signing Evidence itself *)
Theorem sign_roundtrip (c : claims) (s : signer) (m0 : option msg) :
  claims_wire_ok c -> validate S c = Ok tt -> sg_beh s = SignsOk ->
  key_alg (sg_key s) = sg_alg s -> alg_known (sg_alg s) = true ->
  exists p c',
    encode_cbor W c = Some p /\
    step S W key_alg alg_known {| e_claims := Some c; e_msg := m0 |} (ESign true s) =
      ({| e_claims := Some c; e_msg := Some {| m_alg := Some (sg_alg s); m_payload := Some p;
                                                m_sig := Some (SigBy (sg_key s) (sg_alg s) (Some (sg_alg s)) p) |} |},
       OutTok (Tok (Some (sg_alg s)) (Some p) (Some (SigBy (sg_key s) (sg_alg s) (Some (sg_alg s)) p)))) /\
    decode_cbor S W p = DOk c' /\ view c' = view c /\
    (forall e', verify_ok S W key_alg alg_known
                  (fst (step S W key_alg alg_known e' (EDecode (Tok (Some (sg_alg s)) (Some p) (Some (SigBy (sg_key s) (sg_alg s) (Some (sg_alg s)) p)))))) (sg_key s) = true) /\
    verify_ok S W key_alg alg_known
      (fst (step S W key_alg alg_known {| e_claims := Some c; e_msg := m0 |} (ESign true s))) (sg_key s) = true.
Proof.
  intros Ok V B Ka Kn.
  assert (exists p, encode_cbor W c = Some p) as [p E].
  { unfold encode_cbor, encode_tree. change (w_swc W) with spec_swc_fields.
    destruct (enc_fields_gen (claim_value spec_swc_fields) (tags_of W (c_kind c)) c) as [kvs|] eqn:EF; [eexists; reflexivity|].
    exfalso. (* the encoder cannot fail on a wire-representable, valid claims-set *)
    revert EF. apply (valid_encodes c Ok V). }
  destruct (encode_decode_roundtrip c p Ok E) as (c' & D & Vw).
  exists p, c'. split; [exact E|].
  assert (step S W key_alg alg_known {| e_claims := Some c; e_msg := m0 |} (ESign true s) =
          ({| e_claims := Some c; e_msg := Some {| m_alg := Some (sg_alg s); m_payload := Some p;
                                                    m_sig := Some (SigBy (sg_key s) (sg_alg s) (Some (sg_alg s)) p) |} |},
           OutTok (Tok (Some (sg_alg s)) (Some p) (Some (SigBy (sg_key s) (sg_alg s) (Some (sg_alg s)) p))))) as St.
  { cbn [step e_claims]. rewrite V. cbn [is_ok negb andb]. rewrite E. unfold do_sign. rewrite B. reflexivity. }
  split; [exact St|]. split; [exact D|]. split; [exact Vw|]. split.
  - intro e'. cbn [step]. rewrite D. cbn [fst]. unfold verify_ok. cbn. rewrite Kn, Ka, Z.eqb_refl, N.eqb_refl, bytes_eqb_refl. reflexivity.
  - rewrite St. cbn [fst]. unfold verify_ok. cbn. rewrite Kn, Ka, Z.eqb_refl, N.eqb_refl, bytes_eqb_refl. reflexivity.
Qed.

(** the claims a decoded Evidence exposes are always the decoding of the payload *)
Theorem decoded_claims_are_payload e a p sg c :
  e_claims (fst (step S W key_alg alg_known e (EDecode (Tok a (Some p) (Some sg))))) = Some c ->
  decode_cbor S W p = DOk c.
Proof. cbn [step]. destruct (decode_cbor S W p) as [c'| |]; cbn; congruence. Qed.

(** C08: the validating entry points fail, emit nothing and attach nothing
    when validation fails, and otherwise equal their plain sibling *)
Theorem gates_block (c : claims) (e : ev) (s : signer) :
  validate S c <> Ok tt ->
  validate_and_encode S W c = None /\
  step S W key_alg alg_known e (ESetClaims c) = (e, OutErr) /\
  snd (step S W key_alg alg_known {| e_claims := Some c; e_msg := e_msg e |} (ESign true s)) = OutErr.
Proof.
  intro V. unfold validate_and_encode. cbn [step e_claims].
  destruct (validate S c) as [[]| |]; [congruence| |]; repeat split; reflexivity.
Qed.

Theorem gates_transparent (c : claims) (e : ev) (s : signer) :
  validate S c = Ok tt ->
  validate_and_encode S W c = encode_cbor W c /\
  step S W key_alg alg_known e (ESetClaims c) = ({| e_claims := Some c; e_msg := e_msg e |}, OutOk) /\
  step S W key_alg alg_known {| e_claims := Some c; e_msg := e_msg e |} (ESign true s) =
  step S W key_alg alg_known {| e_claims := Some c; e_msg := e_msg e |} (ESign false s).
Proof.
  intro V. unfold validate_and_encode. cbn [step e_claims]. rewrite V. repeat split; reflexivity.
Qed.

Theorem decode_gate (b : bytes) :
  (forall c, decode_and_validate S W b = DOk c -> decode_cbor S W b = DOk c /\ validate S c = Ok tt) /\
  (forall c, decode_cbor S W b = DOk c -> validate S c = Ok tt -> decode_and_validate S W b = DOk c) /\
  (forall c, decode_cbor S W b = DOk c -> validate S c <> Ok tt -> decode_and_validate S W b = DErr).
Proof.
  unfold decode_and_validate. destruct (decode_cbor S W b) as [c| |]; (split; [|split]); intros c1 H; try discriminate.
  - destruct (validate S c) as [[]| |] eqn:V; try discriminate. injection H as <-. auto.
  - intro V. injection H as <-. rewrite V. reflexivity.
  - intro V. injection H as <-. destruct (validate S c) as [[]| |]; [congruence| |]; reflexivity.
Qed.
End Composed.
