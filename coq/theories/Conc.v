(** Interleaving semantics at call granularity: threads execute their
    programs one call at a time in an arbitrary order.  A call is either a
    read on the shared objects or any operation on the thread's own objects. *)
From Coq Require Import List Arith.
Import ListNotations.

Section Conc.
Variables St Pv Rd Wr Ot : Type.
Variable rstep : St -> Rd -> St * Ot.      (* a read-side call on the shared objects *)
Variable wstep : Pv -> Wr -> Pv * Ot.      (* any call on private objects *)

Inductive top := TShared (o : Rd) | TPriv (o : Wr).

Record thread := { t_priv : Pv; t_todo : list top; t_out : list Ot (* newest first *) }.
Record conf := { g_sh : St; g_th : list thread }.

Definition tstep (sh : St) (t : thread) : St * thread :=
  match t_todo t with
  | [] => (sh, t)
  | TShared o :: r => let '(sh', out) := rstep sh o in
                      (sh', {| t_priv := t_priv t; t_todo := r; t_out := out :: t_out t |})
  | TPriv o :: r => let '(p', out) := wstep (t_priv t) o in
                    (sh, {| t_priv := p'; t_todo := r; t_out := out :: t_out t |})
  end.

Fixpoint upd_nth {A} (i : nat) (x : A) (l : list A) : list A :=
  match l, i with
  | [], _ => []
  | _ :: r, O => x :: r
  | a :: r, S j => a :: upd_nth j x r
  end.

(** the scheduler picks thread [i]: it performs its next call, if it has one *)
Definition sched_step (c : conf) (i : nat) : conf :=
  match nth_error (g_th c) i with
  | Some t => let '(sh', t') := tstep (g_sh c) t in {| g_sh := sh'; g_th := upd_nth i t' (g_th c) |}
  | None => c
  end.

Definition run_sched (c : conf) (sched : list nat) : conf := fold_left sched_step sched c.

(** a thread running alone against shared objects [sh], [n] calls *)
Fixpoint alone (n : nat) (sh : St) (t : thread) : thread :=
  match n with
  | O => t
  | S k => alone k sh (snd (tstep sh t))
  end.

(** the sequential schedule: thread 0 to completion, then thread 1, ... *)
Fixpoint seq_sched (i : nat) (ts : list thread) : list nat :=
  match ts with
  | [] => []
  | t :: r => repeat i (length (t_todo t)) ++ seq_sched (S i) r
  end.

Definition finished (c : conf) : Prop := forall t, In t (g_th c) -> t_todo t = [].

End Conc.
Arguments TShared {Rd Wr}.
Arguments TPriv {Rd Wr}.
Arguments t_priv {Pv Rd Wr Ot}.
Arguments t_todo {Pv Rd Wr Ot}.
Arguments t_out {Pv Rd Wr Ot}.
Arguments g_sh {St Pv Rd Wr Ot}.
Arguments g_th {St Pv Rd Wr Ot}.
