(** Parsing and printing of claims-sets in the case-line format
    (13 tokens: kind profile client lc impl boot cert swc nosw nonce inst vsi canon). *)
From Coq Require Import String.
From PSA Require Import Base Lines Lifecycle Regex Claims Obs.
Open Scope N_scope.

Definition opt_bind {A B} (o : option A) (f : A -> option B) : option B :=
  match o with Some a => f a | None => None end.

Fixpoint all_some {A} (l : list (option A)) : option (list A) :=
  match l with
  | [] => Some []
  | None :: _ => None
  | Some a :: r => match all_some r with Some r' => Some (a :: r') | None => None end
  end.

(** "[a;b;c]" -> [a;b;c];  "[]" -> [] *)
Definition unbracket (t : bytes) : option (list bytes) :=
  match t with
  | x5b :: r =>
      match rev_append r [] with
      | x5d :: m => let body := rev_append m [] in
                    match body with [] => Some [] | _ => Some (split_on x3b body []) end
      | _ => None
      end
  | _ => None
  end.

Definition parse_swc (t : bytes) : option (option swc) :=
  if bytes_eqb t (s2b "nil") then Some None
  else match all_some (map parse_opt_hex (split_on x2c t [])) with
       | Some [a; b; c; d; e] =>
           Some (Some {| sw_mtype := a; sw_mval := b; sw_version := c; sw_signer := d; sw_mdesc := e |})
       | _ => None
       end.

Definition parse_swcs (t : bytes) : option (option (list (option swc))) :=
  match t with
  | [x5f] => Some None
  | _ => match unbracket t with
         | Some items => match all_some (map parse_swc items) with Some l => Some (Some l) | None => None end
         | None => None
         end
  end.

Definition parse_nonce (t : bytes) : option (option (list bytes)) :=
  match t with
  | [x5f] => Some None
  | _ => match unbracket t with
         | Some items => match all_some (map parse_hex items) with Some l => Some (Some l) | None => None end
         | None => None
         end
  end.

Definition parse_profile (t : bytes) : option (option profv) :=
  match t with
  | [x5f] => Some None
  | [x6f] => Some (Some (POid []))
  | [x7a] => Some (Some PZero)
  | x73 :: h => match parse_hex h with Some s => Some (Some (PStr s)) | None => None end
  | _ => None
  end.

Definition parse_opt_Z (t : bytes) : option (option Z) :=
  match t with
  | [x5f] => Some None
  | _ => match parse_Z t with Some z => Some (Some z) | None => None end
  end.

Definition parse_opt_N (t : bytes) : option (option N) :=
  match t with
  | [x5f] => Some None
  | _ => match parse_N t with Some n => Some (Some n) | None => None end
  end.

Definition parse_kind (t : bytes) : option kind :=
  match t with [x31] => Some K1 | [x32] => Some K2 | _ => None end.

Definition parse_claims (ts : list bytes) : option (claims * list bytes) :=
  match ts with
  | tk :: tp :: tc :: tl :: ti :: tb :: tr :: ts' :: tf :: tn :: tu :: tv :: tcan :: rest =>
      match parse_kind tk, parse_profile tp, parse_opt_Z tc, parse_opt_N tl, parse_opt_hex ti, parse_opt_hex tb,
            parse_opt_hex tr, parse_swcs ts', parse_opt_N tf, parse_nonce tn, parse_opt_hex tu, parse_opt_hex tv, parse_hex tcan with
      | Some k, Some p, Some cl, Some lc, Some im, Some bo, Some ce, Some sw, Some fl, Some no, Some ins, Some vs, Some can =>
          Some ({| c_kind := k; c_profile := p; c_client := cl; c_lc := lc; c_impl := im; c_boot := bo; c_cert := ce;
                   c_swc := sw; c_nosw := fl; c_nonce := no; c_inst := ins; c_vsi := vs; c_canon := can |}, rest)
      | _, _, _, _, _, _, _, _, _, _, _, _, _ => None
      end
  | _ => None
  end.

(** printing *)

Fixpoint join_with (sep : byte) (l : list bytes) : bytes :=
  match l with
  | [] => []
  | [a] => a
  | a :: r => a ++ sep :: join_with sep r
  end.

Definition print_swc (s : swc) : bytes :=
  join_with x2c [hex_of_opt (sw_mtype s); hex_of_opt (sw_mval s); hex_of_opt (sw_version s);
                 hex_of_opt (sw_signer s); hex_of_opt (sw_mdesc s)].

Definition print_oswc (o : option swc) : bytes :=
  match o with None => s2b "nil" | Some s => print_swc s end.

Definition bracket (l : list bytes) : bytes := x5b :: join_with x3b l ++ [x5d].

Definition tok_res_swcs (r : res (list swc)) : bytes :=
  match r with
  | Ok l => s2b "ok:" ++ bracket (map print_swc l)
  | Err e => tok_err e
  | Panic => s2b "panic"
  end.

Definition print_profile (p : option profv) : bytes :=
  match p with
  | None => s2b "_"
  | Some (PStr s) => x73 :: hex_of s
  | Some (POid _) => s2b "o"
  | Some PZero => s2b "z"
  end.

Definition tok_opt_Z (o : option Z) : bytes := match o with None => s2b "_" | Some z => dec_of_Z z end.

Definition print_claims (c : claims) : list bytes :=
  [ match c_kind c with K1 => s2b "1" | K2 => s2b "2" end;
    print_profile (c_profile c); tok_opt_Z (c_client c); tok_opt_N (c_lc c);
    hex_of_opt (c_impl c); hex_of_opt (c_boot c); hex_of_opt (c_cert c);
    match c_swc c with None => s2b "_" | Some l => bracket (map print_oswc l) end;
    tok_opt_N (c_nosw c);
    match c_nonce c with None => s2b "_" | Some l => bracket (map hex_of l) end;
    hex_of_opt (c_inst c); hex_of_opt (c_vsi c); hex_of (c_canon c) ].

(** validation verdict and all ten getter results *)
Definition obs_getters (cfg : ccfg) (c : claims) : list bytes :=
  [ tok_res_unit (validate cfg c);
    tok_res_bytes (get_profile c); tok_res_Z (get_client c); tok_res_N (get_lc cfg c);
    tok_res_bytes (get_impl cfg c); tok_res_bytes (get_boot cfg c); tok_res_bytes (get_cert cfg c);
    tok_res_swcs (get_swc cfg c); tok_res_bytes (get_nonce cfg c); tok_res_bytes (get_inst cfg c);
    tok_res_bytes (get_vsi c) ].

Definition run_c01 (cfg : ccfg) (args : list bytes) : bytes :=
  match parse_claims args with
  | Some (c, []) => join_sp (obs_getters cfg c)
  | _ => bad_input
  end.
