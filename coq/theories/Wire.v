(** CBOR wire codec of the claims types, driven by the struct-tag tables:
    the encoder fxamacker applies to P1Claims / P2Claims / SwComponent
    (declaration order, keyasint, omitempty, nil pointer -> null, P1's
    empty-container suppression, eat.Nonce / eat.Profile codecs) and the
    typed decoder (first occurrence of a key wins, unknown integer/text keys
    skipped, other key kinds are errors, errors do not stop the scan). *)
From Coq Require Import String.
From PSA Require Import Base Lines Lifecycle Regex Claims Cbor Utf8 Tags.
Open Scope N_scope.

Inductive fkind := TStr | TInt (bits : N) | TUintK (bits : N) | TBytes | TSwcs | TNonce | TProfile | TUnknown.

Definition kind_of_type (s : string) : fkind :=
  if String.eqb s "*string" then TStr
  else if String.eqb s "*int32" then TInt 32 else if String.eqb s "*int64" then TInt 64
  else if String.eqb s "*int16" then TInt 16 else if String.eqb s "*int" then TInt 64
  else if String.eqb s "*uint16" then TUintK 16 else if String.eqb s "*uint32" then TUintK 32
  else if String.eqb s "*uint8" then TUintK 8
  else if String.eqb s "*uint64" then TUintK 64 else if String.eqb s "*uint" then TUintK 64
  else if String.eqb s "*[]byte" then TBytes else if String.eqb s "*eat.UEID" then TBytes
  else if String.eqb s "ISwComponents" then TSwcs
  else if String.eqb s "*eat.Nonce" then TNonce
  else if String.eqb s "*eat.Profile" then TProfile
  else TUnknown.

Inductive slotid := SProfile | SClient | SLc | SImpl | SBoot | SCert | SSwc | SNosw | SNonce | SInst | SVsi | SNoSlot.

Definition slot_of_name (s : string) : slotid :=
  if String.eqb s "Profile" then SProfile else if String.eqb s "ClientID" then SClient
  else if String.eqb s "SecurityLifeCycle" then SLc else if String.eqb s "ImplID" then SImpl
  else if String.eqb s "BootSeed" then SBoot else if String.eqb s "CertificationReference" then SCert
  else if String.eqb s "SwComponents" then SSwc else if String.eqb s "NoSwMeasurements" then SNosw
  else if String.eqb s "Nonce" then SNonce else if String.eqb s "InstID" then SInst
  else if String.eqb s "VSI" then SVsi else SNoSlot.

Inductive swslot := WMtype | WMval | WVersion | WSigner | WMdesc | WNoSlot.
Definition swslot_of_name (s : string) : swslot :=
  if String.eqb s "MeasurementType" then WMtype else if String.eqb s "MeasurementValue" then WMval
  else if String.eqb s "Version" then WVersion else if String.eqb s "SignerID" then WSigner
  else if String.eqb s "MeasurementDesc" then WMdesc else WNoSlot.

(** * encoding *)

Definition enc_int (z : Z) : cbor :=
  match z with Zneg p => CNint (Z.to_N (- z - 1)) | _ => CUint (Z.to_N z) end.

Definition enc_optbytes (k : fkind) (o : option bytes) : option cbor :=
  match o with
  | None => None
  | Some b => Some (match k with TStr => CText b | _ => CBytes b end)
  end.

(** a field's encoded value: [Some None] = nil (omitted or null), [None] = the encoder fails *)
Definition swc_field (s : swc) (w : swslot) : option bytes :=
  match w with
  | WMtype => sw_mtype s | WMval => sw_mval s | WVersion => sw_version s | WSigner => sw_signer s | WMdesc => sw_mdesc s
  | WNoSlot => None
  end.

Fixpoint enc_fields_gen {A} (value : field_tag -> A -> option (option cbor)) (tags : list field_tag) (a : A)
  : option (list (cbor * cbor)) :=
  match tags with
  | [] => Some []
  | f :: r =>
      if f_skip f then enc_fields_gen value r a
      else
        match value f a, enc_fields_gen value r a with
        | Some (Some v), Some rest => Some ((enc_int (f_key f), v) :: rest)
        | Some None, Some rest => if f_omitempty f then Some rest else Some ((enc_int (f_key f), c_null) :: rest)
        | _, _ => None
        end
  end.

Definition enc_swc (swtags : list field_tag) (s : swc) : option cbor :=
  match enc_fields_gen (fun f s => Some (enc_optbytes (kind_of_type (f_type f)) (swc_field s (swslot_of_name (f_name f))))) swtags s with
  | Some kvs => Some (CMap kvs)
  | None => None
  end.

Fixpoint enc_swcs (swtags : list field_tag) (l : list (option swc)) : option (list cbor) :=
  match l with
  | [] => Some []
  | None :: r => match enc_swcs swtags r with Some r' => Some (c_null :: r') | None => None end
  | Some s :: r => match enc_swc swtags s, enc_swcs swtags r with
                   | Some c, Some r' => Some (c :: r')
                   | _, _ => None
                   end
  end.

Definition nonce_len_ok (b : bytes) : bool := (8 <=? blen b) && (blen b <=? 64).

Definition claim_value (swtags : list field_tag) (f : field_tag) (c : claims) : option (option cbor) :=
  let k := kind_of_type (f_type f) in
  match slot_of_name (f_name f), k with
  | SProfile, TStr => match c_profile c with
                      | None => Some None | Some (PStr s) => Some (Some (CText s)) | Some _ => None end
  | SProfile, TProfile => match c_profile c with
                          | None => Some None | Some (PStr s) => Some (Some (CText s))
                          | Some (POid b) => Some (Some (CBytes b)) | Some PZero => None end
  | SClient, TInt _ => Some (option_map enc_int (c_client c))
  | SLc, TUintK _ => Some (option_map CUint (c_lc c))
  | SNosw, TUintK _ => Some (option_map CUint (c_nosw c))
  | SImpl, TBytes => Some (enc_optbytes k (c_impl c))
  | SBoot, TBytes => Some (enc_optbytes k (c_boot c))
  | SInst, TBytes => Some (enc_optbytes k (c_inst c))
  | SCert, TStr => Some (enc_optbytes k (c_cert c))
  | SVsi, TStr => Some (enc_optbytes k (c_vsi c))
  | SNonce, TBytes => match c_nonce c with
                      | None => Some None | Some [b] => Some (Some (CBytes b)) | Some _ => None end
  | SNonce, TNonce => match c_nonce c with
                      | None => Some None
                      | Some [] => None                                   (* eat.Nonce.Validate: empty *)
                      | Some [b] => if nonce_len_ok b then Some (Some (CBytes b)) else None
                      | Some l => if forallb nonce_len_ok l then Some (Some (CArray (map CBytes l))) else None
                      end
  | SSwc, TSwcs =>
      match c_swc c with
      | None => Some None
      | Some l =>
          match c_kind c, l with
          | K1, [] => Some None                     (* P1Claims.MarshalCBOR drops an empty container *)
          | _, _ => match enc_swcs swtags l with Some cs => Some (Some (CArray cs)) | None => None end
          end
      end
  | _, _ => None
  end.

(** EncodeClaimsToCBOR as a data-item tree *)
Definition encode_tree (tags swtags : list field_tag) (c : claims) : option cbor :=
  match enc_fields_gen (claim_value swtags) tags c with
  | Some kvs => Some (CMap kvs)
  | None => None
  end.

(** * typed decoding *)

Definition is_nil (v : cbor) : bool :=
  match v with CSimple 22 | CSimple 23 => true | _ => false end.

Fixpoint has_tag (fuel : nat) (v : cbor) : bool :=
  match fuel with
  | O => true
  | S f =>
      match v with
      | CTag _ _ => true
      | CArray l => existsb (has_tag f) l
      | CMap l => existsb (fun kv => has_tag f (fst kv) || has_tag f (snd kv)) l
      | _ => false
      end
  end.

(** an unsigned integer as fxamacker reads it into a Go integer: major 0,
    or a simple value other than false/true/null/undefined *)
Definition as_uint (v : cbor) : option N :=
  match v with
  | CUint n => Some n
  | CSimple n => if (n =? 20) || (n =? 21) || (n =? 22) || (n =? 23) then None else Some n
  | _ => None
  end.

Definition dec_int (bits : N) (v : cbor) : option Z :=
  match v with
  | CNint n => if n <? 2 ^ (bits - 1) then Some (- Z.of_N n - 1)%Z else None
  | _ => match as_uint v with
         | Some n => if n <? 2 ^ (bits - 1) then Some (Z.of_N n) else None
         | None => None
         end
  end.

Definition dec_uint (bits : N) (v : cbor) : option N :=
  match as_uint v with Some n => if n <? 2 ^ bits then Some n else None | None => None end.

Definition dec_u8 (v : cbor) : option byte :=
  if is_nil v then Some x00
  else match dec_uint 8 v with Some n => Some (byte_of_N n) | None => None end.

Fixpoint all_some {A} (l : list (option A)) : option (list A) :=
  match l with
  | [] => Some []
  | None :: _ => None
  | Some a :: r => match all_some r with Some r' => Some (a :: r') | None => None end
  end.

(** into a []byte: a byte string, or (fxamacker) an array of uint8 *)
Definition dec_bytes (v : cbor) : option bytes :=
  match v with
  | CBytes b => Some b
  | CArray l => all_some (map dec_u8 l)
  | _ => None
  end.

Definition dec_text (v : cbor) : option bytes :=
  match v with CText s => if utf8_valid s then Some s else None | _ => None end.

Inductive keyclass := KInt (z : Z) | KText (s : bytes) | KBad.

Definition classify_key (k : cbor) : keyclass :=
  match k with
  | CUint n => KInt (if n <? 2 ^ 63 then Z.of_N n else (Z.of_N n - 2 ^ 64)%Z)   (* int64(val) wraps *)
  | CNint n => if n <? 2 ^ 63 then KInt (- Z.of_N n - 1)%Z else KBad
  | CText s => if utf8_valid s then KText s else KBad
  | _ => KBad
  end.

Definition find_field (tags : list field_tag) (z : Z) : option field_tag :=
  find (fun f => negb (f_skip f) && f_keyasint f && Z.eqb (f_key f) z) tags.

Definition zmem (z : Z) (l : list Z) : bool := existsb (Z.eqb z) l.

(** text keys that spell a field's key are matched by fxamacker against the
    field name; such tokens are outside the modelled space *)
Definition text_names_field (tags : list field_tag) (s : bytes) : bool :=
  existsb (fun f => negb (f_skip f) && bytes_eqb s (dec_of_Z (f_key f))) tags.

Section DecMap.
  Context {A : Type} (tags : list field_tag) (setf : field_tag -> cbor -> A -> option A).

  (** returns the updated value and whether an error was recorded *)
  Fixpoint dec_pairs (kvs : list (cbor * cbor)) (found : list Z) (a : A) (err : bool) : A * bool :=
    match kvs with
    | [] => (a, err)
    | (k, v) :: r =>
        match classify_key k with
        | KBad => dec_pairs r found a true
        | KText _ => dec_pairs r found a err
        | KInt z =>
            if zmem z found then dec_pairs r found a err
            else match find_field tags z with
                 | None => dec_pairs r found a err
                 | Some f => match setf f v a with
                             | Some a' => dec_pairs r (z :: found) a' err
                             | None => dec_pairs r (z :: found) a true
                             end
                 end
        end
    end.

  (** does the map fall outside the modelled space? *)
  Definition unmodelled_pairs (kvs : list (cbor * cbor)) : bool :=
    existsb (fun kv => match classify_key (fst kv) with
                       | KInt z => match find_field tags z with Some _ => has_tag 40 (snd kv) | None => false end
                       | KText s => text_names_field tags s
                       | KBad => false
                       end || match fst kv with CTag _ _ => true | _ => false end) kvs.
End DecMap.

Definition set_swc_field (f : field_tag) (v : cbor) (s : swc) : option swc :=
  let k := kind_of_type (f_type f) in
  let val : option (option bytes) :=
    if is_nil v then Some None
    else match k with
         | TStr => option_map Some (dec_text v)
         | TBytes => option_map Some (dec_bytes v)
         | _ => None
         end in
  match val, swslot_of_name (f_name f) with
  | Some x, WMtype => Some {| sw_mtype := x; sw_mval := sw_mval s; sw_version := sw_version s; sw_signer := sw_signer s; sw_mdesc := sw_mdesc s |}
  | Some x, WMval => Some {| sw_mtype := sw_mtype s; sw_mval := x; sw_version := sw_version s; sw_signer := sw_signer s; sw_mdesc := sw_mdesc s |}
  | Some x, WVersion => Some {| sw_mtype := sw_mtype s; sw_mval := sw_mval s; sw_version := x; sw_signer := sw_signer s; sw_mdesc := sw_mdesc s |}
  | Some x, WSigner => Some {| sw_mtype := sw_mtype s; sw_mval := sw_mval s; sw_version := sw_version s; sw_signer := x; sw_mdesc := sw_mdesc s |}
  | Some x, WMdesc => Some {| sw_mtype := sw_mtype s; sw_mval := sw_mval s; sw_version := sw_version s; sw_signer := sw_signer s; sw_mdesc := x |}
  | _, _ => None
  end.

Definition empty_swc : swc := {| sw_mtype := None; sw_mval := None; sw_version := None; sw_signer := None; sw_mdesc := None |}.

(** one element of the component array: null -> nil pointer, map -> struct *)
Definition dec_swc (swtags : list field_tag) (v : cbor) : option (option swc) :=
  if is_nil v then Some None
  else match v with
       | CMap kvs => let '(s, err) := dec_pairs swtags set_swc_field kvs [] empty_swc false in
                     if err then None else Some (Some s)
       | _ => None
       end.

Definition dec_swcs (swtags : list field_tag) (v : cbor) : option (list (option swc)) :=
  if is_nil v then Some []
  else match v with
       | CArray l => all_some (map (dec_swc swtags) l)
       | _ => None
       end.

(** eat.Nonce.UnmarshalCBOR *)
Definition dec_nonce_elem (v : cbor) : option bytes :=
  if is_nil v then Some [] else dec_bytes v.

Definition dec_nonce (v : cbor) : option (list bytes) :=
  match v with
  | CArray l => all_some (map dec_nonce_elem l)
  | _ => match dec_nonce_elem v with Some b => Some [b] | None => None end
  end.

Definition set_claim_field (swtags : list field_tag) (f : field_tag) (v : cbor) (c : claims) : option claims :=
  let k := kind_of_type (f_type f) in
  let nil := is_nil v in
  match slot_of_name (f_name f), k with
  | SProfile, TStr => if nil then Some (upd_profile c None) else option_map (fun s => upd_profile c (Some (PStr s))) (dec_text v)
  | SProfile, TProfile => if nil then Some (upd_profile c None)
                          else match v with
                               | CText _ => option_map (fun s => upd_profile c (Some (PStr s))) (dec_text v)
                               | _ => None
                               end
  | SClient, TInt bits => if nil then Some (upd_client c None) else option_map (fun z => upd_client c (Some z)) (dec_int bits v)
  | SLc, TUintK bits => if nil then Some (upd_lc c None) else option_map (fun n => upd_lc c (Some n)) (dec_uint bits v)
  | SNosw, TUintK bits => if nil then Some (upd_swc c (c_swc c) None) else option_map (fun n => upd_swc c (c_swc c) (Some n)) (dec_uint bits v)
  | SImpl, TBytes => if nil then Some (upd_impl c None) else option_map (fun b => upd_impl c (Some b)) (dec_bytes v)
  | SBoot, TBytes => if nil then Some (upd_boot c None) else option_map (fun b => upd_boot c (Some b)) (dec_bytes v)
  | SInst, TBytes => if nil then Some (upd_inst c None) else option_map (fun b => upd_inst c (Some b)) (dec_bytes v)
  | SCert, TStr => if nil then Some (upd_cert c None) else option_map (fun b => upd_cert c (Some b)) (dec_text v)
  | SVsi, TStr => if nil then Some (upd_vsi c None) else option_map (fun b => upd_vsi c (Some b)) (dec_text v)
  | SNonce, TBytes => if nil then Some (upd_nonce c None) else option_map (fun b => upd_nonce c (Some [b])) (dec_bytes v)
  | SNonce, TNonce => if nil then Some (upd_nonce c None) else option_map (fun l => upd_nonce c (Some l)) (dec_nonce v)
  | SSwc, TSwcs => option_map (fun l => upd_swc c (Some l) (c_nosw c)) (dec_swcs swtags v)
  | _, _ => None
  end.

Inductive dres (A : Type) := DOk (a : A) | DErr | DUnmodelled.
Arguments DOk {A} a.
Arguments DErr {A}.
Arguments DUnmodelled {A}.

(** decode a claims map into the fresh claims-set [c0] (whose profile claim
    the type's UnmarshalCBOR clears first) *)
Definition decode_into (tags swtags : list field_tag) (t : cbor) (c0 : claims) : dres claims :=
  match t with
  | CMap kvs =>
      if unmodelled_pairs tags kvs then DUnmodelled
      else if existsb (fun kv => match classify_key (fst kv), snd kv with
                                 | KInt z, CArray l =>
                                     match find_field tags z with
                                     | Some f => match kind_of_type (f_type f) with
                                                 | TSwcs => existsb (fun e => match e with CMap m => unmodelled_pairs swtags m | _ => false end) l
                                                 | _ => false
                                                 end
                                     | None => false
                                     end
                                 | _, _ => false
                                 end) kvs then DUnmodelled
      else let '(c, err) := dec_pairs tags (set_claim_field swtags) kvs [] (upd_profile c0 None) false in
           if err then DErr else DOk c
  | CTag _ _ => DUnmodelled
  | _ => DErr
  end.

(** the selector struct of DecodeClaimsFromCBOR: field 265 of Go type string *)
Definition selector_tags : list field_tag :=
  [ {| f_name := "Profile"; f_type := "string"; f_key := 265%Z; f_keyasint := true; f_omitempty := false; f_skip := false;
       f_json := ""; f_json_omitempty := false; f_json_skip := true |} ].

Definition decode_selector (t : cbor) : dres bytes :=
  match t with
  | CMap kvs =>
      if unmodelled_pairs selector_tags kvs then DUnmodelled
      else let '(s, err) := dec_pairs selector_tags
                              (fun _ v s => if is_nil v then Some s else dec_text v) kvs [] [] false in
           if err then DErr else DOk s
  | CTag _ _ => DUnmodelled
  | _ => DErr
  end.

(** fxamacker leniencies that make a token with a WRONG wire type decode:
    an array of small integers where a byte string is expected, and a
    simple value where an integer is expected (known findings K1 / K3) *)
Definition lenient_scalar (k : fkind) (v : cbor) : bool :=
  match k, v with
  | TBytes, CArray _ => true
  | TInt _, CSimple n | TUintK _, CSimple n => negb ((n =? 20) || (n =? 21) || (n =? 22) || (n =? 23))
  | _, _ => false
  end.

Definition lenient_pairs (tags : list field_tag) (inner : field_tag -> cbor -> bool) (kvs : list (cbor * cbor)) : bool :=
  existsb (fun kv => match classify_key (fst kv) with
                     | KInt z => match find_field tags z with
                                 | Some f => lenient_scalar (kind_of_type (f_type f)) (snd kv) || inner f (snd kv)
                                 | None => false
                                 end
                     | _ => false
                     end) kvs.

Definition lenient_claim (swtags : list field_tag) (f : field_tag) (v : cbor) : bool :=
  match kind_of_type (f_type f), v with
  | TSwcs, CArray l => existsb (fun e => match e with CMap m => lenient_pairs swtags (fun _ _ => false) m | _ => false end) l
  | TNonce, CArray l => existsb (fun e => match e with CArray _ => true | _ => false end) l
  | _, _ => false
  end.

Definition lenient_token (tags swtags : list field_tag) (t : cbor) : bool :=
  match t with CMap kvs => lenient_pairs tags (lenient_claim swtags) kvs | _ => false end.
