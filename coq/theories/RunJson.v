(** RTJ <13 claims tokens>: EncodeClaimsToJSON (as a tree), DecodeClaimsFromJSON of it with all
    getters, and CBOR -> claims -> JSON -> claims -> CBOR *)
From Coq Require Import String.
From PSA Require Import Base Lines Lifecycle Regex Claims Cbor Utf8 Tags Wire Codec Json Registry JsonCodec Obs CaseClaims.
Open Scope N_scope.

Definition run_rtj (cc : ccfg) (w : wcfg) (args : list bytes) : bytes :=
  match parse_claims args with
  | Some (c, []) =>
      match c_kind c, c_swc c, c_profile c with
      | K2, Some [], _ => s2b "*"
      | _, _, Some (POid _) => s2b "*"
      | _, _, _ =>
          match encode_json w c with
          | None => s2b "err"
          | Some j =>
              let d := decode_json cc w j in
              let cross :=
                match encode_cbor w c with
                | Some b1 =>
                    match decode_cbor cc w b1 with
                    | DOk c2 =>
                        match encode_json w c2 with
                        | Some j2 => match decode_json cc w j2 with
                                     | DOk c3 => match encode_cbor w c3 with
                                                 | Some b2 => if bytes_eqb b1 b2 then s2b "cross=same" else s2b "cross=differs"
                                                 | None => s2b "cross=err"
                                                 end
                                     | _ => s2b "cross=err"
                                     end
                        | None => s2b "cross=err"
                        end
                    | _ => s2b "cross=err"
                    end
                | None => s2b "cross=err"
                end in
              let vj := match validate_and_encode_json cc w c with Some _ => s2b "vj=ok" | None => s2b "vj=err" end in
              let dvj := match decode_and_validate_json cc w j with DOk _ => s2b "dvj=ok" | DErr => s2b "dvj=err" | DUnmodelled => s2b "*" end in
              join_sp (jprint 8 j ::
                       match d with
                       | DOk c' => s2b "ok" :: obs_getters cc c'
                       | DErr => [s2b "err"]
                       | DUnmodelled => [s2b "*"]
                       end ++ [cross; vj; dvj])
          end
      end
  | _ => bad_input
  end.
