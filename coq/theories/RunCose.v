(** Runners for envelope cases:
      COSE <hex>                        DecodeEvidenceFromCOSE
      TAMP <k> <vk> <orig hex> <hex>    decode the (tampered) token and verify it with key vk;
                                        the original was signed with key k *)
From Coq Require Import String.
From PSA Require Import Base Lines Lifecycle Regex Claims Cbor Tags Wire Codec Cose Obs CaseClaims RunEv.
Open Scope N_scope.

Definition tok_optZ (o : option Z) : bytes := match o with Some z => dec_of_Z z | None => s2b "_" end.

Definition run_cose (cc : ccfg) (w : wcfg) (args : list bytes) : bytes :=
  match args with
  | [h] =>
      match parse_hex h with
      | Some b =>
          match decode_evidence cc w b with
          | DOk (v, c) => join_sp ([s2b "ok"; hex_of (v_prot v); tok_optZ (v_alg v); hex_of (v_payload v); hex_of (v_sig v)] ++ print_claims c)
          | DErr => s2b "err"
          | DUnmodelled => s2b "*"
          end
      | None => bad_input
      end
  | _ => bad_input
  end.

Definition run_tamp (cc : ccfg) (w : wcfg) (args : list bytes) : bytes :=
  match args with
  | [tk; tvk; ho; ht] =>
      match parse_N tk, parse_N tvk, parse_hex ho, parse_hex ht with
      | Some k, Some vk, Some orig, Some tam =>
          match cose_decode orig with
          | DOk vo =>
              match decode_evidence cc w tam with
              | DOk (vt, _) =>
                  let same := bytes_eqb (v_prot vt) (v_prot vo) && bytes_eqb (v_payload vt) (v_payload vo) && bytes_eqb (v_sig vt) (v_sig vo) in
                  let algok := match v_alg vt with Some a => Z.eqb a (key_alg vk) && alg_known a | None => false end in
                  join_sp [s2b "ok"; if same && (k =? vk) && algok then s2b "ok" else s2b "err"]
              | DErr => s2b "err err"
              | DUnmodelled => s2b "* *"
              end
          | _ => bad_input
          end
      | _, _, _, _ => bad_input
      end
  | _ => bad_input
  end.
