(** C15: populate (serialize s) = s for EVERY struct shape following the claims convention --
    tagged / optional / "-" / untagged pointer fields, embedded structs and embedded interfaces
    (holding a struct or nil) nested to any depth the codec supports, keys pairwise distinct over
    all levels -- and EVERY well-typed assignment of values. *)
From Coq Require Import Arith ZArith String Lia ZifyN ZifyNat ZifyBool.
From PSA Require Import Base Lines Cbor CborProofs Utf8 Tags Wire Embedded EmbeddedProofs EmbeddedRoundtrip EmbeddedFlat.
Open Scope N_scope.

(** the embedded parts of a level *)
Definition sub_of (it : item) : option (list item) :=
  match it with IEmb s => Some s | IEmbIface (Some s) => Some s | _ => None end.

(** all levels laid out in the order the serialiser visits them: own fields, then the embedded structs depth first *)
Fixpoint flatten (fuel : nat) (its : list item) : list item :=
  match fuel with
  | O => []
  | Datatypes.S f => its ++ flat_map (fun it => match sub_of it with Some s => flatten f s | None => [] end) its
  end.

Definition embs_ser (f : nat) := fix embs (its : list item) (m : fmap) : option fmap :=
  match its with
  | [] => Some m
  | IEmb s :: r => match ser_items f s m with Some m' => embs r m' | None => None end
  | IEmbIface (Some s) :: r => match ser_items f s m with Some m' => embs r m' | None => None end
  | _ :: r => embs r m
  end.

Lemma ser_items_S f its m :
  ser_items (Datatypes.S f) its m = match own_ser its m with Some m1 => embs_ser f its m1 | None => None end.
Proof. reflexivity. Qed.

Lemma own_ser_app a : forall b m, own_ser (a ++ b) m = match own_ser a m with Some m1 => own_ser b m1 | None => None end.
Proof.
  induction a as [|it a IH]; intros b m; [reflexivity|].
  destruct it as [k om kd v|v|s|s]; cbn [app own_ser]; fold own_ser; try apply IH.
  destruct (om && is_zero v); [apply IH|]. destruct (fm_add m k (marshal_val v)); [apply IH|reflexivity].
Qed.

(** shapes the codec can handle with the given nesting budget *)
Fixpoint shape_ok (fuel : nat) (its : list item) : Prop :=
  match fuel with
  | O => False
  | Datatypes.S f =>
      Forall (fun it => match it with
                        | IFld k _ kd v => key_ok k /\ val_ok kd v
                        | ISkip _ | IEmbIface None => True
                        | IEmb s | IEmbIface (Some s) => shape_ok f s
                        end) its
  end.

(** the serialiser visits the levels in the order of [flatten] *)
Theorem ser_flatten : forall fuel its m, shape_ok fuel its -> ser_items fuel its m = own_ser (flatten fuel its) m.
Proof.
  induction fuel as [|f IH]; intros its m Ok; [destruct Ok|].
  rewrite ser_items_S. cbn [flatten]. rewrite own_ser_app. destruct (own_ser its m) as [m1|]; [|reflexivity].
  cbn [shape_ok] in Ok. clear m. revert m1. induction Ok as [|it r Hit Ok IHr]; intro m1; [reflexivity|].
  destruct it as [k om kd v|v|s|[s|]]; cbn [embs_ser flat_map sub_of]; fold (embs_ser f); try (cbn [app]; apply IHr).
  - rewrite own_ser_app, (IH s m1 Hit). destruct (own_ser (flatten f s) m1); [apply IHr|reflexivity].
  - rewrite own_ser_app, (IH s m1 Hit). destruct (own_ser (flatten f s) m1); [apply IHr|reflexivity].
Qed.

(** * the populator *)
Fixpoint deep_clear (fuel : nat) (its : list item) : list item :=
  match fuel with
  | O => its
  | Datatypes.S f =>
      map (fun it => match it with
                     | IFld k om kd _ => IFld k om kd VNone
                     | IEmb s => IEmb (deep_clear f s)
                     | IEmbIface (Some s) => IEmbIface (Some (deep_clear f s))
                     | other => other
                     end) its
  end.

Definition clr (f : nat) (it : item) : item :=
  match it with
  | IFld k om kd _ => IFld k om kd VNone
  | IEmb s => IEmb (deep_clear f s)
  | IEmbIface (Some s) => IEmbIface (Some (deep_clear f s))
  | other => other
  end.

Lemma deep_clear_S f its : deep_clear (Datatypes.S f) its = map (clr f) its.
Proof. reflexivity. Qed.

(** a level after its own fields have been read: the embedded parts are still blank *)
Definition half (f : nat) (it : item) : item :=
  match it with
  | IEmb s => IEmb (deep_clear f s)
  | IEmbIface (Some s) => IEmbIface (Some (deep_clear f s))
  | other => other
  end.

Definition embs_pop (f : nat) := fix embs (its : list item) (m : fmap) : option (list item * fmap) :=
  match its with
  | [] => Some ([], m)
  | IEmb s :: r =>
      match pop_items f s m with
      | Some (s', m1) => match embs r m1 with Some (r', m2) => Some (IEmb s' :: r', m2) | None => None end
      | None => None
      end
  | IEmbIface (Some s) :: r =>
      match pop_items f s m with
      | Some (s', m1) => match embs r m1 with Some (r', m2) => Some (IEmbIface (Some s') :: r', m2) | None => None end
      | None => None
      end
  | other :: r => match embs r m with Some (r', m') => Some (other :: r', m') | None => None end
  end.

Lemma pop_items_S f its m :
  pop_items (Datatypes.S f) its m = match own_pop its m with Some (its1, m1) => embs_pop f its1 m1 | None => None end.
Proof. reflexivity. Qed.

Definition field_ok (it : item) : Prop := match it with IFld k _ kd v => key_ok k /\ val_ok kd v | _ => True end.

Lemma keys_of_app a b : keys_of (a ++ b) = (keys_of a ++ keys_of b)%list.
Proof. unfold keys_of. apply flat_map_app. Qed.

(** own fields: read back, and nothing else in the map is touched *)
Lemma own_pop_gen f : forall its m, Forall field_ok its -> NoDup (keys_of its) -> lookups_ok its m ->
  exists mf, own_pop (map (clr f) its) m = Some (map (half f) its, mf) /\
             forall k, ~ In k (keys_of its) -> fm_get mf k = fm_get m k.
Proof.
  induction its as [|it r IH]; intros m Ok ND L; [exists m; split; [reflexivity|auto]|].
  inversion Ok as [|? ? Oit Ok']. subst.
  assert (lookups_ok r m) as Lr by (intros k om kd v Hin; apply (L k om kd v); right; exact Hin).
  destruct it as [k om kd v|v|s|[s|]]; cbn [map clr half own_pop]; fold own_pop.
  - cbn [keys_of flat_map app] in ND. fold (keys_of r) in ND. inversion ND as [|? ? Nin ND']. subst.
    destruct Oit as [_ Ov]. rewrite (L k om kd v (or_introl eq_refl)).
    destruct (om && is_zero v) eqn:Om.
    + apply andb_true_iff in Om. destruct Om as [-> Z0]. destruct v; try discriminate.
      destruct (IH m Ok' ND' Lr) as (mf & E & Fr). rewrite E. exists mf. split; [reflexivity|].
      intros k' Nk. apply Fr. intro X. apply Nk. cbn [keys_of flat_map app]. right. exact X.
    + rewrite (dec_field_marshal kd v Ov).
      assert (lookups_ok r (fm_delete m k)) as Ld.
      { intros k' om' kd' v' Hin. rewrite fm_get_delete_other; [apply (Lr k' om' kd' v'); exact Hin|].
        intro X. subst k'. apply Nin. unfold keys_of. apply in_flat_map. exists (IFld k om' kd' v'). split; [exact Hin|left; reflexivity]. }
      destruct (IH (fm_delete m k) Ok' ND' Ld) as (mf & E & Fr). rewrite E. exists mf. split; [reflexivity|].
      intros k' Nk. rewrite Fr by (intro X; apply Nk; cbn [keys_of flat_map app]; right; exact X).
      apply fm_get_delete_other. intro X. apply Nk. cbn [keys_of flat_map app]. left. exact X.
  - destruct (IH m Ok' ND Lr) as (mf & E & Fr). rewrite E. exists mf. split; [reflexivity|exact Fr].
  - destruct (IH m Ok' ND Lr) as (mf & E & Fr). rewrite E. exists mf. split; [reflexivity|exact Fr].
  - destruct (IH m Ok' ND Lr) as (mf & E & Fr). rewrite E. exists mf. split; [reflexivity|exact Fr].
  - destruct (IH m Ok' ND Lr) as (mf & E & Fr). rewrite E. exists mf. split; [reflexivity|exact Fr].
Qed.

Definition sub_flat (f : nat) (its : list item) : list item :=
  flat_map (fun it => match sub_of it with Some s => flatten f s | None => [] end) its.

Lemma lookups_app a b m : lookups_ok (a ++ b) m -> lookups_ok a m /\ lookups_ok b m.
Proof.
  intro L. split; intros k om kd v Hin; apply (L k om kd v); apply in_or_app; [left|right]; exact Hin.
Qed.

Lemma lookups_frame its m m' : lookups_ok its m -> (forall k, In k (keys_of its) -> fm_get m' k = fm_get m k) -> lookups_ok its m'.
Proof.
  intros L Fr k om kd v Hin. rewrite Fr; [apply (L k om kd v Hin)|].
  unfold keys_of. apply in_flat_map. exists (IFld k om kd v). split; [exact Hin|left; reflexivity].
Qed.

Lemma nodup_app_l {T} (a b : list T) : NoDup (a ++ b) -> NoDup a.
Proof. induction a as [|x a IH]; cbn; intro H; [constructor|]. inversion H as [|? ? Nin H']. subst. constructor; [intro X; apply Nin; apply in_or_app; left; exact X|auto]. Qed.

Lemma nodup_app_r {T} (l1 l2 : list T) : NoDup (l1 ++ l2) -> NoDup l2.
Proof. induction l1 as [|x l1 IH]; cbn; intro H; [exact H|]. inversion H. auto. Qed.

Lemma nodup_app_disj {T} (a b : list T) x : NoDup (a ++ b) -> In x a -> In x b -> False.
Proof.
  induction a as [|y a IH]; cbn; intros H Ia Ib; [destruct Ia|]. inversion H as [|? ? Nin H']. subst.
  destruct Ia as [->|Ia]; [apply Nin; apply in_or_app; right; exact Ib|exact (IH H' Ia Ib)].
Qed.

(** every level of every shape: populated back, nothing else in the map touched *)
Theorem pop_deep : forall fuel its m, shape_ok fuel its -> NoDup (keys_of (flatten fuel its)) -> lookups_ok (flatten fuel its) m ->
  exists mf, pop_items fuel (deep_clear fuel its) m = Some (its, mf) /\
             forall k, ~ In k (keys_of (flatten fuel its)) -> fm_get mf k = fm_get m k.
Proof.
  induction fuel as [|f IH]; intros its m Ok ND L; [destruct Ok|].
  cbn [flatten] in ND, L. fold (sub_flat f its) in ND, L. rewrite keys_of_app in ND.
  destruct (lookups_app _ _ _ L) as [Lo Ls].
  assert (Forall field_ok its) as Fo.
  { cbn [shape_ok] in Ok. eapply Forall_impl; [|exact Ok]. intros it H. destruct it; cbn; auto. }
  destruct (own_pop_gen f its m Fo (nodup_app_l _ _ ND) Lo) as (m1 & E1 & Fr1).
  rewrite pop_items_S, deep_clear_S, E1.
  (* the embedded parts, with the map left by the own fields *)
  assert (lookups_ok (sub_flat f its) m1) as Ls1.
  { apply (lookups_frame _ m m1 Ls). intros k Hk. apply Fr1. intro X. exact (nodup_app_disj _ _ k ND X Hk). }
  assert (NoDup (keys_of (sub_flat f its))) as NDs by (apply nodup_app_r in ND; exact ND).
  assert (G : exists mf, embs_pop f (map (half f) its) m1 = Some (its, mf) /\
                         forall k, ~ In k (keys_of (sub_flat f its)) -> fm_get mf k = fm_get m1 k).
  { cbn [shape_ok] in Ok. clear E1 Fr1 Lo Fo ND L Ls m. revert m1 Ls1 NDs.
    induction Ok as [|it r Hit Ok IHr]; intros m1 Ls1 NDs; [exists m1; split; [reflexivity|auto]|].
    destruct it as [k om kd v|v|s|[s|]]; cbn [map half embs_pop]; fold (embs_pop f);
      unfold sub_flat in *; cbn [flat_map sub_of] in *; fold (sub_flat f r) in *.
    - destruct (IHr m1 Ls1 NDs) as (mf & E & Fr). rewrite E. exists mf. split; [reflexivity|exact Fr].
    - destruct (IHr m1 Ls1 NDs) as (mf & E & Fr). rewrite E. exists mf. split; [reflexivity|exact Fr].
    - rewrite keys_of_app in NDs. destruct (lookups_app _ _ _ Ls1) as [La Lb].
      destruct (IH s m1 Hit (nodup_app_l _ _ NDs) La) as (m2 & E2 & Fr2). rewrite E2.
      assert (lookups_ok (sub_flat f r) m2) as Lb2.
      { apply (lookups_frame _ m1 m2 Lb). intros k Hk. apply Fr2. intro X. exact (nodup_app_disj _ _ k NDs X Hk). }
      destruct (IHr m2 Lb2 (nodup_app_r _ _ NDs)) as (mf & E & Fr). rewrite E. exists mf. split; [reflexivity|].
      intros k Nk. rewrite keys_of_app in Nk. rewrite Fr by (intro X; apply Nk; apply in_or_app; right; exact X).
      apply Fr2. intro X. apply Nk. apply in_or_app. left. exact X.
    - rewrite keys_of_app in NDs. destruct (lookups_app _ _ _ Ls1) as [La Lb].
      destruct (IH s m1 Hit (nodup_app_l _ _ NDs) La) as (m2 & E2 & Fr2). rewrite E2.
      assert (lookups_ok (sub_flat f r) m2) as Lb2.
      { apply (lookups_frame _ m1 m2 Lb). intros k Hk. apply Fr2. intro X. exact (nodup_app_disj _ _ k NDs X Hk). }
      destruct (IHr m2 Lb2 (nodup_app_r _ _ NDs)) as (mf & E & Fr). rewrite E. exists mf. split; [reflexivity|].
      intros k Nk. rewrite keys_of_app in Nk. rewrite Fr by (intro X; apply Nk; apply in_or_app; right; exact X).
      apply Fr2. intro X. apply Nk. apply in_or_app. left. exact X.
    - destruct (IHr m1 Ls1 NDs) as (mf & E & Fr). rewrite E. exists mf. split; [reflexivity|exact Fr]. }
  destruct G as (mf & E & Fr). exists mf. split; [exact E|].
  intros k Nk. cbn [flatten] in Nk. fold (sub_flat f its) in Nk. rewrite keys_of_app in Nk.
  rewrite Fr by (intro X; apply Nk; apply in_or_app; right; exact X).
  apply Fr1. intro X. apply Nk. apply in_or_app. left. exact X.
Qed.

Lemma flatten_fields_ok : forall fuel its, shape_ok fuel its -> Forall field_ok (flatten fuel its).
Proof.
  induction fuel as [|f IH]; intros its Ok; [destruct Ok|]. cbn [flatten]. apply Forall_app. split.
  - cbn [shape_ok] in Ok. eapply Forall_impl; [|exact Ok]. intros it H. destruct it; cbn; auto.
  - cbn [shape_ok] in Ok. induction Ok as [|it r Hit Ok IHr]; [constructor|].
    cbn [flat_map]. apply Forall_app. split; [|exact IHr].
    destruct it as [k om kd v|v|s|[s|]]; cbn [sub_of]; try constructor; apply IH; exact Hit.
Qed.

Lemma emitted_pairs_ok_gen its : Forall field_ok its -> NoDup (keys_of its) -> pairs_ok (emitted_trees its).
Proof.
  intros Ok ND. split.
  - induction its as [|it r IH]; [constructor|]. inversion Ok; subst.
    destruct it as [k om kd v|v|s|s]; cbn [emitted_trees keys_of flat_map app] in *; fold (emitted_trees r); fold (keys_of r) in *; auto.
    inversion ND as [|? ? Nin ND']. subst. destruct (om && is_zero v); cbn [app map fst]; [auto|].
    constructor; [intro X; apply Nin; apply emitted_keys_sub; exact X|auto].
  - induction its as [|it r IH]; [constructor|]. inversion Ok as [|? ? Oit Ok']; subst.
    assert (NoDup (keys_of r)) as NDr.
    { destruct it; cbn [keys_of flat_map app] in ND; fold (keys_of r) in ND; [inversion ND; assumption|exact ND|exact ND|exact ND]. }
    destruct it as [k om kd v|v|s|s]; cbn [emitted_trees flat_map]; fold (emitted_trees r); try (apply IH; assumption).
    destruct (om && is_zero v); cbn [app]; [apply IH; assumption|].
    destruct Oit as [Hk Hv]. constructor; [|apply IH; assumption].
    cbn [fst snd]. destruct (tree_flat_wf kd v Hv) as [Fl Wf]. auto.
Qed.

(** populate (serialize s) = s *)
Theorem struct_roundtrip (its : list item) :
  shape_ok 16 its -> NoDup (keys_of (flatten 16 its)) -> N.of_nat (length (flatten 16 its)) < 2 ^ 32 ->
  exists b, serialize its = Some b /\ populate b (deep_clear 16 its) = Some its.
Proof.
  intros Ok ND Ln. unfold serialize.
  rewrite (ser_flatten 16 its [] Ok), (own_ser_ok (flatten 16 its) []) by exact ND. cbn [app].
  eexists. split; [reflexivity|]. unfold populate, raw_of.
  pose proof (flatten_fields_ok 16 its Ok) as Fo.
  rewrite (from_cbor_to_cbor (emitted_trees (flatten 16 its)) (emitted_pairs_ok_gen _ Fo ND)) by (pose proof (emitted_length (flatten 16 its)); lia).
  destruct (pop_deep 16 its (raw_of (emitted_trees (flatten 16 its))) Ok ND (lookups_emitted _ ND)) as (mf & E & _).
  unfold raw_of in E. rewrite E. reflexivity.
Qed.

(** non-vacuity: two levels of embedded structs plus an embedded interface holding a struct *)
Definition deep_w : list item :=
  [IFld 10 false KPInt (VInt 5);
   IEmb [IFld 20 false KPInt VNone; IFld 21 true KPBytes (VBytes [x01; x02]);
         IEmb [IFld 30 true KPInt (VInt (-9)); IFld 31 false KPStr (VStr (s2b "deep"))]];
   ISkip (VInt 3);
   IEmbIface (Some [IFld 40 true KPStr VNone; IFld 41 true KPStr (VStr (s2b "iface"))]);
   IEmbIface None].

Example deep_witness :
  shape_ok 16 deep_w /\ NoDup (keys_of (flatten 16 deep_w)) /\
  exists b, serialize deep_w = Some b /\ populate b (deep_clear 16 deep_w) = Some deep_w.
Proof.
  assert (K : forall z, (- 2 ^ 63 <= z < 2 ^ 63)%Z -> key_ok z) by (intros z H; exact H).
  split.
  - unfold deep_w. cbn [shape_ok].
    repeat (first [apply Forall_nil | apply Forall_cons]); cbn [val_ok]; try exact I;
      repeat split; try reflexivity; try (apply K; lia); try (vm_compute; reflexivity); try (cbn; lia).
  - split.
    + vm_compute. repeat (apply NoDup_cons; [cbn; intuition discriminate|]). apply NoDup_nil.
    + eexists. split.
      * vm_compute. reflexivity.
      * vm_compute. reflexivity.
Qed.
