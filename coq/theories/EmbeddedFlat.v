(** C15: structs without embedding -- populate (serialize s) = s for EVERY flat shape
    (any number of tagged, optional and untagged pointer fields, keys pairwise distinct)
    and EVERY well-typed value assignment. *)
From Coq Require Import Arith ZArith String Lia ZifyN ZifyNat ZifyBool.
From PSA Require Import Base Lines Cbor CborProofs Utf8 Tags Wire Embedded EmbeddedProofs EmbeddedRoundtrip.
From PSA Require Import Lifecycle Regex Claims ClaimsSpec Codec SetterProofs CodecProofs.
Open Scope N_scope.

(** the two local loops of the serialiser / populator, named *)
Definition own_ser := fix own (its : list item) (m : fmap) : option fmap :=
  match its with
  | [] => Some m
  | IFld key om _ v :: r =>
      if om && is_zero v then own r m
      else match fm_add m key (marshal_val v) with Some m' => own r m' | None => None end
  | _ :: r => own r m
  end.

Definition own_pop := fix own (its : list item) (m : fmap) : option (list item * fmap) :=
  match its with
  | [] => Some ([], m)
  | IFld key om k v :: r =>
      match fm_get m key with
      | None => if om then match own r m with Some (r', m') => Some (IFld key om k v :: r', m') | None => None end
                else None
      | Some raw =>
          match dec_field k raw with
          | Some v' => match own r (fm_delete m key) with
                       | Some (r', m') => Some (IFld key om k v' :: r', m')
                       | None => None
                       end
          | None => None
          end
      end
  | other :: r => match own r m with Some (r', m') => Some (other :: r', m') | None => None end
  end.

(** flat shapes: tagged and untagged fields only *)
Definition flat_item (it : item) : Prop := match it with IFld _ _ _ _ | ISkip _ => True | _ => False end.

Lemma ser_flat f its m : Forall flat_item its -> ser_items (Datatypes.S f) its m = own_ser its m.
Proof.
  intro F. cbn [ser_items]. fold own_ser. destruct (own_ser its m) as [m1|]; [|reflexivity].
  revert m1. induction F as [|it r Hit F IH]; intro m1; [reflexivity|].
  destruct it; cbn in Hit; try contradiction; apply IH.
Qed.

Lemma pop_flat f its m : Forall flat_item its ->
  pop_items (Datatypes.S f) its m = match own_pop its m with Some (its1, m1) => Some (its1, m1) | None => None end.
Proof.
  intro F. cbn [pop_items]. fold own_pop. destruct (own_pop its m) as [[its1 m1]|] eqn:E; [|reflexivity].
  assert (Forall flat_item its1) as F1.
  { clear f. revert m its1 m1 E. induction F as [|it r Hit F IH]; intros m its1 m1 E.
    - cbn in E. injection E as <- <-. constructor.
    - destruct it as [k om kd v|v| |]; cbn in Hit; try contradiction; cbn [own_pop] in E; fold own_pop in E.
      + destruct (fm_get m k) as [raw|].
        * destruct (dec_field kd raw) as [v'|]; [|discriminate].
          destruct (own_pop r (fm_delete m k)) as [[r' m']|] eqn:E'; [|discriminate]. injection E as <- <-.
          constructor; [exact I|]. apply (IH _ _ _ E').
        * destruct om; [|discriminate]. destruct (own_pop r m) as [[r' m']|] eqn:E'; [|discriminate]. injection E as <- <-.
          constructor; [exact I|]. apply (IH _ _ _ E').
      + destruct (own_pop r m) as [[r' m']|] eqn:E'; [|discriminate]. injection E as <- <-.
        constructor; [exact I|]. apply (IH _ _ _ E'). }
  clear E. revert m1. induction F1 as [|it r Hit F1 IH]; intro m1; [reflexivity|].
  destruct it; cbn in Hit; try contradiction; rewrite IH; reflexivity.
Qed.

(** * what is written *)
Definition tree_of (v : fval) : cbor :=
  match v with VNone => c_null | VInt z => enc_int z | VStr s => CText s | VBytes b => CBytes b end.

Lemma marshal_tree v : marshal_val v = enc (tree_of v).
Proof. destruct v; reflexivity. Qed.

Definition emitted_trees (its : list item) : list (Z * cbor) :=
  flat_map (fun it => match it with IFld k om _ v => if om && is_zero v then [] else [(k, tree_of v)] | _ => [] end) its.

Definition raw_of (l : list (Z * cbor)) : fmap := map (fun kv => (fst kv, enc (snd kv))) l.

Definition keys_of (its : list item) : list Z :=
  flat_map (fun it => match it with IFld k _ _ _ => [k] | _ => [] end) its.

Lemma fm_has_false m k : ~ In k (map fst m) -> fm_has m k = false.
Proof.
  intro N. unfold fm_has. destruct (existsb (fun kv => Z.eqb (fst kv) k) m) eqn:E; [|reflexivity].
  apply existsb_exists in E. destruct E as (x & Hx & Ex). apply Z.eqb_eq in Ex. exfalso. apply N. rewrite <- Ex. apply in_map. exact Hx.
Qed.

Lemma own_ser_ok : forall its m, NoDup (map fst m ++ keys_of its) ->
  own_ser its m = Some (m ++ raw_of (emitted_trees its)).
Proof.
  induction its as [|it r IH]; intros m ND; [cbn; rewrite app_nil_r; reflexivity|].
  destruct it as [k om kd v|v|s|s]; cbn [own_ser]; fold own_ser; cbn [keys_of flat_map emitted_trees app] in *; fold (keys_of r) in *; fold (emitted_trees r);
    try (apply IH; exact ND).
  assert (~ In k (map fst m) /\ NoDup (map fst m ++ keys_of r)) as [Nin ND'].
  { split; [intro X; apply NoDup_remove_2 in ND; apply ND; apply in_or_app; left; exact X|apply NoDup_remove_1 in ND; exact ND]. }
  destruct (om && is_zero v); [apply IH; exact ND'|].
  unfold fm_add. rewrite (fm_has_false m k Nin). rewrite IH.
  - cbn [app raw_of map fst snd]. rewrite <- app_assoc, marshal_tree. reflexivity.
  - rewrite map_app. cbn [map fst]. rewrite <- app_assoc. exact ND.
Qed.

(** * what is read back *)
Definition val_ok (kd : pkind) (v : fval) : Prop :=
  match v with
  | VNone => True
  | VInt z => kd = KPInt /\ key_ok z
  | VStr s => kd = KPStr /\ utf8_valid s = true /\ blen s < 2 ^ 64
  | VBytes b => kd = KPBytes /\ blen b < 2 ^ 64
  end.

Definition item_ok (it : item) : Prop :=
  match it with IFld k _ kd v => key_ok k /\ val_ok kd v | ISkip _ => True | _ => False end.

Lemma tree_flat_wf kd v : val_ok kd v -> flat (tree_of v) /\ wf (tree_of v).
Proof.
  destruct v as [|z|s|b]; cbn [val_ok tree_of]; intro H.
  - split; [reflexivity|cbn; lia].
  - destruct H as [_ H]. split; [apply enc_int_flat|apply enc_int_wf; exact H].
  - destruct H as (_ & _ & H). split; [exact I|exact H].
  - destruct H as [_ H]. split; [exact I|exact H].
Qed.

Lemma dec_field_marshal kd v : val_ok kd v -> dec_field kd (marshal_val v) = Some v.
Proof.
  intro H. destruct (tree_flat_wf kd v H) as [F W]. unfold dec_field. rewrite marshal_tree.
  rewrite parse_all_enc by (auto; rewrite flat_depth by exact F; unfold max_nesting; lia).
  destruct v as [|z|s|b]; cbn [tree_of val_ok] in *.
  - reflexivity.
  - destruct H as [-> Hz]. assert (is_nil (enc_int z) = false) as -> by (destruct z; reflexivity).
    assert (has_tag 40 (enc_int z) = false) as -> by (destruct z; reflexivity).
    rewrite (dec_int_enc 64 z) by (unfold key_ok in Hz; lia). reflexivity.
  - destruct H as (-> & U & _). cbn [is_nil]. change (has_tag 40 (CText s)) with false. cbv iota.
    rewrite (dec_text_ok s U). reflexivity.
  - destruct H as [-> _]. reflexivity.
Qed.

Definition clear_item (it : item) : item := match it with IFld k om kd _ => IFld k om kd VNone | other => other end.

Lemma fm_get_delete_other m k k' : k <> k' -> fm_get (fm_delete m k) k' = fm_get m k'.
Proof.
  intro Ne. induction m as [|[a v] m IH]; [reflexivity|]. cbn [fm_delete filter fm_get fst].
  destruct (Z.eqb_spec a k) as [->|Nk]; cbn [negb].
  - destruct (Z.eqb_spec k k'); [contradiction|]. exact IH.
  - cbn [fm_get]. destruct (Z.eqb a k'); [reflexivity|exact IH].
Qed.

(** what the remaining fields will find in the map *)
Definition lookups_ok (its : list item) (m : fmap) : Prop :=
  forall k om kd v, In (IFld k om kd v) its ->
  fm_get m k = if om && is_zero v then None else Some (marshal_val v).

Lemma own_pop_ok : forall its m, Forall flat_item its -> Forall item_ok its -> NoDup (keys_of its) -> lookups_ok its m ->
  exists mf, own_pop (map clear_item its) m = Some (its, mf).
Proof.
  induction its as [|it r IH]; intros m F Ok ND L; [exists m; reflexivity|].
  inversion F as [|? ? Hit F']. subst. inversion Ok as [|? ? Oit Ok']. subst.
  assert (lookups_ok r m) as Lr by (intros k om kd v Hin; apply (L k om kd v); right; exact Hin).
  destruct it as [k om kd v|v|s|s]; cbn in Hit; try contradiction; cbn [map clear_item own_pop]; fold own_pop.
  - cbn [keys_of flat_map app] in ND. fold (keys_of r) in ND. inversion ND as [|? ? Nin ND']. subst.
    destruct Oit as [_ Ov]. rewrite (L k om kd v (or_introl eq_refl)).
    destruct (om && is_zero v) eqn:Om.
    + apply andb_true_iff in Om. destruct Om as [-> Z0]. destruct v; try discriminate.
      destruct (IH m F' Ok' ND' Lr) as [mf E]. rewrite E. exists mf. reflexivity.
    + rewrite (dec_field_marshal kd v Ov).
      assert (lookups_ok r (fm_delete m k)) as Ld.
      { intros k' om' kd' v' Hin. rewrite fm_get_delete_other; [apply (Lr k' om' kd' v'); exact Hin|].
        intro X. subst k'. apply Nin. unfold keys_of. apply in_flat_map. exists (IFld k om' kd' v'). split; [exact Hin|left; reflexivity]. }
      destruct (IH (fm_delete m k) F' Ok' ND' Ld) as [mf E]. rewrite E. exists mf. reflexivity.
  - destruct (IH m F' Ok' ND Lr) as [mf E]. rewrite E. exists mf. reflexivity.
Qed.

Lemma emitted_keys_sub its k : In k (map fst (emitted_trees its)) -> In k (keys_of its).
Proof.
  induction its as [|it r IH]; [intros []|].
  destruct it as [k0 om kd v|v|s|s]; cbn [emitted_trees keys_of flat_map app]; fold (emitted_trees r); fold (keys_of r); try exact IH.
  destruct (om && is_zero v); cbn [app map fst]; [intro H; right; apply IH; exact H|].
  intros [<-|H]; [left; reflexivity|right; apply IH; exact H].
Qed.

Lemma fm_get_none m k : ~ In k (map fst m) -> fm_get m k = None.
Proof.
  induction m as [|[a v] m IH]; [reflexivity|]. cbn [map fst fm_get]. intro N.
  destruct (Z.eqb_spec a k) as [->|Ne]; [exfalso; apply N; left; reflexivity|]. apply IH. intro X. apply N. right. exact X.
Qed.

Lemma raw_keys l : map fst (raw_of l) = map fst l.
Proof. unfold raw_of. rewrite map_map. reflexivity. Qed.

Lemma lookups_emitted : forall its, NoDup (keys_of its) -> lookups_ok its (raw_of (emitted_trees its)).
Proof.
  induction its as [|it r IH]; intros ND k om kd v Hin; [destruct Hin|].
  destruct it as [k0 om0 kd0 v0|v0|s|s]; cbn [emitted_trees keys_of flat_map app] in *; fold (emitted_trees r); fold (keys_of r) in *.
  - inversion ND as [|? ? Nin ND']. subst.
    destruct Hin as [E|Hin].
    + injection E as -> -> -> ->. destruct (om && is_zero v).
      * cbn [app]. apply fm_get_none. rewrite raw_keys. intro X. apply Nin. apply emitted_keys_sub. exact X.
      * cbn [app raw_of map fst snd fm_get]. rewrite Z.eqb_refl, marshal_tree. reflexivity.
    + assert (k0 <> k) as Ne.
      { intro X. subst k0. apply Nin. unfold keys_of. apply in_flat_map. exists (IFld k om kd v). split; [exact Hin|left; reflexivity]. }
      destruct (om0 && is_zero v0); cbn [app raw_of map fst snd fm_get].
      * apply (IH ND' k om kd v Hin).
      * destruct (Z.eqb_spec k0 k); [contradiction|]. apply (IH ND' k om kd v Hin).
  - destruct Hin as [E|Hin]; [discriminate|]. apply (IH ND k om kd v Hin).
  - destruct Hin as [E|Hin]; [discriminate|]. apply (IH ND k om kd v Hin).
  - destruct Hin as [E|Hin]; [discriminate|]. apply (IH ND k om kd v Hin).
Qed.

Lemma emitted_pairs_ok its : Forall flat_item its -> Forall item_ok its -> NoDup (keys_of its) -> pairs_ok (emitted_trees its).
Proof.
  intros F Ok ND. split.
  - induction its as [|it r IH]; [constructor|].
    inversion F; inversion Ok; subst.
    destruct it as [k om kd v|v|s|s]; cbn [emitted_trees keys_of flat_map app] in *; fold (emitted_trees r); fold (keys_of r) in *; auto.
    inversion ND as [|? ? Nin ND']. subst. destruct (om && is_zero v); cbn [app map fst]; [auto|].
    constructor; [intro X; apply Nin; apply emitted_keys_sub; exact X|auto].
  - induction its as [|it r IH]; [constructor|].
    inversion F as [|? ? Hit F']; inversion Ok as [|? ? Oit Ok']; subst.
    assert (NoDup (keys_of r)) as NDr.
    { destruct it; cbn [keys_of flat_map app] in ND; fold (keys_of r) in ND; [inversion ND; assumption|exact ND|exact ND|exact ND]. }
    destruct it as [k om kd v|v|s|s]; cbn in Hit; try contradiction; cbn [emitted_trees flat_map]; fold (emitted_trees r); [|apply IH; assumption].
    destruct (om && is_zero v); cbn [app]; [apply IH; assumption|].
    destruct Oit as [Hk Hv]. constructor; [|apply IH; assumption].
    cbn [fst snd]. destruct (tree_flat_wf kd v Hv) as [Fl Wf]. auto.
Qed.

Lemma emitted_length its : (length (emitted_trees its) <= length its)%nat.
Proof.
  induction its as [|it r IH]; [cbn; lia|].
  destruct it as [k om kd v|v|s|s]; cbn [emitted_trees flat_map length]; fold (emitted_trees r); rewrite ?app_length; cbn [length]; try lia.
  destruct (om && is_zero v); cbn [length]; lia.
Qed.

(** populate (serialize s) = s: every flat shape, every well-typed assignment of values *)
Theorem flat_struct_roundtrip (its : list item) :
  Forall flat_item its -> Forall item_ok its -> NoDup (keys_of its) -> N.of_nat (length its) < 2 ^ 32 ->
  exists b, serialize its = Some b /\ populate b (map clear_item its) = Some its.
Proof.
  intros F Ok ND Ln. unfold serialize. change 16%nat with (Datatypes.S 15).
  rewrite (ser_flat 15 its [] F), (own_ser_ok its []) by exact ND. cbn [app].
  eexists. split; [reflexivity|]. unfold populate, raw_of.
  rewrite (from_cbor_to_cbor (emitted_trees its) (emitted_pairs_ok its F Ok ND)) by (pose proof (emitted_length its); lia).
  assert (Forall flat_item (map clear_item its)) as Fc.
  { clear -F. induction F as [|it r Hit F IH]; [constructor|]. constructor; [destruct it; exact Hit|exact IH]. }
  change 16%nat with (Datatypes.S 15). rewrite (pop_flat 15 _ _ Fc).
  destruct (own_pop_ok its (raw_of (emitted_trees its)) F Ok ND (lookups_emitted its ND)) as [mf E].
  unfold raw_of in E. rewrite E. reflexivity.
Qed.

(** non-vacuity: the harness shape "flat" (three tagged fields, one tagged "-", one untagged) with values *)
Definition flat_w : list item :=
  [IFld 1 false KPInt (VInt (-7)); IFld 2 true KPStr (VStr (s2b "text")); IFld (-3) true KPBytes VNone; ISkip (VInt 1); ISkip VNone].

Example flat_witness :
  Forall flat_item flat_w /\ Forall item_ok flat_w /\ NoDup (keys_of flat_w) /\
  exists b, serialize flat_w = Some b /\ populate b (map clear_item flat_w) = Some flat_w.
Proof.
  unfold flat_w. split; [repeat (apply Forall_cons; [exact I|]); apply Forall_nil|]. split.
  - apply Forall_cons; [split; [unfold key_ok; lia|split; [reflexivity|unfold key_ok; lia]]|].
    apply Forall_cons; [split; [unfold key_ok; lia|split; [reflexivity|split; [vm_compute; reflexivity|cbn; lia]]]|].
    apply Forall_cons; [split; [unfold key_ok; lia|exact I]|].
    apply Forall_cons; [exact I|]. apply Forall_cons; [exact I|]. apply Forall_nil.
  - split.
    + cbn. apply NoDup_cons; [cbn; intuition discriminate|]. apply NoDup_cons; [cbn; intuition discriminate|].
      apply NoDup_cons; [cbn; intuition|]. apply NoDup_nil.
    + eexists. split.
      * vm_compute. reflexivity.
      * vm_compute. reflexivity.
Qed.
