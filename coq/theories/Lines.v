(** Line-oriented case format shared with the Go harness: tokens separated
    by single spaces; decimal integers; byte strings in lower-case hex with
    "." for the empty string and "_" for an absent value. *)
From PSA Require Import Base.
Open Scope N_scope.

Definition SP : byte := x20.

Fixpoint split_on (sep : byte) (l : bytes) (cur : bytes) : list bytes :=
  match l with
  | [] => [rev_append cur []]
  | c :: l' => if byte_eqb c sep then rev_append cur [] :: split_on sep l' [] else split_on sep l' (c :: cur)
  end.

Definition tokens (l : bytes) : list bytes := split_on SP l [].

Definition digit_val (c : byte) : option N :=
  let n := Byte.to_N c in
  if (48 <=? n) && (n <=? 57) then Some (n - 48) else None.

Fixpoint parse_dec_acc (l : bytes) (acc : N) : option N :=
  match l with
  | [] => Some acc
  | c :: l' => match digit_val c with Some d => parse_dec_acc l' (acc * 10 + d) | None => None end
  end.

Definition parse_N (l : bytes) : option N :=
  match l with [] => None | _ => parse_dec_acc l 0 end.

Definition parse_Z (l : bytes) : option Z :=
  match l with
  | x2d :: r => match parse_N r with Some n => Some (- Z.of_N n)%Z | None => None end
  | _ => match parse_N l with Some n => Some (Z.of_N n) | None => None end
  end.

Definition hex_val (c : byte) : option N :=
  let n := Byte.to_N c in
  if (48 <=? n) && (n <=? 57) then Some (n - 48)
  else if (97 <=? n) && (n <=? 102) then Some (n - 87)
  else None.

Definition byte_of_N (n : N) : byte :=
  match Byte.of_N n with Some b => b | None => x00 end.

Fixpoint parse_hex_pairs (l : bytes) : option bytes :=
  match l with
  | [] => Some []
  | a :: b :: l' =>
      match hex_val a, hex_val b, parse_hex_pairs l' with
      | Some h, Some lo, Some r => Some (byte_of_N (h * 16 + lo) :: r)
      | _, _, _ => None
      end
  | _ => None
  end.

(** "." = empty byte string *)
Definition parse_hex (l : bytes) : option bytes :=
  match l with
  | [x2e] => Some []
  | _ => parse_hex_pairs l
  end.

(** "_" = absent *)
Definition parse_opt_hex (l : bytes) : option (option bytes) :=
  match l with
  | [x5f] => Some None
  | _ => match parse_hex l with Some b => Some (Some b) | None => None end
  end.

Definition hex_digit (n : N) : byte :=
  byte_of_N (if n <? 10 then 48 + n else 87 + n).

Fixpoint hex_of_pairs (l : bytes) : bytes :=
  match l with
  | [] => []
  | c :: l' => let n := Byte.to_N c in hex_digit (n / 16) :: hex_digit (n mod 16) :: hex_of_pairs l'
  end.

Definition hex_of (l : bytes) : bytes :=
  match l with [] => [x2e] | _ => hex_of_pairs l end.

Definition hex_of_opt (o : option bytes) : bytes :=
  match o with None => [x5f] | Some l => hex_of l end.

(** decimal printing with explicit fuel (20 digits cover 2^64) *)
Fixpoint dec_digits (fuel : nat) (n : N) (acc : bytes) : bytes :=
  match fuel with
  | O => acc
  | S f => let acc' := byte_of_N (48 + n mod 10) :: acc in
           if n / 10 =? 0 then acc' else dec_digits f (n / 10) acc'
  end.

Definition dec_of_N (n : N) : bytes := dec_digits 40 n [].

Definition dec_of_Z (z : Z) : bytes :=
  match z with
  | Zneg p => x2d :: dec_of_N (Npos p)
  | _ => dec_of_N (Z.to_N z)
  end.

Fixpoint join_sp (l : list bytes) : bytes :=
  match l with
  | [] => []
  | [a] => a
  | a :: l' => a ++ SP :: join_sp l'
  end.

Definition bool_tok (b : bool) : bytes := if b then [x31] else [x30].

(** The five errors.Is bits of an optional error, as "o m n p s" string of 0/1,
    preceded by "-" when the error is nil. *)
Definition err_bits (e : goerr) : bytes :=
  bool_tok (err_is e MissingOptional) ++ bool_tok (err_is e MissingMandatory) ++
  bool_tok (err_is e NotInProfile) ++ bool_tok (err_is e WrongProfile) ++ bool_tok (err_is e WrongSyntax).

(* ASCII helper: a Coq string literal as bytes *)
From Coq Require Import String.
Definition s2b (s : string) : bytes := list_byte_of_string s.
