(** Byte-level CBOR (RFC 8949): data-item trees, the encoder fxamacker
    uses for what psatoken emits (shortest heads, definite lengths), and a
    decoder accepting every head width but -- like psatoken's decoding mode
    -- no indefinite lengths, with fxamacker's default nesting limit. *)
From PSA Require Import Base Lines.
Open Scope N_scope.

Inductive cbor :=
| CUint (n : N)                       (* major 0 *)
| CNint (n : N)                       (* major 1: the integer -1-n *)
| CBytes (b : bytes)                  (* major 2 *)
| CText (b : bytes)                   (* major 3 (bytes not checked for UTF-8 here) *)
| CArray (l : list cbor)              (* major 4 *)
| CMap (l : list (cbor * cbor))       (* major 5, pairs in wire order *)
| CTag (t : N) (c : cbor)             (* major 6 *)
| CSimple (n : N)                     (* major 7, ai < 24 or one-byte simple value; 20 false 21 true 22 null 23 undefined *)
| CFloat (w : N) (bits : N).          (* major 7, ai 25/26/27: w = 2/4/8 bytes of raw bits *)

Definition c_null : cbor := CSimple 22.

(** big-endian, most significant byte first *)
Fixpoint be (k : nat) (n : N) : bytes :=
  match k with
  | O => []
  | S k' => be k' (n / 256) ++ [byte_of_N (n mod 256)]
  end.

Definition unbe (l : bytes) : N := fold_left (fun a b => a * 256 + Byte.to_N b) l 0.

Definition head (major n : N) : bytes :=
  if n <? 24 then [byte_of_N (major * 32 + n)]
  else if n <? 256 then byte_of_N (major * 32 + 24) :: be 1 n
  else if n <? 65536 then byte_of_N (major * 32 + 25) :: be 2 n
  else if n <? 4294967296 then byte_of_N (major * 32 + 26) :: be 4 n
  else byte_of_N (major * 32 + 27) :: be 8 n.

Fixpoint enc (c : cbor) : bytes :=
  match c with
  | CUint n => head 0 n
  | CNint n => head 1 n
  | CBytes b => head 2 (blen b) ++ b
  | CText b => head 3 (blen b) ++ b
  | CArray l => head 4 (N.of_nat (length l)) ++ flat_map enc l
  | CMap l => head 5 (N.of_nat (length l)) ++ flat_map (fun kv => enc (fst kv) ++ enc (snd kv)) l
  | CTag t c' => head 6 t ++ enc c'
  | CSimple n => if n <? 24 then [byte_of_N (224 + n)] else [byte_of_N 248; byte_of_N n]
  | CFloat w bits => byte_of_N (if w =? 2 then 249 else if w =? 4 then 250 else 251) :: be (N.to_nat w) bits
  end.

(** * decoding *)

(** the first k bytes and the rest (cost k, never the length of the whole input) *)
Fixpoint take (k : nat) (b : bytes) : option (bytes * bytes) :=
  match k with
  | O => Some ([], b)
  | S k' => match b with
            | [] => None
            | x :: r => match take k' r with Some (a, r') => Some (x :: a, r') | None => None end
            end
  end.

(** does [b] hold at least [n] bytes?  (cost min(n, |b|); n may be astronomically large) *)
Fixpoint at_least (b : bytes) (n : N) : bool :=
  match b with
  | [] => n =? 0
  | _ :: r => if n =? 0 then true else at_least r (N.pred n)
  end.

(** initial byte and argument: (major, additional info, argument, rest) *)
Definition parse_head (b : bytes) : option (N * N * N * bytes) :=
  match b with
  | [] => None
  | h :: r =>
      let v := Byte.to_N h in
      let major := v / 32 in
      let ai := v mod 32 in
      if ai <? 24 then Some (major, ai, ai, r)
      else if ai <? 28 then
        let k := match ai with 24 => 1%nat | 25 => 2%nat | 26 => 4%nat | _ => 8%nat end in
        match take k r with
        | Some (a, r') => Some (major, ai, unbe a, r')
        | None => None
        end
      else None        (* 28..30 reserved; 31 = indefinite length / break: forbidden by the decoding mode *)
  end.

Section Seq.
  Context {A : Type} (p : bytes -> option (A * bytes)).
  Fixpoint parse_seq (n : nat) (b : bytes) : option (list A * bytes) :=
    match n with
    | O => Some ([], b)
    | S k => match p b with
             | Some (a, b') => match parse_seq k b' with
                               | Some (l, b'') => Some (a :: l, b'')
                               | None => None
                               end
             | None => None
             end
    end.
End Seq.

(** [fuel] is the number of nesting levels (arrays, maps, tags) still allowed *)
Fixpoint parse (fuel : nat) (b : bytes) : option (cbor * bytes) :=
  match parse_head b with
  | None => None
  | Some (major, ai, arg, r) =>
      match major with
      | 0 => Some (CUint arg, r)
      | 1 => Some (CNint arg, r)
      | 2 => if at_least r arg then
               match take (N.to_nat arg) r with Some (s, r') => Some (CBytes s, r') | None => None end
             else None
      | 3 => if at_least r arg then
               match take (N.to_nat arg) r with Some (s, r') => Some (CText s, r') | None => None end
             else None
      | 4 => match fuel with
             | O => None
             | S f => if at_least r arg then           (* every element takes at least one byte *)
                        match parse_seq (parse f) (N.to_nat arg) r with
                        | Some (l, r') => Some (CArray l, r')
                        | None => None
                        end
                      else None
             end
      | 5 => match fuel with
             | O => None
             | S f => if at_least r (2 * arg) then
                        match parse_seq (fun b0 => match parse f b0 with
                                                   | Some (k, b1) => match parse f b1 with
                                                                     | Some (v, b2) => Some ((k, v), b2)
                                                                     | None => None
                                                                     end
                                                   | None => None
                                                   end) (N.to_nat arg) r with
                        | Some (l, r') => Some (CMap l, r')
                        | None => None
                        end
                      else None
             end
      | 6 => match fuel with
             | O => None
             | S f => match parse f r with
                      | Some (c, r') => Some (CTag arg c, r')
                      | None => None
                      end
             end
      | _ => if ai <? 24 then Some (CSimple arg, r)
             else if ai =? 24 then (if arg <? 32 then None else Some (CSimple arg, r))   (* two-byte simple < 32 is malformed *)
             else Some (CFloat (match ai with 25 => 2 | 26 => 4 | _ => 8 end) arg, r)
      end
  end.

Definition max_nesting : nat := 32.

(** a complete data item with nothing after it (fxamacker's Unmarshal) *)
Definition parse_all (b : bytes) : option cbor :=
  match parse max_nesting b with
  | Some (c, []) => Some c
  | _ => None
  end.

(** the first data item and the remaining bytes (UnmarshalFirst) *)
Definition parse_first (b : bytes) : option (cbor * bytes) := parse max_nesting b.

(** nesting depth as the decoder counts it *)
Fixpoint depth (c : cbor) : nat :=
  match c with
  | CArray l => S (fold_right (fun x m => Nat.max (depth x) m) 0%nat l)
  | CMap l => S (fold_right (fun kv m => Nat.max (Nat.max (depth (fst kv)) (depth (snd kv))) m) 0%nat l)
  | CTag _ c' => S (depth c')
  | _ => 0%nat
  end.

(** values the encoder can represent *)
Fixpoint wf (c : cbor) : Prop :=
  match c with
  | CUint n | CNint n => n < 2 ^ 64
  | CBytes b | CText b => blen b < 2 ^ 64
  | CArray l => N.of_nat (length l) < 2 ^ 64 /\ fold_right (fun x P => wf x /\ P) True l
  | CMap l => N.of_nat (length l) < 2 ^ 64 /\ fold_right (fun kv P => wf (fst kv) /\ wf (snd kv) /\ P) True l
  | CTag t c' => t < 2 ^ 64 /\ wf c'
  | CSimple n => n < 24 \/ (32 <= n < 256)
  | CFloat w bits => (w = 2 \/ w = 4 \/ w = 8) /\ bits < 2 ^ (8 * w)
  end.
