(** Runner for register / dispatch histories (each history runs in its own
    process on the Go side, since registration is permanent):
      REG <op>*
    ops:  r<i>            register extension profile i (1,2: profile-2 based, 3: profile-1 based,
                          5: claims type without profile field, 6: name of profile 2 again)
          n:<x>           NewClaims(name x)
          c:<b><p><q>     DecodeClaimsFromCBOR: body b (1/2 = complete valid profile-1 / profile-2 claims),
                          p = value under key 265, q = value under key -75000
          j:<b><p><q>     DecodeClaimsFromJSON: p = member eat-profile, q = member psa-profile
          m               mutate the first instance created so far through its setters: the others are unaffected
    values x/p/q:  - absent, n null, 1 2 the built-in names, a b c the extension names,
                   u an unregistered URL, N a non-normalised spelling of the profile-2 name, i the integer 42 *)
From Coq Require Import String.
From PSA Require Import Base Lines Lifecycle Regex Claims Registry Obs.
Open Scope N_scope.

Definition x_name (i : N) : bytes :=
  s2b "http://example.com/ext/" ++ dec_of_N i.

Definition pv_of (cc : ccfg) (c : byte) : option pval :=
  if byte_eqb c "-" then Some PAbsent
  else if byte_eqb c "n" then Some PNull
  else if byte_eqb c "1" then Some (PText (prof1 cc))
  else if byte_eqb c "2" then Some (PText (prof2 cc))
  else if byte_eqb c "a" then Some (PText (x_name 1))
  else if byte_eqb c "b" then Some (PText (x_name 2))
  else if byte_eqb c "c" then Some (PText (x_name 3))
  else if byte_eqb c "e" then Some (PText (s2b "http://example.com/ext/5"))
  else if byte_eqb c "u" then Some (PText (s2b "http://example.com/unknown"))
  else if byte_eqb c "N" then Some (PText (s2b "HTTP://arm.com/psa/2.0.0"))
  else if byte_eqb c "i" then Some POther
  else None.

Definition do_register (cc : ccfg) (reg : registry) (i : N) : registry * bool :=
  match i with
  | 1 => register reg (x_name 1) (x_name 1) K2 (Some (s2b "eat-profile")) 11
  | 2 => register reg (x_name 2) (x_name 2) K2 (Some (s2b "eat-profile")) 12
  | 3 => register reg (x_name 3) (x_name 3) K1 (Some (s2b "psa-profile")) 13
  | 5 => register reg (s2b "http://example.com/ext/5") (s2b "http://example.com/ext/5") K2 None 15
  | 6 => register reg (prof2 cc) (prof2 cc) K2 (Some (s2b "eat-profile")) 16
  | _ => (reg, false)
  end.

(** is the text an absolute URL?  (only the names used here need a verdict) *)
Definition looks_like_url (s : bytes) : bool :=
  existsb (fun c => byte_eqb c ":") s.

(** outcome of decoding a complete valid body of kind [bk] into the claims type of [e] *)
Definition decode_outcome (json : bool) (e : entry) (bk : kind) (v265 v75000 : pval) : bytes :=
  let k := en_kind e in
  let ext := 10 <=? en_type e in
  (* the JSON member names of the common claims are the same in both profiles: a complete profile-1 body is also a complete profile-2 body *)
  let same := match bk, k with K1, K1 | K2, K2 => true | K1, K2 => json | _, _ => false end in
  let pv := match k with K1 => v75000 | K2 => v265 end in
  if ext && negb same then s2b "err"                       (* populate: missing mandatory field *)
  else match pv with
       | POther => s2b "err"
       | PText s =>
           match k with
           | K2 => if negb (looks_like_url s) then s2b "err"
                   else let ok := bytes_eqb s (en_name e) in
                        s2b "ok:" ++ dec_of_N (en_type e) ++ s2b ":" ++
                        (if ok then s2b "ok:" ++ hex_of s else s2b "e00010") ++ s2b ":" ++
                        (if ok && same then s2b "ok" else s2b "err")
           | K1 => let ok := bytes_eqb s (en_name e) in
                   s2b "ok:" ++ dec_of_N (en_type e) ++ s2b ":" ++
                   (if ok then s2b "ok:" ++ hex_of s else s2b "e00010") ++ s2b ":" ++
                   (if ok && same then s2b "ok" else s2b "err")
           end
       | PAbsent | PNull =>
           match k with
           | K1 => s2b "ok:" ++ dec_of_N (en_type e) ++ s2b ":ok:" ++ hex_of (en_name e) ++ s2b ":" ++ (if same then s2b "ok" else s2b "err")
           | K2 => s2b "ok:" ++ dec_of_N (en_type e) ++ s2b ":e01000:err"
           end
       end.

Definition members_of (p q : pval) (name : bytes) : pval :=
  if bytes_eqb name (s2b "eat-profile") then p
  else if bytes_eqb name (s2b "psa-profile") then q
  else PAbsent.

Fixpoint run_reg_ops (cc : ccfg) (reg : registry) (ops : list bytes) : option (list bytes) :=
  match ops with
  | [] => Some []
  | op :: r =>
      match op with
      | [x6d] => option_map (cons (s2b "indep=1")) (run_reg_ops cc reg r)
      | x72 :: d =>
          match parse_N d with
          | Some i => let '(reg', okb) := do_register cc reg i in
                      option_map (cons (if okb then s2b "ok" else s2b "err")) (run_reg_ops cc reg' r)
          | None => None
          end
      | x6e :: x3a :: [c] =>
          match pv_of cc c with
          | Some pv =>
              let key := match pv with PText s => s | _ => [] end in
              let out := match pv with
                         | POther | PNull => s2b "err"
                         | _ => match reg_lookup reg key with
                                | Some e => s2b "ok:" ++ dec_of_N (en_type e) ++ s2b ":ok:" ++ hex_of (en_name e)
                                | None => s2b "err"
                                end
                         end in
              option_map (cons out) (run_reg_ops cc reg r)
          | None => None
          end
      | ser :: x3a :: [b; p; q] =>
          match pv_of cc p, pv_of cc q with
          | Some vp, Some vq =>
              let bk := if byte_eqb b "1" then K1 else K2 in
              let sel := if byte_eqb ser "c" then dispatch_cbor reg vp else dispatch_json reg (members_of vp vq) in
              let out := match sel with Some e => decode_outcome (byte_eqb ser "j") e bk vp vq | None => s2b "err" end in
              option_map (cons out) (run_reg_ops cc reg r)
          | _, _ => None
          end
      | _ => None
      end
  end.

Definition run_reg (cc : ccfg) (args : list bytes) : bytes :=
  match run_reg_ops cc (reg0 (prof1 cc) (prof2 cc)) args with
  | Some out => join_sp out
  | None => bad_input
  end.
