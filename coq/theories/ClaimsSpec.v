(** Declarative conformance predicates transcribed from the text of C01
    (and used by C04, C08, C11): they mention the specified sizes and
    formats directly and nothing of the operational model. *)
From PSA Require Import Base Lifecycle Regex Claims.
Open Scope N_scope.

Definition hash_size (b : bytes) : bool :=
  let l := blen b in (l =? 32) || (l =? 48) || (l =? 64).

Definition all_digits (s : bytes) : bool := forallb is_digit s.

(** EAN-13: exactly thirteen ASCII digits *)
Definition ean13 (s : bytes) : bool := Nat.eqb (length s) 13 && all_digits s.

(** EAN-13+5: thirteen digits, a hyphen, five digits *)
Definition ean13_5 (s : bytes) : bool :=
  Nat.eqb (length s) 19 && all_digits (firstn 13 s) &&
  match nth_error s 13 with Some c => byte_eqb c "-"%byte | None => false end &&
  all_digits (skipn 14 s).

(** lifecycle value lies in one of the seven 256-value ranges *)
Definition lc_page_ok (v : N) : bool :=
  let h := v / 256 in
  (h =? 0x00) || (h =? 0x10) || (h =? 0x20) || (h =? 0x30) || (h =? 0x40) || (h =? 0x50) || (h =? 0x60).

Definition swc_wf (s : swc) : bool :=
  match sw_mval s, sw_signer s with
  | Some m, Some g => hash_size m && hash_size g
  | _, _ => false
  end.

Definition elem_wf (o : option swc) : bool :=
  match o with Some s => swc_wf s | None => false end.

Definition conf_profile (c : claims) : bool :=
  match c_kind c, c_profile c with
  | K1, None => true
  | _, Some (PStr p) => bytes_eqb p (c_canon c)
  | _, _ => false
  end.

Definition conf_client (c : claims) : bool := match c_client c with Some _ => true | None => false end.
Definition conf_lc (c : claims) : bool := match c_lc c with Some v => lc_page_ok v | None => false end.
Definition conf_impl (c : claims) : bool := match c_impl c with Some b => blen b =? 32 | None => false end.

Definition conf_boot (c : claims) : bool :=
  match c_kind c, c_boot c with
  | K1, Some b => blen b =? 32
  | K1, None => false
  | K2, Some b => (8 <=? blen b) && (blen b <=? 32)
  | K2, None => true
  end.

Definition cert_format (k : kind) (s : bytes) : bool :=
  match k with K1 => ean13 s || ean13_5 s | K2 => ean13_5 s end.

Definition conf_cert (c : claims) : bool :=
  match c_cert c with Some s => cert_format (c_kind c) s | None => true end.

Definition comps (c : claims) : list (option swc) := match c_swc c with Some l => l | None => [] end.

(** at least one well-formed component, or (profile 1 only) none and the
    no-measurements flag -- never both *)
Definition conf_swc (c : claims) : bool :=
  match comps c with
  | [] => match c_kind c, c_nosw c with K1, Some _ => true | _, _ => false end
  | l => forallb elem_wf l && match c_kind c, c_nosw c with K1, Some _ => false | _, _ => true end
  end.

Definition conf_nonce (c : claims) : bool :=
  match c_nonce c with Some [n] => hash_size n | _ => false end.

Definition conf_inst (c : claims) : bool :=
  match c_inst c with
  | Some b => (blen b =? 33) && match b with x :: _ => Byte.to_N x =? 1 | [] => false end
  | None => false
  end.

Definition conf_vsi (c : claims) : bool :=
  match c_vsi c with Some [] => false | _ => true end.

Definition conf_of (id : claimid) (c : claims) : bool :=
  match id with
  | CProfile => conf_profile c | CClient => conf_client c | CLc => conf_lc c | CImpl => conf_impl c
  | CBoot => conf_boot c | CCert => conf_cert c | CSwc => conf_swc c | CNonce => conf_nonce c
  | CInst => conf_inst c | CVsi => conf_vsi c
  end.

Definition all_claims : list claimid := [CProfile; CClient; CLc; CImpl; CBoot; CCert; CSwc; CNonce; CInst; CVsi].

Definition conformant (c : claims) : bool := forallb (fun id => conf_of id c) all_claims.
