(** Validation of the model (specified tables) is exactly the declarative
    conformance predicate; getters after validation; error classes. *)
From Coq Require Import Arith ZifyN ZifyBool ZifyNat.
From PSA Require Import Base Lifecycle Regex Claims ClaimsSpec LifecycleProofs RegexProofs.
From PSA.Spec Require Import SpecTables.
Open Scope N_scope.

Notation S := spec_ccfg.

(** an error that FilterError does not suppress *)
Definition hard (e : goerr) : Prop :=
  err_is e MissingOptional = false /\ err_is e NotInProfile = false.

Lemma filtered_ok (r : res unit) : r = Ok tt -> filtered r = Ok tt.
Proof. intros ->. reflexivity. Qed.

Lemma filtered_hard (e : goerr) : hard e -> filtered (Err e) = Err (wrap1 e).
Proof. intros [H1 H2]. unfold filtered, filter_error. rewrite H1, H2. reflexivity. Qed.

Lemma hard_wrap e : hard e -> hard (wrap1 e).
Proof. intros [H1 H2]. split; cbn; rewrite ?H1, ?H2; reflexivity. Qed.

Lemma hard_syntax : hard e_syntax. Proof. split; reflexivity. Qed.
Lemma hard_mand : hard e_mand. Proof. split; reflexivity. Qed.
Lemma hard_wrongprofile : hard (wrap1 (ESent WrongProfile)). Proof. split; reflexivity. Qed.
Lemma hard_opaque : hard EOpaque. Proof. split; reflexivity. Qed.
Lemma filtered_opt : filtered (Err e_opt) = Ok tt. Proof. reflexivity. Qed.

(** * validators *)

Lemma validate_hash_spec b : validate_hash S b = if hash_size b then Ok tt else Err e_syntax.
Proof.
  unfold validate_hash, hash_size, in_N. cbn [hash_lens S existsb].
  rewrite orb_false_r, orb_assoc. reflexivity.
Qed.

Lemma lc_page_ok_spec v : lc_page_ok v = negb (spec_state v =? 7).
Proof.
  unfold lc_page_ok, spec_state. cbv zeta.
  destruct (N.eqb_spec (v / 256) 0); [reflexivity|].
  destruct (N.eqb_spec (v / 256) 16); [reflexivity|].
  destruct (N.eqb_spec (v / 256) 32); [reflexivity|].
  destruct (N.eqb_spec (v / 256) 48); [reflexivity|].
  destruct (N.eqb_spec (v / 256) 64); [reflexivity|].
  destruct (N.eqb_spec (v / 256) 80); [reflexivity|].
  destruct (N.eqb_spec (v / 256) 96); reflexivity.
Qed.

Lemma validate_lc_spec v : validate_lc (cc_lc S) v = if lc_page_ok v then Ok tt else Err e_syntax.
Proof.
  change (cc_lc S) with spec_lc. unfold validate_lc. rewrite lc_valid_iff, lc_page_ok_spec. reflexivity.
Qed.

Lemma validate_impl_spec b : validate_impl S b = if blen b =? 32 then Ok tt else Err e_syntax.
Proof. reflexivity. Qed.

Lemma validate_inst_spec b :
  validate_inst S b =
  if (blen b =? 33) && match b with x :: _ => Byte.to_N x =? 1 | [] => false end then Ok tt else Err e_syntax.
Proof.
  unfold validate_inst. cbn [inst_len inst_type S].
  destruct (N.eqb_spec (blen b) 33) as [E|E]; cbn [negb andb]; [|reflexivity].
  destruct b as [|x b]; [discriminate E|]. destruct (Byte.to_N x =? 1); reflexivity.
Qed.

Lemma validate_boot_spec k b :
  validate_boot S k b =
  match k with
  | K1 => if blen b =? 32 then Ok tt else Err e_syntax
  | K2 => if (8 <=? blen b) && (blen b <=? 32) then Ok tt else Err e_syntax
  end.
Proof.
  unfold validate_boot. cbn [boot1_min boot1_max boot2_min boot2_max S]. destruct k.
  - destruct (N.ltb_spec (blen b) 32); destruct (N.ltb_spec 32 (blen b)); destruct (N.eqb_spec (blen b) 32); cbn; try reflexivity; lia.
  - destruct (N.ltb_spec (blen b) 8); destruct (N.ltb_spec 32 (blen b)); destruct (N.leb_spec 8 (blen b)); destruct (N.leb_spec (blen b) 32); cbn; try reflexivity; lia.
Qed.

Lemma cert_ok_get_spec k s : cert_ok S (cert_get_set S k) s = cert_format k s.
Proof.
  destruct k; unfold cert_ok, cert_get_set, cert_format; cbn [cert_get1 cert_get2 S existsb re_of re1 re2];
    rewrite ?re1_is_ean13, ?re2_is_ean13_5, ?orb_false_r; reflexivity.
Qed.

Lemma cert_ok_set_spec k s : cert_ok S (cert_set_set S k) s = cert_format k s.
Proof.
  destruct k; unfold cert_ok, cert_set_set, cert_format; cbn [cert_set1 cert_set2 S existsb re_of re1 re2];
    rewrite ?re1_is_ean13, ?re2_is_ean13_5, ?orb_false_r; reflexivity.
Qed.

(** * software components *)

Lemma validate_swc_spec s :
  validate_swc S s = if swc_wf s then Ok tt
                     else Err (wrap1 (match sw_mval s with
                                      | None => e_mand
                                      | Some m => if hash_size m then
                                                    match sw_signer s with None => e_mand | Some _ => e_syntax end
                                                  else e_syntax
                                      end)).
Proof.
  unfold validate_swc, swc_wf. change (sworder S) with [FMtype; FMval; FVersion; FSigner; FMdesc]. cbn [walk sw_status].
  unfold sw_get_mtype, sw_get_mval, sw_get_version, sw_get_signer, sw_get_mdesc.
  destruct (sw_mtype s), (sw_mval s) as [m|], (sw_version s), (sw_signer s) as [g|], (sw_mdesc s);
    rewrite ?validate_hash_spec;
    try destruct (hash_size m); try destruct (hash_size g); reflexivity.
Qed.

Lemma validate_swc_cases s :
  (swc_wf s = true /\ validate_swc S s = Ok tt) \/
  (swc_wf s = false /\ exists e, validate_swc S s = Err e /\ hard e).
Proof.
  rewrite validate_swc_spec. destruct (swc_wf s); [left; auto|right; split; [reflexivity|]].
  eexists; split; [reflexivity|]. apply hard_wrap.
  destruct (sw_mval s) as [m|]; [destruct (hash_size m); [destruct (sw_signer s)|]|];
    auto using hard_mand, hard_syntax.
Qed.

Definition strip (l : list (option swc)) : list swc :=
  flat_map (fun o => match o with Some s => [s] | None => [] end) l.

Lemma values_cases l :
  (forallb elem_wf l = true /\ values S l = Ok (strip l)) \/
  (forallb elem_wf l = false /\ exists e, values S l = Err e /\ hard e).
Proof.
  induction l as [|o l IH].
  - left. split; reflexivity.
  - destruct o as [s|]; cbn [forallb elem_wf values].
    + destruct (validate_swc_cases s) as [[W V]|[W [e [V H]]]]; rewrite W, V; cbn [andb].
      * destruct IH as [[F R]|[F [e [R H]]]]; rewrite R.
        -- left. split; [exact F|reflexivity].
        -- right. split; [exact F|]. eexists; split; [reflexivity|exact H].
      * right. split; [reflexivity|]. eexists; split; [reflexivity|apply hard_wrap, H].
    + right. split; [reflexivity|]. eexists; split; [reflexivity|apply hard_syntax].
Qed.

(** * per-claim status: Ok exactly when conformant; otherwise a hard error; never a panic *)

Definition status_good (id : claimid) (c : claims) : Prop :=
  (conf_of id c = true /\ filtered (status S id c) = Ok tt) \/
  (conf_of id c = false /\ exists e, status S id c = Err e /\ hard e).

Ltac good := left; split; reflexivity.
Ltac bad H := right; split; [reflexivity | eexists; split; [reflexivity | exact H]].

Lemma status_profile c : status_good CProfile c.
Proof.
  unfold status_good, status, get_profile, conf_of, conf_profile.
  destruct (c_kind c); destruct (c_profile c) as [[p|b|]|]; cbn [forget];
    try (destruct (bytes_eqb p (c_canon c)); cbn [forget]);
    first [good | bad hard_wrongprofile | bad hard_mand | bad hard_opaque].
Qed.

Lemma status_client c : status_good CClient c.
Proof.
  unfold status_good, status, get_client, conf_of, conf_client.
  destruct (c_client c); cbn [forget]; first [good | bad hard_mand].
Qed.

Lemma status_lc c : status_good CLc c.
Proof.
  unfold status_good, status, get_lc, conf_of, conf_lc.
  destruct (c_lc c) as [v|]; [rewrite validate_lc_spec; destruct (lc_page_ok v)|]; cbn [chk forget];
    first [good | bad hard_syntax | bad hard_mand].
Qed.

Lemma status_impl c : status_good CImpl c.
Proof.
  unfold status_good, status, get_impl, conf_of, conf_impl.
  destruct (c_impl c) as [v|]; [rewrite validate_impl_spec; destruct (blen v =? 32)|]; cbn [chk forget];
    first [good | bad hard_syntax | bad hard_mand].
Qed.

Lemma status_boot c : status_good CBoot c.
Proof.
  unfold status_good, status, get_boot, conf_of, conf_boot.
  destruct (c_boot c) as [v|]; [rewrite validate_boot_spec|]; destruct (c_kind c); cbn [chk forget];
    try match goal with |- context [if ?b then _ else _] => destruct b end; cbn [chk forget];
    first [good | bad hard_syntax | bad hard_mand].
Qed.

Lemma status_cert c : status_good CCert c.
Proof.
  unfold status_good, status, get_cert, conf_of, conf_cert, validate_cert.
  destruct (c_cert c) as [v|]; [rewrite cert_ok_get_spec; destruct (cert_format (c_kind c) v)|]; cbn [chk forget];
    first [good | bad hard_syntax].
Qed.

Lemma status_nonce c : status_good CNonce c.
Proof.
  unfold status_good, status, get_nonce, conf_of, conf_nonce.
  destruct (c_nonce c) as [[|n [|m l]]|]; [| rewrite validate_hash_spec; destruct (hash_size n) | |]; cbn [chk forget];
    first [good | bad hard_syntax | bad hard_mand].
Qed.

Lemma status_inst c : status_good CInst c.
Proof.
  unfold status_good, status, get_inst, conf_of, conf_inst.
  destruct (c_inst c) as [v|]; [rewrite validate_inst_spec|]; cbn [chk forget];
    try match goal with |- context [if ?b then _ else _] => destruct b end; cbn [chk forget];
    first [good | bad hard_syntax | bad hard_mand].
Qed.

Lemma status_vsi c : status_good CVsi c.
Proof.
  unfold status_good, status, get_vsi, conf_of, conf_vsi, validate_vsi.
  destruct (c_vsi c) as [[|x v]|]; cbn [chk forget]; first [good | bad hard_syntax].
Qed.

Lemma status_swc c : status_good CSwc c.
Proof.
  unfold status_good, status, get_swc, conf_of, conf_swc, swc_empty, comps.
  destruct (c_swc c) as [[|o l]|]; destruct (c_kind c); destruct (c_nosw c); cbn [forget];
    rewrite ?andb_false_r, ?andb_true_r;
    try first [good | bad hard_syntax | bad hard_mand];
    (destruct (values_cases (o :: l)) as [[F V]|[F [e [V H]]]]; rewrite F, V; cbn [forget andb];
     first [good | bad H]).
Qed.

Lemma status_all id c : status_good id c.
Proof.
  destruct id; auto using status_profile, status_client, status_lc, status_impl, status_boot,
    status_cert, status_swc, status_nonce, status_inst, status_vsi.
Qed.

(** * the validation walk *)

Lemma walk_spec (c : claims) (order : list claimid) :
  (forallb (fun id => conf_of id c) order = true /\ walk (fun id => status S id c) order = Ok tt) \/
  (forallb (fun id => conf_of id c) order = false /\
   exists id e, In id order /\ conf_of id c = false /\ hard e /\ status S id c = Err e /\
                walk (fun id => status S id c) order = Err (wrap1 e)).
Proof.
  induction order as [|id r IH]; [left; split; reflexivity|].
  cbn [forallb walk]. destruct (status_all id c) as [[C F]|[C [e [St H]]]]; rewrite C; cbn [andb].
  - rewrite F. destruct IH as [[A W]|[A (i & e & I & Ci & H & St & W)]].
    + left. split; assumption.
    + right. split; [assumption|]. exists i, e.
      split; [right; exact I|]. split; [exact Ci|]. split; [exact H|]. split; [exact St|exact W].
  - right. split; [reflexivity|]. exists id, e. rewrite St, (filtered_hard e H).
    split; [left; reflexivity|]. split; [exact C|]. split; [exact H|]. split; reflexivity.
Qed.

Lemma conformant_vorder c : forallb (fun id => conf_of id c) (vorder S) = conformant c.
Proof.
  unfold conformant, all_claims. cbn [vorder S forallb].
  destruct (conf_of CProfile c), (conf_of CClient c), (conf_of CLc c), (conf_of CImpl c), (conf_of CBoot c),
    (conf_of CCert c), (conf_of CSwc c), (conf_of CNonce c), (conf_of CInst c), (conf_of CVsi c); reflexivity.
Qed.

Theorem validate_iff_conformant c : validate S c = Ok tt <-> conformant c = true.
Proof.
  unfold validate. rewrite <- conformant_vorder.
  destruct (walk_spec c (vorder S)) as [[A W]|[A (i & e & _ & _ & _ & _ & W)]]; rewrite A, W; split; congruence.
Qed.

Theorem validate_never_panics c : validate S c <> Panic.
Proof.
  unfold validate.
  destruct (walk_spec c (vorder S)) as [[A W]|[A (i & e & _ & _ & _ & _ & W)]]; rewrite W; congruence.
Qed.

(** the error of a failed validation is the (wrapped) error of the getter of a non-conformant claim *)
Theorem validate_error_origin c e :
  validate S c = Err e ->
  exists id e0, conf_of id c = false /\ hard e0 /\ status S id c = Err e0 /\ e = wrap1 e0.
Proof.
  unfold validate. intro V.
  destruct (walk_spec c (vorder S)) as [[A W]|[A (i & e0 & _ & Ci & H & St & W)]]; rewrite W in V; [discriminate|].
  exists i, e0. split; [exact Ci|]. split; [exact H|]. split; [exact St|congruence].
Qed.

(** * getters after a successful validation *)

Lemma conformant_each c id : conformant c = true -> conf_of id c = true.
Proof.
  unfold conformant. rewrite forallb_forall. intro H. apply H.
  destruct id; cbn; tauto.
Qed.

Lemma status_ok_of_conf id c : conf_of id c = true -> filtered (status S id c) = Ok tt.
Proof.
  intro C. destruct (status_all id c) as [[_ F]|[C' _]]; [exact F|congruence].
Qed.

(** mandatory getters succeed with a conformant value *)
Theorem getters_after_validate c :
  validate S c = Ok tt ->
  (exists v, get_client c = Ok v) /\
  (exists v, get_lc S c = Ok v /\ lc_page_ok v = true) /\
  (exists v, get_impl S c = Ok v /\ blen v = 32) /\
  (exists v, get_nonce S c = Ok v /\ hash_size v = true) /\
  (exists v, get_inst S c = Ok v /\ blen v = 33 /\ hd_error v = Some x01) /\
  (exists v, get_profile c = Ok v /\ v = c_canon c) /\
  (exists l, get_swc S c = Ok l /\ forallb swc_wf l = true /\ (c_kind c = K2 -> l <> [])) /\
  ((exists v, get_boot S c = Ok v /\ (match c_kind c with K1 => blen v = 32 | K2 => 8 <= blen v <= 32 end)) \/
   (c_kind c = K2 /\ get_boot S c = Err e_opt)) /\
  ((exists v, get_cert S c = Ok v /\ cert_format (c_kind c) v = true) \/ get_cert S c = Err e_opt) /\
  ((exists v, get_vsi c = Ok v /\ v <> []) \/ get_vsi c = Err e_opt).
Proof.
  intro V. apply validate_iff_conformant in V.
  pose proof (conformant_each c CClient V) as Hcl. pose proof (conformant_each c CLc V) as Hlc.
  pose proof (conformant_each c CImpl V) as Him. pose proof (conformant_each c CNonce V) as Hno.
  pose proof (conformant_each c CInst V) as Hin. pose proof (conformant_each c CProfile V) as Hpr.
  pose proof (conformant_each c CSwc V) as Hsw. pose proof (conformant_each c CBoot V) as Hbo.
  pose proof (conformant_each c CCert V) as Hce. pose proof (conformant_each c CVsi V) as Hvs.
  cbn [conf_of] in *.
  repeat split.
  - unfold conf_client in Hcl. unfold get_client. destruct (c_client c); [eauto|discriminate].
  - unfold conf_lc in Hlc. unfold get_lc. destruct (c_lc c) as [v|]; [|discriminate].
    exists v. rewrite validate_lc_spec, Hlc. auto.
  - unfold conf_impl in Him. unfold get_impl. destruct (c_impl c) as [v|]; [|discriminate].
    exists v. rewrite validate_impl_spec, Him. split; [reflexivity|]. apply N.eqb_eq, Him.
  - unfold conf_nonce in Hno. unfold get_nonce. destruct (c_nonce c) as [[|n [|m l]]|]; try discriminate.
    exists n. rewrite validate_hash_spec, Hno. auto.
  - unfold conf_inst in Hin. unfold get_inst. destruct (c_inst c) as [v|]; [|discriminate].
    exists v. rewrite validate_inst_spec, Hin. split; [reflexivity|].
    apply andb_true_iff in Hin. destruct Hin as [L T]. split; [apply N.eqb_eq, L|].
    destruct v as [|x v]; [discriminate|]. cbn. apply N.eqb_eq in T.
    f_equal. apply byte_eqb_eq. unfold byte_eqb. rewrite T. reflexivity.
  - unfold conf_profile in Hpr. unfold get_profile.
    destruct (c_kind c); destruct (c_profile c) as [[p|b|]|]; try discriminate;
      try (rewrite Hpr; exists p; split; [reflexivity|apply bytes_eqb_eq, Hpr]).
    exists (c_canon c). auto.
  - unfold conf_swc, comps in Hsw. unfold get_swc, swc_empty.
    destruct (c_swc c) as [[|o l]|]; destruct (c_kind c); destruct (c_nosw c); try discriminate;
      try (exists []; repeat split; congruence).
    all: cbv beta iota; apply andb_true_iff in Hsw; destruct Hsw as [F G]; try discriminate G.
    all:      destruct (values_cases (o :: l)) as [[F' Vv]|[F' _]]; [|congruence];
      exists (strip (o :: l)); rewrite Vv; split; [reflexivity|]; split.
    all: try (clear - F; induction (o :: l) as [|[s|] r IH]; cbn in *; [reflexivity| |discriminate];
              apply andb_true_iff in F; destruct F as [A B]; rewrite A; cbn; auto).
    all: intros _; destruct o as [s|]; [cbn; discriminate|cbn in F; discriminate].
  - unfold conf_boot in Hbo. unfold get_boot.
    destruct (c_kind c); destruct (c_boot c) as [v|]; try discriminate.
    + left. exists v. rewrite validate_boot_spec, Hbo. split; [reflexivity|apply N.eqb_eq, Hbo].
    + left. exists v. rewrite validate_boot_spec, Hbo. split; [reflexivity|]. lia.
    + right. auto.
  - unfold conf_cert in Hce. unfold get_cert, validate_cert.
    destruct (c_cert c) as [v|]; [|right; reflexivity].
    left. exists v. rewrite cert_ok_get_spec, Hce. auto.
  - unfold conf_vsi in Hvs. unfold get_vsi, validate_vsi.
    destruct (c_vsi c) as [[|x v]|]; try discriminate; [|right; reflexivity].
    left. exists (x :: v). split; [reflexivity|discriminate].
Qed.

(** * the verdict depends on nothing but the fields the rules mention *)

Definition erase_swc (s : swc) : swc :=
  {| sw_mtype := None; sw_mval := sw_mval s; sw_version := None; sw_signer := sw_signer s; sw_mdesc := None |}.

(** forget everything the rules do not mention: the optional text fields of
    every component and the value (not the presence) of the client id *)
Definition erase (c : claims) : claims :=
  upd_client (upd_swc c (option_map (map (option_map erase_swc)) (c_swc c)) (c_nosw c))
             (option_map (fun _ => 0%Z) (c_client c)).

Lemma forallb_elem_wf_erase l :
  forallb elem_wf (map (option_map erase_swc) l) = forallb elem_wf l.
Proof.
  induction l as [|[s|] l IH]; cbn; [reflexivity| |reflexivity].
  rewrite IH. reflexivity.
Qed.

Lemma conformant_erase c : conformant (erase c) = conformant c.
Proof.
  unfold conformant, all_claims. cbn [forallb conf_of].
  assert (conf_swc (erase c) = conf_swc c) as ->.
  { unfold conf_swc, comps, erase. cbn.
    destruct (c_swc c) as [[|o l]|]; cbn; try reflexivity.
    change (elem_wf (option_map erase_swc o) && forallb elem_wf (map (option_map erase_swc) l))
      with (forallb elem_wf (map (option_map erase_swc) (o :: l))).
    rewrite forallb_elem_wf_erase. reflexivity. }
  assert (conf_client (erase c) = conf_client c) as ->.
  { unfold conf_client, erase. cbn. destruct (c_client c); reflexivity. }
  reflexivity.
Qed.

Theorem validate_depends_only_on_rules c c' :
  erase c = erase c' -> (validate S c = Ok tt <-> validate S c' = Ok tt).
Proof.
  intro E. rewrite !validate_iff_conformant, <- (conformant_erase c), <- (conformant_erase c'), E. tauto.
Qed.

(** no getter ever panics, whatever the claims-set holds (nil containers,
    nil component elements, zero-length identifiers included) *)
Theorem getter_never_panics id c : status S id c <> Panic.
Proof.
  destruct (status_all id c) as [[_ F]|[_ [e [St _]]]]; [|rewrite St; discriminate].
  intro P. rewrite P in F. discriminate.
Qed.
