(** Dispatcher of the executable model: one input line -> one observation
    line, for the generated tables and for the specified tables. *)
From Coq Require Import String.
From PSA Require Import Base Lines Lifecycle Regex Claims Obs CaseClaims RunC14 RunHist.
From PSA.Spec Require Import SpecTables.
From PSA.Gen Require Import GenConsts.
Open Scope N_scope.

Definition run_line (cfg : ccfg) (line : bytes) : bytes :=
  match tokens line with
  | p :: args =>
      if bytes_eqb p (s2b "C14") then run_c14 cfg args
      else if bytes_eqb p (s2b "C01") then run_c01 cfg args
      else if bytes_eqb p (s2b "HIST") then run_hist cfg args
      else if bytes_eqb p (s2b "HISTC") then run_histc cfg args
      else if bytes_eqb p (s2b "FILT") then run_filt args
      else bad_input
  | [] => bad_input
  end.

Definition run_gen (line : bytes) : bytes := run_line gen_ccfg line.
Definition run_spec (line : bytes) : bytes := run_line spec_ccfg line.
