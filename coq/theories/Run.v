(** Dispatcher of the executable model: one input line -> one observation
    line, for the generated tables and for the specified tables. *)
From Coq Require Import String.
From PSA Require Import Base Lines Lifecycle Regex Claims Obs CaseClaims RunC14 RunHist Tags Wire Codec RunCodec Evidence RunEv Cose RunCose Embedded RunEmb Registry RunReg Json JsonCodec RunJson Purity Effects RunPur Conc RunConc.
From PSA.Spec Require Import SpecTables SpecTags.
From PSA.Gen Require Import GenConsts GenTags GenEffects.
Open Scope N_scope.

Definition run_line (fx : fxcfg) (cfg : ccfg) (w : wcfg) (line : bytes) : bytes :=
  match tokens line with
  | p :: args =>
      if bytes_eqb p (s2b "C14") then run_c14 cfg args
      else if bytes_eqb p (s2b "C01") then run_c01 cfg args
      else if bytes_eqb p (s2b "HIST") then run_hist cfg args
      else if bytes_eqb p (s2b "HISTC") then run_histc cfg args
      else if bytes_eqb p (s2b "FILT") then run_filt args
      else if bytes_eqb p (s2b "ENC") then run_enc w args
      else if bytes_eqb p (s2b "DEC") then run_dec cfg w args
      else if bytes_eqb p (s2b "RT") then run_rt cfg w args
      else if bytes_eqb p (s2b "REENC") then run_reenc cfg w args
      else if bytes_eqb p (s2b "ENCH") then run_ench cfg w args
      else if bytes_eqb p (s2b "EV") then run_ev cfg w args
      else if bytes_eqb p (s2b "GATE") then run_gate cfg w args
      else if bytes_eqb p (s2b "SRT") then run_srt cfg w args
      else if bytes_eqb p (s2b "COSE") then run_cose cfg w args
      else if bytes_eqb p (s2b "FMAP") then run_fmap args
      else if bytes_eqb p (s2b "FROM") then run_from args
      else if bytes_eqb p (s2b "SER") then run_ser args
      else if bytes_eqb p (s2b "POP") then run_pop args
      else if bytes_eqb p (s2b "SERJ") then run_serj args
      else if bytes_eqb p (s2b "RTJ") then run_rtj cfg w args
      else if bytes_eqb p (s2b "REG") then run_reg cfg args
      else if bytes_eqb p (s2b "XGATE") then s2b "*"    (* gates of an extension profile: judged by the oracle (gate = the profile's Validate) *)
      else if bytes_eqb p (s2b "ALL") then s2b "*"      (* every entry point on arbitrary bytes: judged by the no-panic / allocation oracles *)
      else if bytes_eqb p (s2b "PUR") then run_pur fx cfg w args
      else if bytes_eqb p (s2b "CONC") then run_conc fx cfg w args
      else if bytes_eqb p (s2b "TAMP") then run_tamp cfg w args
      else if bytes_eqb p (s2b "DECV") then run_decv cfg w args
      else bad_input
  | [] => bad_input
  end.

Definition gen_wcfg : wcfg := {| w_p1 := gen_p1_fields; w_p2 := gen_p2_fields; w_swc := gen_swc_fields |}.
Definition spec_wcfg : wcfg := {| w_p1 := spec_p1_fields; w_p2 := spec_p2_fields; w_swc := spec_swc_fields |}.

Definition run_gen (line : bytes) : bytes := run_line (fxcfg_of gen_effects) gen_ccfg gen_wcfg line.
Definition run_spec (line : bytes) : bytes := run_line spec_fx spec_ccfg spec_wcfg line.
