(** JSON form of the claims at the level of ordered value trees (the text
    layer -- encoding/json's lexer and printer -- is trusted): member names,
    omitempty and order from the struct-tag tables, byte strings as standard
    base64 with padding, and the dispatching decoder's profile matching. *)
From Coq Require Import String.
From PSA Require Import Base Lines Lifecycle Regex Claims Utf8 Tags Wire.
Open Scope N_scope.

Inductive json :=
| JNull | JTrue | JFalse
| JNum (z : Z)
| JStr (s : bytes)
| JArr (l : list json)
| JObj (l : list (bytes * json)).

(** * base64 (standard alphabet, padding) *)

Definition b64_char (n : N) : byte :=
  byte_of_N (if n <? 26 then 65 + n else if n <? 52 then 71 + n else if n <? 62 then n - 4 else if n =? 62 then 43 else 47).

Definition b64_val (c : byte) : option N :=
  let n := Byte.to_N c in
  if (65 <=? n) && (n <=? 90) then Some (n - 65)
  else if (97 <=? n) && (n <=? 122) then Some (n - 71)
  else if (48 <=? n) && (n <=? 57) then Some (n + 4)
  else if n =? 43 then Some 62 else if n =? 47 then Some 63 else None.

Definition PAD : byte := x3d.

Fixpoint b64_encode (b : bytes) : bytes :=
  match b with
  | [] => []
  | [a] => let n := Byte.to_N a in [b64_char (n / 4); b64_char (n mod 4 * 16); PAD; PAD]
  | [a; c] => let n := Byte.to_N a * 256 + Byte.to_N c in
              [b64_char (n / 1024); b64_char (n / 16 mod 64); b64_char (n mod 16 * 4); PAD]
  | a :: c :: d :: r =>
      let n := Byte.to_N a * 65536 + Byte.to_N c * 256 + Byte.to_N d in
      b64_char (n / 262144) :: b64_char (n / 4096 mod 64) :: b64_char (n / 64 mod 64) :: b64_char (n mod 64) :: b64_encode r
  end.

(** strict decoding: length a multiple of four, padding only at the end, no stray bits *)
Fixpoint b64_decode (fuel : nat) (s : bytes) : option bytes :=
  match fuel with
  | O => match s with [] => Some [] | _ => None end
  | S f =>
      match s with
      | [] => Some []
      | [c0; c1; p2; p3] =>
          match b64_val c0, b64_val c1 with
          | Some v0, Some v1 =>
              if byte_eqb p2 PAD then
                if byte_eqb p3 PAD then (if v1 mod 16 =? 0 then Some [byte_of_N (v0 * 4 + v1 / 16)] else None) else None
              else match b64_val p2 with
                   | Some v2 =>
                       if byte_eqb p3 PAD then
                         (if v2 mod 4 =? 0 then Some [byte_of_N (v0 * 4 + v1 / 16); byte_of_N (v1 mod 16 * 16 + v2 / 4)] else None)
                       else match b64_val p3 with
                            | Some v3 => Some [byte_of_N (v0 * 4 + v1 / 16); byte_of_N (v1 mod 16 * 16 + v2 / 4); byte_of_N (v2 mod 4 * 64 + v3)]
                            | None => None
                            end
                   | None => None
                   end
          | _, _ => None
          end
      | c0 :: c1 :: c2 :: c3 :: r =>
          match b64_val c0, b64_val c1, b64_val c2, b64_val c3, b64_decode f r with
          | Some v0, Some v1, Some v2, Some v3, Some rest =>
              Some (byte_of_N (v0 * 4 + v1 / 16) :: byte_of_N (v1 mod 16 * 16 + v2 / 4) :: byte_of_N (v2 mod 4 * 64 + v3) :: rest)
          | _, _, _, _, _ => None
          end
      | _ => None
      end
  end.

Definition b64_dec (s : bytes) : option bytes := b64_decode (length s) s.

(** * claims -> JSON tree *)

Definition j_optbytes (k : fkind) (o : option bytes) : option json :=
  match o with
  | None => None
  | Some b => Some (match k with TStr => JStr b | _ => JStr (b64_encode b) end)
  end.

Fixpoint jfields_gen {A} (value : field_tag -> A -> option (option json)) (tags : list field_tag) (a : A)
  : option (list (bytes * json)) :=
  match tags with
  | [] => Some []
  | f :: r =>
      if f_json_skip f then jfields_gen value r a
      else
        match value f a, jfields_gen value r a with
        | Some (Some v), Some rest => Some ((s2b (f_json f), v) :: rest)
        | Some None, Some rest => if f_json_omitempty f then Some rest else Some ((s2b (f_json f), JNull) :: rest)
        | _, _ => None
        end
  end.

Definition j_swc (swtags : list field_tag) (s : swc) : option json :=
  match jfields_gen (fun f s => Some (j_optbytes (kind_of_type (f_type f)) (swc_field s (swslot_of_name (f_name f))))) swtags s with
  | Some m => Some (JObj m)
  | None => None
  end.

Fixpoint j_swcs (swtags : list field_tag) (l : list (option swc)) : option (list json) :=
  match l with
  | [] => Some []
  | None :: r => match j_swcs swtags r with Some r' => Some (JNull :: r') | None => None end
  | Some s :: r => match j_swc swtags s, j_swcs swtags r with Some c, Some r' => Some (c :: r') | _, _ => None end
  end.

Definition j_claim_value (swtags : list field_tag) (f : field_tag) (c : claims) : option (option json) :=
  let k := kind_of_type (f_type f) in
  match slot_of_name (f_name f), k with
  | SProfile, TStr => match c_profile c with None => Some None | Some (PStr s) => Some (Some (JStr s)) | Some _ => None end
  | SProfile, TProfile => match c_profile c with None => Some None | Some (PStr s) => Some (Some (JStr s)) | Some _ => None end
  | SClient, TInt _ => Some (option_map JNum (c_client c))
  | SLc, TUintK _ => Some (option_map (fun n => JNum (Z.of_N n)) (c_lc c))
  | SNosw, TUintK _ => Some (option_map (fun n => JNum (Z.of_N n)) (c_nosw c))
  | SImpl, TBytes => Some (j_optbytes k (c_impl c))
  | SBoot, TBytes => Some (j_optbytes k (c_boot c))
  | SInst, TBytes => Some (j_optbytes k (c_inst c))
  | SCert, TStr => Some (j_optbytes k (c_cert c))
  | SVsi, TStr => Some (j_optbytes k (c_vsi c))
  | SNonce, TBytes => match c_nonce c with None => Some None | Some [b] => Some (Some (JStr (b64_encode b))) | Some _ => None end
  | SNonce, TNonce => match c_nonce c with
                      | None => Some None
                      | Some [] => None
                      | Some [b] => if nonce_len_ok b then Some (Some (JStr (b64_encode b))) else None
                      | Some l => if forallb nonce_len_ok l then Some (Some (JArr (map (fun b => JStr (b64_encode b)) l))) else None
                      end
  | SSwc, TSwcs =>
      match c_swc c with
      | None => Some None
      | Some l => match c_kind c, l with
                  | K1, [] => Some None
                  | _, _ => match j_swcs swtags l with Some cs => Some (Some (JArr cs)) | None => None end
                  end
      end
  | _, _ => None
  end.

Definition to_json (tags swtags : list field_tag) (c : claims) : option json :=
  match jfields_gen (j_claim_value swtags) tags c with Some m => Some (JObj m) | None => None end.

(** * JSON tree -> claims (for objects as the library itself emits them:
    exact member names, no duplicates; anything else is outside the model) *)

Fixpoint jassoc (m : list (bytes * json)) (k : bytes) : option json :=
  match m with
  | [] => None
  | (k', v) :: r => if bytes_eqb k' k then Some v else jassoc r k
  end.

Definition jd_text (j : json) : option (option bytes) :=
  match j with JNull => Some None | JStr s => Some (Some s) | _ => None end.

Definition jd_bytes (j : json) : option (option bytes) :=
  match j with JNull => Some None | JStr s => option_map Some (b64_dec s) | _ => None end.

Definition jd_int (lo hi : Z) (j : json) : option (option Z) :=
  match j with
  | JNull => Some None
  | JNum z => if (lo <=? z)%Z && (z <=? hi)%Z then Some (Some z) else None
  | _ => None
  end.

Definition jd_swc (swtags : list field_tag) (j : json) : option (option swc) :=
  match j with
  | JNull => Some None
  | JObj m =>
      let get (w : swslot) (kind : fkind) : option (option bytes) :=
        match find (fun f => match swslot_of_name (f_name f), w with
                             | WMtype, WMtype | WMval, WMval | WVersion, WVersion | WSigner, WSigner | WMdesc, WMdesc => true
                             | _, _ => false end) swtags with
        | Some f => match jassoc m (s2b (f_json f)) with
                    | None => Some None
                    | Some v => match kind with TStr => jd_text v | _ => jd_bytes v end
                    end
        | None => Some None
        end in
      match get WMtype TStr, get WMval TBytes, get WVersion TStr, get WSigner TBytes, get WMdesc TStr with
      | Some a, Some b, Some c, Some d, Some e =>
          Some (Some {| sw_mtype := a; sw_mval := b; sw_version := c; sw_signer := d; sw_mdesc := e |})
      | _, _, _, _, _ => None
      end
  | _ => None
  end.

Definition jd_field (swtags : list field_tag) (f : field_tag) (v : json) (c : claims) : option claims :=
  let k := kind_of_type (f_type f) in
  match slot_of_name (f_name f), k with
  | SProfile, _ => option_map (fun o => upd_profile c (option_map PStr o)) (jd_text v)
  | SClient, TInt bits => option_map (upd_client c) (jd_int (- 2 ^ (Z.of_N bits - 1)) (2 ^ (Z.of_N bits - 1) - 1) v)
  | SLc, TUintK bits => option_map (fun o => upd_lc c (option_map Z.to_N o)) (jd_int 0 (2 ^ Z.of_N bits - 1) v)
  | SNosw, TUintK bits => option_map (fun o => upd_swc c (c_swc c) (option_map Z.to_N o)) (jd_int 0 (2 ^ Z.of_N bits - 1) v)
  | SImpl, TBytes => option_map (upd_impl c) (jd_bytes v)
  | SBoot, TBytes => option_map (upd_boot c) (jd_bytes v)
  | SInst, TBytes => option_map (upd_inst c) (jd_bytes v)
  | SCert, TStr => option_map (upd_cert c) (jd_text v)
  | SVsi, TStr => option_map (upd_vsi c) (jd_text v)
  | SNonce, TBytes => option_map (fun o => upd_nonce c (option_map (fun b => [b]) o)) (jd_bytes v)
  | SNonce, TNonce =>
      match v with
      | JNull => Some (upd_nonce c None)
      | JArr l => option_map (fun bs => upd_nonce c (Some bs))
                    (all_some (map (fun e => match e with JStr s => b64_dec s | _ => None end) l))
      | JStr s => option_map (fun b => upd_nonce c (Some [b])) (b64_dec s)
      | _ => None
      end
  | SSwc, TSwcs =>
      match v with
      | JNull => Some (upd_swc c (Some []) (c_nosw c))
      | JArr l => option_map (fun cs => upd_swc c (Some cs) (c_nosw c)) (all_some (map (jd_swc swtags) l))
      | _ => None
      end
  | _, _ => None
  end.

(** members are looked up by exact name; [None] = type error somewhere *)
Fixpoint jd_fields (swtags : list field_tag) (tags : list field_tag) (m : list (bytes * json)) (c : claims) : option claims :=
  match tags with
  | [] => Some c
  | f :: r =>
      if f_json_skip f then jd_fields swtags r m c
      else match jassoc m (s2b (f_json f)) with
           | None => jd_fields swtags r m c
           | Some v => match jd_field swtags f v c with
                       | Some c' => jd_fields swtags r m c'
                       | None => None
                       end
           end
  end.

Fixpoint nodup_keys (m : list (bytes * json)) : bool :=
  match m with
  | [] => true
  | (k, _) :: r => negb (existsb (fun kv => bytes_eqb (fst kv) k) r) && nodup_keys r
  end.


(** * printing a tree as one token (the harness prints the library's JSON the same way) *)
Fixpoint jprint (fuel : nat) (j : json) : bytes :=
  match fuel with
  | O => s2b "?"
  | S f =>
      match j with
      | JNull => s2b "z" | JTrue => s2b "t" | JFalse => s2b "f"
      | JNum z => x6e :: dec_of_Z z
      | JStr s => x73 :: hex_of s
      | JArr l => x5b :: (fix go (l : list json) : bytes :=
                            match l with [] => [] | [a] => jprint f a | a :: r => jprint f a ++ x2c :: go r end) l ++ [x5d]
      | JObj m => x7b :: (fix go (m : list (bytes * json)) : bytes :=
                            match m with
                            | [] => []
                            | [(k, v)] => hex_of k ++ x3a :: jprint f v
                            | (k, v) :: r => hex_of k ++ x3a :: jprint f v ++ x2c :: go r
                            end) m ++ [x7d]
      end
  end.
