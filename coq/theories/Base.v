(** Common vocabulary of the psatoken model: bytes, Go results with an
    explicit [Panic] outcome, error trees and [errors.Is]. *)
From Coq Require Export List NArith ZArith Bool Lia.
From Coq.Strings Require Export Byte.
Export ListNotations.
Open Scope N_scope.

Definition bytes := list byte.

Definition byte_eqb (a b : byte) : bool := N.eqb (Byte.to_N a) (Byte.to_N b).

Lemma byte_eqb_eq a b : byte_eqb a b = true <-> a = b.
Proof.
  unfold byte_eqb. rewrite N.eqb_eq. split; [|congruence].
  intro H. assert (Some a = Some b) as E.
  { rewrite <- (Byte.of_to_N a), <- (Byte.of_to_N b), H. reflexivity. }
  congruence.
Qed.

Fixpoint bytes_eqb (a b : bytes) : bool :=
  match a, b with
  | [], [] => true
  | x :: a', y :: b' => byte_eqb x y && bytes_eqb a' b'
  | _, _ => false
  end.

Lemma bytes_eqb_eq a b : bytes_eqb a b = true <-> a = b.
Proof.
  revert b; induction a as [|x a IH]; intros [|y b]; cbn; try (split; congruence).
  rewrite andb_true_iff, byte_eqb_eq, IH. split; [intros [-> ->]; reflexivity|].
  intro H; injection H; auto.
Qed.

Lemma bytes_eqb_refl a : bytes_eqb a a = true.
Proof. apply bytes_eqb_eq; reflexivity. Qed.

Definition blen (b : bytes) : N := N.of_nat (length b).

(** The five sentinel error classes of errors.go. *)
Inductive sentinel := MissingOptional | MissingMandatory | NotInProfile | WrongProfile | WrongSyntax.

Definition sent_eqb (a b : sentinel) : bool :=
  match a, b with
  | MissingOptional, MissingOptional | MissingMandatory, MissingMandatory
  | NotInProfile, NotInProfile | WrongProfile, WrongProfile | WrongSyntax, WrongSyntax => true
  | _, _ => false
  end.

Lemma sent_eqb_eq a b : sent_eqb a b = true <-> a = b.
Proof. destruct a, b; cbn; split; congruence. Qed.

(** What [errors.Is] can see of a Go error value: a sentinel, an opaque
    error (errors.New / third-party), or a node wrapping 0..n errors
    (fmt.Errorf with %w verbs, errors.Join, custom Unwrap). *)
Inductive goerr :=
| ESent (s : sentinel)
| EOpaque
| EWrap (inner : list goerr).

Fixpoint err_is (e : goerr) (s : sentinel) : bool :=
  match e with
  | ESent t => sent_eqb t s
  | EOpaque => false
  | EWrap l => existsb (fun x => err_is x s) l
  end.

(** fmt.Errorf("...%w...", sentinel) *)
Definition wrap1 (e : goerr) : goerr := EWrap [e].
Definition e_syntax : goerr := wrap1 (ESent WrongSyntax).
Definition e_mand : goerr := wrap1 (ESent MissingMandatory).   (* ErrMandatoryClaimMissing *)
Definition e_opt : goerr := wrap1 (ESent MissingOptional).     (* ErrOptionalClaimMissing *)

(** Result of a Go call: a value, an error, or a run-time panic. *)
Inductive res (A : Type) := Ok (a : A) | Err (e : goerr) | Panic.
Arguments Ok {A} a.
Arguments Err {A} e.
Arguments Panic {A}.

Definition is_ok {A} (r : res A) : bool := match r with Ok _ => true | _ => false end.
Definition is_panic {A} (r : res A) : bool := match r with Panic => true | _ => false end.

Definition bind {A B} (r : res A) (f : A -> res B) : res B :=
  match r with Ok a => f a | Err e => Err e | Panic => Panic end.

(** FilterError of errors.go, on the error part of a getter result.
    [None] is Go's nil error. *)
Definition filter_error (e : option goerr) : option goerr :=
  match e with
  | None => None
  | Some x => if err_is x MissingOptional || err_is x NotInProfile then None else Some x
  end.

Definition err_of {A} (r : res A) : option goerr :=
  match r with Err e => Some e | _ => None end.
