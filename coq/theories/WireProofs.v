(** Generic round trip of the table-driven field codec: decoding the pairs
    the encoder emits for a record puts every emitted field back. *)
From Coq Require Import Arith ZArith String ZifyN ZifyBool ZifyNat.
From PSA Require Import Base Lines Lifecycle Regex Claims Cbor Utf8 Tags Wire.
Open Scope N_scope.

Lemma classify_enc_int z : (- 2 ^ 63 <= z < 2 ^ 63)%Z -> classify_key (enc_int z) = KInt z.
Proof.
  intro H. unfold enc_int, classify_key. destruct z as [|p|p].
  - reflexivity.
  - destruct (N.ltb_spec (Z.to_N (Z.pos p)) (2 ^ 63)); [rewrite Z2N.id by lia; reflexivity|lia].
  - destruct (N.ltb_spec (Z.to_N (- Z.neg p - 1)) (2 ^ 63)); [|lia].
    f_equal. rewrite Z2N.id by lia. lia.
Qed.

Section Generic.
  Context {A : Type}.
  Variable tags : list field_tag.
  Variable setf : field_tag -> cbor -> A -> option A.
  Variable value : field_tag -> A -> option (option cbor).
  Variable putf : field_tag -> A -> A -> A.      (* copy field f of the source into the accumulator *)
  Variable a : A.                                (* the record being encoded *)

  Definition key_small (f : field_tag) : Prop := (- 2 ^ 63 <= f_key f < 2 ^ 63)%Z.

  (** the table is usable: every non-skipped field is found by its key *)
  Hypothesis tags_found : forall f, In f tags -> f_skip f = false -> find_field tags (f_key f) = Some f /\ key_small f.
  Hypothesis set_value : forall f v acc, In f tags -> f_skip f = false ->
    value f a = Some (Some v) -> setf f v acc = Some (putf f a acc).
  Hypothesis set_null : forall f acc, In f tags -> f_skip f = false -> f_omitempty f = false ->
    value f a = Some None -> setf f c_null acc = Some (putf f a acc).

  Definition omitted (f : field_tag) : bool :=
    f_skip f || match value f a with Some None => f_omitempty f | _ => false end.

  Definition emitted (ts : list field_tag) : list field_tag := filter (fun f => negb (omitted f)) ts.

  Lemma dec_pairs_step f v rest found acc err :
    In f tags -> f_skip f = false -> zmem (f_key f) found = false ->
    dec_pairs tags setf ((enc_int (f_key f), v) :: rest) found acc err =
    match setf f v acc with
    | Some a' => dec_pairs tags setf rest (f_key f :: found) a' err
    | None => dec_pairs tags setf rest (f_key f :: found) acc true
    end.
  Proof.
    intros Hin Hs Hf. cbn [dec_pairs]. destruct (tags_found f Hin Hs) as [FF KS].
    rewrite classify_enc_int by exact KS. rewrite Hf, FF. reflexivity.
  Qed.

  Theorem dec_enc_fields : forall ts kvs found acc,
    (forall f, In f ts -> In f tags) ->
    NoDup (map f_key (filter (fun f => negb (f_skip f)) ts)) ->
    (forall f, In f ts -> f_skip f = false -> zmem (f_key f) found = false) ->
    enc_fields_gen value ts a = Some kvs ->
    exists found', dec_pairs tags setf kvs found acc false =
                   dec_pairs tags setf [] found' (fold_left (fun acc f => putf f a acc) (emitted ts) acc) false.
  Proof.
    induction ts as [|f r IH]; intros kvs found acc Hsub Hnd Hfound Henc.
    - cbn in Henc. injection Henc as <-. exists found. reflexivity.
    - cbn [enc_fields_gen] in Henc. unfold emitted. cbn [filter]. unfold omitted at 1.
      assert (forall g, In g r -> In g tags) as Hsub' by (intros; apply Hsub; right; assumption).
      destruct (f_skip f) eqn:Sk.
      + cbn [orb negb]. apply IH; auto.
        * cbn [filter] in Hnd. rewrite Sk in Hnd. exact Hnd.
        * intros g Hg. apply Hfound. right. exact Hg.
      + cbn [filter] in Hnd. rewrite Sk in Hnd. cbn [negb map] in Hnd. inversion Hnd as [|? ? Hnotin Hnd']. subst.
        assert (forall g, In g r -> f_skip g = false -> zmem (f_key g) (f_key f :: found) = false) as Hfound'.
        { intros g Hg Sg. cbn [zmem existsb]. fold (zmem (f_key g) found).
          rewrite (Hfound g (or_intror Hg) Sg), orb_false_r.
          destruct (Z.eqb_spec (f_key g) (f_key f)) as [E|]; [|reflexivity].
          exfalso. apply Hnotin. rewrite <- E. apply in_map. apply filter_In. rewrite Sg. auto. }
        assert (In f tags) as Hf by (apply Hsub; left; reflexivity).
        assert (zmem (f_key f) found = false) as Hz by (apply Hfound; [left; reflexivity|exact Sk]).
        cbn [orb]. destruct (value f a) as [[v|]|] eqn:V; [| |discriminate].
        * destruct (enc_fields_gen value r a) as [rest|] eqn:R; [|discriminate]. injection Henc as <-.
          cbn [negb filter fold_left].
          rewrite (dec_pairs_step f v rest found acc false Hf Sk Hz).
          rewrite (set_value f v acc Hf Sk V).
          apply IH; auto.
        * destruct (enc_fields_gen value r a) as [rest|] eqn:R; [|discriminate].
          destruct (f_omitempty f) eqn:Om.
          -- injection Henc as <-. cbn [negb filter]. apply IH; auto.
             intros g Hg. apply Hfound. right. exact Hg.
          -- injection Henc as <-. cbn [negb filter fold_left].
             rewrite (dec_pairs_step f c_null rest found acc false Hf Sk Hz).
             rewrite (set_null f acc Hf Sk Om V).
             apply IH; auto.
  Qed.

  (** the encoder only emits pairs whose key is the (small) integer key of a field *)
  Lemma enc_fields_keys : forall ts kvs,
    enc_fields_gen value ts a = Some kvs ->
    forall kv, In kv kvs -> exists f, In f ts /\ f_skip f = false /\ fst kv = enc_int (f_key f) /\
                                      (value f a = Some (Some (snd kv)) \/ (value f a = Some None /\ snd kv = c_null)).
  Proof.
    induction ts as [|f r IH]; intros kvs Henc kv Hin.
    - cbn in Henc. injection Henc as <-. destruct Hin.
    - cbn [enc_fields_gen] in Henc. destruct (f_skip f) eqn:Sk.
      + destruct (IH kvs Henc kv Hin) as (g & G & X). exists g. split; [right; exact G|exact X].
      + destruct (value f a) as [[v|]|] eqn:V; [| |discriminate];
          (destruct (enc_fields_gen value r a) as [rest|] eqn:R; [|discriminate]).
        * injection Henc as <-. destruct Hin as [<-|Hin].
          -- exists f. cbn. repeat split; auto.
          -- destruct (IH rest eq_refl kv Hin) as (g & G & X). exists g. split; [right; exact G|exact X].
        * destruct (f_omitempty f).
          -- injection Henc as <-. destruct (IH rest eq_refl kv Hin) as (g & G & X). exists g. split; [right; exact G|exact X].
          -- injection Henc as <-. destruct Hin as [<-|Hin].
             ++ exists f. cbn. repeat split; auto.
             ++ destruct (IH rest eq_refl kv Hin) as (g & G & X). exists g. split; [right; exact G|exact X].
  Qed.

End Generic.

Lemma enc_fields_length {A} (value : field_tag -> A -> option (option cbor)) (a : A) : forall ts kvs, enc_fields_gen value ts a = Some kvs -> (length kvs <= length ts)%nat.
Proof.
  induction ts as [|f r IH]; intros kvs Henc.
  - cbn in Henc. injection Henc as <-. cbn. lia.
  - cbn [enc_fields_gen] in Henc. destruct (f_skip f).
    + specialize (IH kvs Henc). cbn. lia.
    + destruct (value f a) as [[v|]|]; [| |discriminate];
        (destruct (enc_fields_gen value r a) as [rest|]; [|discriminate]); specialize (IH rest eq_refl).
      * injection Henc as <-. cbn. lia.
      * destruct (f_omitempty f); injection Henc as <-; cbn; lia.
Qed.

Lemma enc_fields_emits {A} (value : field_tag -> A -> option (option cbor)) (a : A) : forall ts kvs f v,
  enc_fields_gen value ts a = Some kvs -> In f ts -> f_skip f = false -> value f a = Some (Some v) ->
  In (enc_int (f_key f), v) kvs.
Proof.
  induction ts as [|g r IH]; intros kvs f v Henc Hin Sk V; [destruct Hin|].
  cbn [enc_fields_gen] in Henc. destruct Hin as [->|Hin].
  - rewrite Sk, V in Henc. destruct (enc_fields_gen value r a); [|discriminate]. injection Henc as <-. left. reflexivity.
  - destruct (f_skip g).
    + eapply IH; eauto.
    + destruct (value g a) as [[w|]|]; [| |discriminate];
        (destruct (enc_fields_gen value r a) as [rest|] eqn:R; [|discriminate]).
      * injection Henc as <-. right. eapply IH; eauto.
      * destruct (f_omitempty g); injection Henc as <-; [|right]; eapply IH; eauto.
Qed.

(** decoding pairs none of whose keys names a field of the table changes nothing *)
Lemma dec_pairs_foreign {A} (tags : list field_tag) (setf : field_tag -> cbor -> A -> option A) :
  forall kvs found acc err,
  (forall kv, In kv kvs -> exists z, (- 2 ^ 63 <= z < 2 ^ 63)%Z /\ fst kv = enc_int z /\ find_field tags z = None) ->
  dec_pairs tags setf kvs found acc err = (acc, err).
Proof.
  induction kvs as [|[k v] r IH]; intros found acc err H; [reflexivity|].
  cbn [dec_pairs]. destruct (H (k, v) (or_introl eq_refl)) as (z & Hz & Hk & Hf). cbn in Hk. subst k.
  rewrite classify_enc_int by exact Hz. rewrite Hf.
  destruct (zmem z found); apply IH; intros kv Hkv; apply H; right; exact Hkv.
Qed.

(** a null is emitted only for a nil field that is not omitempty *)
Lemma enc_fields_omit_null {A} (value : field_tag -> A -> option (option cbor)) (a : A) : forall ts kvs,
  enc_fields_gen value ts a = Some kvs ->
  forall kv, In kv kvs -> exists f, In f ts /\ f_skip f = false /\ fst kv = enc_int (f_key f) /\
                                    (value f a = Some (Some (snd kv)) \/
                                     (value f a = Some None /\ snd kv = c_null /\ f_omitempty f = false)).
Proof.
  induction ts as [|f r IH]; intros kvs Henc kv Hin.
  - cbn in Henc. injection Henc as <-. destruct Hin.
  - cbn [enc_fields_gen] in Henc. destruct (f_skip f) eqn:Sk.
    + destruct (IH kvs Henc kv Hin) as (g & G & X). exists g. split; [right; exact G|exact X].
    + destruct (value f a) as [[v|]|] eqn:V; [| |discriminate];
        (destruct (enc_fields_gen value r a) as [rest|] eqn:R; [|discriminate]).
      * injection Henc as <-. destruct Hin as [<-|Hin].
        -- exists f. cbn. repeat split; auto.
        -- destruct (IH rest eq_refl kv Hin) as (g & G & X). exists g. split; [right; exact G|exact X].
      * destruct (f_omitempty f) eqn:Om.
        -- injection Henc as <-. destruct (IH rest eq_refl kv Hin) as (g & G & X). exists g. split; [right; exact G|exact X].
        -- injection Henc as <-. destruct Hin as [<-|Hin].
           ++ exists f. cbn. repeat split; auto.
           ++ destruct (IH rest eq_refl kv Hin) as (g & G & X). exists g. split; [right; exact G|exact X].
Qed.

(** the field encoder fails only if some field's value cannot be produced *)
Lemma enc_fields_none {A} (value : field_tag -> A -> option (option cbor)) (a : A) : forall ts,
  enc_fields_gen value ts a = None -> exists f, In f ts /\ f_skip f = false /\ value f a = None.
Proof.
  induction ts as [|f r IH]; intro E; [discriminate|].
  cbn [enc_fields_gen] in E. destruct (f_skip f) eqn:Sk.
  - destruct (IH E) as (g & G & X). exists g. split; [right; exact G|exact X].
  - destruct (value f a) as [[v|]|] eqn:V.
    + destruct (enc_fields_gen value r a) eqn:R; [discriminate|].
      destruct (IH eq_refl) as (g & G & X). exists g. split; [right; exact G|exact X].
    + destruct (enc_fields_gen value r a) eqn:R; [destruct (f_omitempty f); discriminate|].
      destruct (IH eq_refl) as (g & G & X). exists g. split; [right; exact G|exact X].
    + exists f. repeat split; auto. left. reflexivity.
Qed.

Lemma enc_fields_ext {A} (value : field_tag -> A -> option (option cbor)) (a a' : A) : forall ts,
  (forall f, In f ts -> value f a = value f a') -> enc_fields_gen value ts a = enc_fields_gen value ts a'.
Proof.
  induction ts as [|f r IH]; intro H; [reflexivity|].
  cbn [enc_fields_gen]. rewrite (H f (or_introl eq_refl)), IH by (intros g G; apply H; right; exact G). reflexivity.
Qed.
