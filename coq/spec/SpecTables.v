(** The *specified* tables, written by hand from the property texts and the
    PSA token documents -- never generated.  The generated tables in
    [PSA.Gen] must be equal to these (files under ties/). *)
From Coq Require Import String.
From PSA Require Import Base Lines Lifecycle Regex Claims.
Open Scope string_scope.
Open Scope N_scope.

Definition spec_lc : lc_cfg := {|
  lc_ranges := [ (0x0000, 0x00ff, 0); (0x1000, 0x10ff, 1); (0x2000, 0x20ff, 2); (0x3000, 0x30ff, 3);
                 (0x4000, 0x40ff, 4); (0x5000, 0x50ff, 5); (0x6000, 0x60ff, 6) ];
  lc_invalid := 7;
  lc_names := [ (0, s2b "unknown"); (1, s2b "assembly-and-test"); (2, s2b "psa-rot-provisioning");
                (3, s2b "secured"); (4, s2b "non-psa-rot-debug"); (5, s2b "recoverable-psa-rot-debug");
                (6, s2b "decommissioned") ];
  lc_default_name := s2b "invalid"
|}.

Definition spec_re1 : list atom := [ABol; ADigits 13; AEol].
Definition spec_re2 : list atom := [ABol; ADigits 13; ALit "-"%byte; ADigits 5; AEol].

Definition spec_ccfg : ccfg := {|
  impl_len := 32; inst_len := 33; inst_type := 1; hash_lens := [32; 48; 64];
  boot1_min := 32; boot1_max := 32; boot2_min := 8; boot2_max := 32;
  cc_lc := spec_lc;
  re1 := spec_re1; re2 := spec_re2;
  cert_get1 := [RE1; RE2]; cert_set1 := [RE1; RE2]; cert_get2 := [RE2]; cert_set2 := [RE2];
  vorder := [CProfile; CLc; CImpl; CSwc; CNonce; CInst; CVsi; CClient; CBoot; CCert];
  sworder := [FMtype; FMval; FVersion; FSigner; FMdesc];
  prof1 := s2b "PSA_IOT_PROFILE_1"; prof2 := s2b "http://arm.com/psa/2.0.0"
|}.
