(** The specified list of error-construction sites of getters, setters and
    validators (hand-maintained; compare gen/GenErrSites.v), and the check
    that each site produces an error classifiable with errors.Is. *)
From Coq Require Import String Ascii List Bool.
Import ListNotations.
Open Scope string_scope.

Definition spec_err_sites : list string := [
  "FilterError|prop:";
  "P1Claims.GetBootSeed|sent:ErrMandatoryClaimMissing";
  "P1Claims.GetBootSeed|wrap:ErrWrongSyntax";
  "P1Claims.GetCertificationReference|sent:ErrOptionalClaimMissing";
  "P1Claims.GetCertificationReference|wrap:ErrWrongSyntax";
  "P1Claims.GetClientID|sent:ErrMandatoryClaimMissing";
  "P1Claims.GetImplID|sent:ErrMandatoryClaimMissing";
  "P1Claims.GetImplID|prop:ValidateImplID";
  "P1Claims.GetInstID|sent:ErrMandatoryClaimMissing";
  "P1Claims.GetInstID|prop:ValidateInstID";
  "P1Claims.GetNonce|sent:ErrMandatoryClaimMissing";
  "P1Claims.GetNonce|prop:ValidateNonce";
  "P1Claims.GetProfile|wrap:ErrWrongProfile";
  "P1Claims.GetSecurityLifeCycle|sent:ErrMandatoryClaimMissing";
  "P1Claims.GetSecurityLifeCycle|prop:ValidateSecurityLifeCycle";
  "P1Claims.GetSoftwareComponents|wrap:ErrMandatoryClaimMissing";
  "P1Claims.GetSoftwareComponents|wrap:ErrWrongSyntax";
  "P1Claims.GetSoftwareComponents|call:c.SwComponents.Values";
  "P1Claims.GetVSI|sent:ErrOptionalClaimMissing";
  "P1Claims.GetVSI|prop:ValidateVSI";
  "P1Claims.SetBootSeed|wrap:ErrWrongSyntax";
  "P1Claims.SetCertificationReference|wrap:ErrWrongSyntax";
  "P1Claims.SetImplID|prop:ValidateImplID";
  "P1Claims.SetInstID|prop:ValidateInstID";
  "P1Claims.SetNonce|prop:ValidatePSAHashType";
  "P1Claims.SetSecurityLifeCycle|prop:ValidateSecurityLifeCycle";
  "P1Claims.SetSoftwareComponents|prop:c.SwComponents.Replace";
  "P1Claims.SetVSI|prop:ValidateVSI";
  "P1Claims.Validate|call:ValidateClaims";
  "P2Claims.GetBootSeed|sent:ErrOptionalClaimMissing";
  "P2Claims.GetBootSeed|wrap:ErrWrongSyntax";
  "P2Claims.GetCertificationReference|sent:ErrOptionalClaimMissing";
  "P2Claims.GetCertificationReference|wrap:ErrWrongSyntax";
  "P2Claims.GetClientID|sent:ErrMandatoryClaimMissing";
  "P2Claims.GetImplID|sent:ErrMandatoryClaimMissing";
  "P2Claims.GetImplID|prop:ValidateImplID";
  "P2Claims.GetInstID|sent:ErrMandatoryClaimMissing";
  "P2Claims.GetInstID|prop:ValidateInstID";
  "P2Claims.GetNonce|sent:ErrMandatoryClaimMissing";
  "P2Claims.GetNonce|wrap:ErrWrongSyntax";
  "P2Claims.GetNonce|prop:ValidateNonce";
  "P2Claims.GetProfile|sent:ErrMandatoryClaimMissing";
  "P2Claims.GetProfile|prop:c.Profile.Get";
  "P2Claims.GetProfile|wrap:ErrWrongProfile";
  "P2Claims.GetSecurityLifeCycle|sent:ErrMandatoryClaimMissing";
  "P2Claims.GetSecurityLifeCycle|prop:ValidateSecurityLifeCycle";
  "P2Claims.GetSoftwareComponents|wrap:ErrMandatoryClaimMissing";
  "P2Claims.GetSoftwareComponents|call:c.SwComponents.Values";
  "P2Claims.GetVSI|sent:ErrOptionalClaimMissing";
  "P2Claims.GetVSI|prop:ValidateVSI";
  "P2Claims.SetBootSeed|wrap:ErrWrongSyntax";
  "P2Claims.SetCertificationReference|wrap:ErrWrongSyntax";
  "P2Claims.SetImplID|prop:ValidateImplID";
  "P2Claims.SetInstID|prop:ValidateInstID";
  "P2Claims.SetNonce|prop:n.Add";
  "P2Claims.SetNonce|prop:n.Add";
  "P2Claims.SetSecurityLifeCycle|prop:ValidateSecurityLifeCycle";
  "P2Claims.SetSoftwareComponents|call:c.SwComponents.Replace";
  "P2Claims.SetVSI|prop:ValidateVSI";
  "P2Claims.Validate|call:ValidateClaims";
  "SwComponent.GetMeasurementDesc|sent:ErrOptionalFieldMissing";
  "SwComponent.GetMeasurementType|sent:ErrOptionalFieldMissing";
  "SwComponent.GetMeasurementValue|sent:ErrMandatoryFieldMissing";
  "SwComponent.GetMeasurementValue|prop:ValidatePSAHashType";
  "SwComponent.GetSignerID|sent:ErrMandatoryFieldMissing";
  "SwComponent.GetSignerID|prop:ValidatePSAHashType";
  "SwComponent.GetVersion|sent:ErrOptionalFieldMissing";
  "SwComponent.SetMeasurementValue|prop:ValidatePSAHashType";
  "SwComponent.SetSignerID|prop:ValidatePSAHashType";
  "SwComponent.Validate|call:ValidateSwComponent";
  "SwComponents.Add|prop:validateAndConvert";
  "SwComponents.Replace|prop:validateAndConvert";
  "SwComponents.Validate|wrap:ErrWrongSyntax";
  "SwComponents.Validate|wraperr:sc.Validate";
  "SwComponents.Values|wrap:ErrWrongSyntax";
  "SwComponents.Values|wraperr:sc.Validate";
  "ValidateClaims|wraperr:FilterError";
  "ValidateClaims|wraperr:FilterError";
  "ValidateClaims|wraperr:FilterError";
  "ValidateClaims|wraperr:FilterError";
  "ValidateClaims|wraperr:FilterError";
  "ValidateClaims|wraperr:FilterError";
  "ValidateClaims|wraperr:FilterError";
  "ValidateClaims|wraperr:FilterError";
  "ValidateClaims|wraperr:FilterError";
  "ValidateClaims|wraperr:FilterError";
  "ValidateHashAlgID|wrap:ErrWrongSyntax";
  "ValidateHashAlgID|wrap:ErrWrongSyntax";
  "ValidateImplID|wrap:ErrWrongSyntax";
  "ValidateInstID|wrap:ErrWrongSyntax";
  "ValidateInstID|wrap:ErrWrongSyntax";
  "ValidateNonce|call:ValidatePSAHashType";
  "ValidatePSAHashType|wrap:ErrWrongSyntax";
  "ValidateSecurityLifeCycle|wrap:ErrWrongSyntax";
  "ValidateSwComponent|wraperr:FilterError";
  "ValidateSwComponent|wraperr:FilterError";
  "ValidateSwComponent|wraperr:FilterError";
  "ValidateSwComponent|wraperr:FilterError";
  "ValidateSwComponent|wraperr:FilterError";
  "ValidateSwComponents|wrap:ErrWrongSyntax";
  "ValidateSwComponents|wraperr:sc.Validate";
  "ValidateVSI|wrap:ErrWrongSyntax";
  "validateAndConvert|wraperr:sc.Validate";
  "validateAndConvert|nowrap"
].

(** Sites that return an error carrying no sentinel.  Each is outside the
    domain of C13: validateAndConvert's "incorrect type" needs a foreign
    component type (C11 uses the library's own type only);
    P2Claims.GetProfile forwards eat.Profile.Get's error, which only a
    hand-built zero eat.Profile produces (no constructor or decoder does);
    P2Claims.SetNonce forwards eat.Nonce.Add's error, unreachable after
    the hash-size check (32/48/64 lies within 8..64). *)
Definition whitelist : list string := [
  "validateAndConvert|nowrap";
  "P2Claims.GetProfile|prop:c.Profile.Get";
  "P2Claims.SetNonce|prop:n.Add"
].

Fixpoint after_bar (s : string) : string :=
  match s with
  | EmptyString => EmptyString
  | String c r => if Ascii.eqb c "|"%char then r else after_bar r
  end.

Definition internal_callee (k : string) : bool :=
  existsb (fun p => prefix p k)
    ["prop:Validate"; "prop:c.SwComponents.Replace"; "prop:validateAndConvert";
     "call:Validate"; "call:c.SwComponents.Values"; "call:c.SwComponents.Replace"]
  || String.eqb k "prop:".   (* FilterError returning its argument *)

Definition kind_classified (k : string) : bool :=
  prefix "sent:Err" k || prefix "wrap:Err" k || prefix "wraperr:" k ||
  internal_callee k.

Definition site_ok (row : string) : bool :=
  existsb (String.eqb row) whitelist || kind_classified (after_bar row).

Lemma spec_err_sites_classified : forallb site_ok spec_err_sites = true.
Proof. vm_compute. reflexivity. Qed.

Lemma bad_site_detected :
  site_ok "ValidateImplID|nowrap" = false /\ site_ok "P1Claims.GetImplID|prop:third.Party" = false.
Proof. vm_compute. split; reflexivity. Qed.
