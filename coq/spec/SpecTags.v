(** The specified struct-tag tables (CBOR keys, wire types, omitempty, JSON
    member names), hand-maintained from the PSA token documents and the
    property texts of C10 / C12.  gen/GenTags.v must be equal (ties/TieTags.v). *)
From Coq Require Import String ZArith List.
From PSA Require Import Tags.
Import ListNotations.
Open Scope string_scope.

Definition spec_p1_fields : list field_tag := [
  {| f_name := "Profile"; f_type := "*string"; f_key := (-75000)%Z; f_keyasint := true; f_omitempty := true; f_skip := false; f_json := "psa-profile"; f_json_omitempty := true; f_json_skip := false |};
  {| f_name := "ClientID"; f_type := "*int32"; f_key := (-75001)%Z; f_keyasint := true; f_omitempty := false; f_skip := false; f_json := "psa-client-id"; f_json_omitempty := false; f_json_skip := false |};
  {| f_name := "SecurityLifeCycle"; f_type := "*uint16"; f_key := (-75002)%Z; f_keyasint := true; f_omitempty := false; f_skip := false; f_json := "psa-security-lifecycle"; f_json_omitempty := false; f_json_skip := false |};
  {| f_name := "ImplID"; f_type := "*[]byte"; f_key := (-75003)%Z; f_keyasint := true; f_omitempty := false; f_skip := false; f_json := "psa-implementation-id"; f_json_omitempty := false; f_json_skip := false |};
  {| f_name := "BootSeed"; f_type := "*[]byte"; f_key := (-75004)%Z; f_keyasint := true; f_omitempty := false; f_skip := false; f_json := "psa-boot-seed"; f_json_omitempty := false; f_json_skip := false |};
  {| f_name := "CertificationReference"; f_type := "*string"; f_key := (-75005)%Z; f_keyasint := true; f_omitempty := true; f_skip := false; f_json := "psa-hwver"; f_json_omitempty := true; f_json_skip := false |};
  {| f_name := "SwComponents"; f_type := "ISwComponents"; f_key := (-75006)%Z; f_keyasint := true; f_omitempty := true; f_skip := false; f_json := "psa-software-components"; f_json_omitempty := true; f_json_skip := false |};
  {| f_name := "NoSwMeasurements"; f_type := "*uint"; f_key := (-75007)%Z; f_keyasint := true; f_omitempty := true; f_skip := false; f_json := "psa-no-software-measurements"; f_json_omitempty := true; f_json_skip := false |};
  {| f_name := "Nonce"; f_type := "*[]byte"; f_key := (-75008)%Z; f_keyasint := true; f_omitempty := false; f_skip := false; f_json := "psa-nonce"; f_json_omitempty := false; f_json_skip := false |};
  {| f_name := "InstID"; f_type := "*[]byte"; f_key := (-75009)%Z; f_keyasint := true; f_omitempty := false; f_skip := false; f_json := "psa-instance-id"; f_json_omitempty := false; f_json_skip := false |};
  {| f_name := "VSI"; f_type := "*string"; f_key := (-75010)%Z; f_keyasint := true; f_omitempty := true; f_skip := false; f_json := "psa-verification-service-indicator"; f_json_omitempty := true; f_json_skip := false |};
  {| f_name := "CanonicalProfile"; f_type := "string"; f_key := 0%Z; f_keyasint := false; f_omitempty := false; f_skip := true; f_json := "-"; f_json_omitempty := false; f_json_skip := true |}
].

Definition spec_p2_fields : list field_tag := [
  {| f_name := "Profile"; f_type := "*eat.Profile"; f_key := (265)%Z; f_keyasint := true; f_omitempty := false; f_skip := false; f_json := "eat-profile"; f_json_omitempty := false; f_json_skip := false |};
  {| f_name := "ClientID"; f_type := "*int32"; f_key := (2394)%Z; f_keyasint := true; f_omitempty := false; f_skip := false; f_json := "psa-client-id"; f_json_omitempty := false; f_json_skip := false |};
  {| f_name := "SecurityLifeCycle"; f_type := "*uint16"; f_key := (2395)%Z; f_keyasint := true; f_omitempty := false; f_skip := false; f_json := "psa-security-lifecycle"; f_json_omitempty := false; f_json_skip := false |};
  {| f_name := "ImplID"; f_type := "*[]byte"; f_key := (2396)%Z; f_keyasint := true; f_omitempty := false; f_skip := false; f_json := "psa-implementation-id"; f_json_omitempty := false; f_json_skip := false |};
  {| f_name := "BootSeed"; f_type := "*[]byte"; f_key := (2397)%Z; f_keyasint := true; f_omitempty := true; f_skip := false; f_json := "psa-boot-seed"; f_json_omitempty := true; f_json_skip := false |};
  {| f_name := "CertificationReference"; f_type := "*string"; f_key := (2398)%Z; f_keyasint := true; f_omitempty := true; f_skip := false; f_json := "psa-certification-reference"; f_json_omitempty := true; f_json_skip := false |};
  {| f_name := "SwComponents"; f_type := "ISwComponents"; f_key := (2399)%Z; f_keyasint := true; f_omitempty := false; f_skip := false; f_json := "psa-software-components"; f_json_omitempty := false; f_json_skip := false |};
  {| f_name := "Nonce"; f_type := "*eat.Nonce"; f_key := (10)%Z; f_keyasint := true; f_omitempty := false; f_skip := false; f_json := "psa-nonce"; f_json_omitempty := false; f_json_skip := false |};
  {| f_name := "InstID"; f_type := "*eat.UEID"; f_key := (256)%Z; f_keyasint := true; f_omitempty := false; f_skip := false; f_json := "psa-instance-id"; f_json_omitempty := false; f_json_skip := false |};
  {| f_name := "VSI"; f_type := "*string"; f_key := (2400)%Z; f_keyasint := true; f_omitempty := true; f_skip := false; f_json := "psa-verification-service-indicator"; f_json_omitempty := true; f_json_skip := false |};
  {| f_name := "CanonicalProfile"; f_type := "string"; f_key := 0%Z; f_keyasint := false; f_omitempty := false; f_skip := true; f_json := "-"; f_json_omitempty := false; f_json_skip := true |}
].

Definition spec_swc_fields : list field_tag := [
  {| f_name := "MeasurementType"; f_type := "*string"; f_key := (1)%Z; f_keyasint := true; f_omitempty := true; f_skip := false; f_json := "measurement-type"; f_json_omitempty := true; f_json_skip := false |};
  {| f_name := "MeasurementValue"; f_type := "*[]byte"; f_key := (2)%Z; f_keyasint := true; f_omitempty := false; f_skip := false; f_json := "measurement-value"; f_json_omitempty := false; f_json_skip := false |};
  {| f_name := "Version"; f_type := "*string"; f_key := (4)%Z; f_keyasint := true; f_omitempty := true; f_skip := false; f_json := "version"; f_json_omitempty := true; f_json_skip := false |};
  {| f_name := "SignerID"; f_type := "*[]byte"; f_key := (5)%Z; f_keyasint := true; f_omitempty := false; f_skip := false; f_json := "signer-id"; f_json_omitempty := false; f_json_skip := false |};
  {| f_name := "MeasurementDesc"; f_type := "*string"; f_key := (6)%Z; f_keyasint := true; f_omitempty := true; f_skip := false; f_json := "measurement-description"; f_json_omitempty := true; f_json_skip := false |}
].

Definition spec_swcs_fields : list field_tag := [
  {| f_name := "values"; f_type := "[]I"; f_key := 0%Z; f_keyasint := false; f_omitempty := false; f_skip := true; f_json := ""; f_json_omitempty := false; f_json_skip := true |}
].

Definition spec_codec_modes : list string := ["initCBOREncMode|IndefLength=cbor.IndefLengthForbidden"; "initCBOREncMode|TimeTag=cbor.EncTagRequired"; "initCBORDecMode|IndefLength=cbor.IndefLengthForbidden"].

