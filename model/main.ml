(* Glue around the extracted model: reads one case per line on stdin
   ("<input>" optionally followed by a TAB and anything else), prints
   "<gen-observation>\t<spec-observation>" per line. *)
let byte_tbl : Model.byte array = Array.init 256 (fun i -> (Obj.magic i : Model.byte))

(* Sanity: constant constructors of the 256-case enum are numbered in
   declaration order; check a few against the extracted constructors. *)
let () =
  assert (byte_tbl.(0) = Model.X00);
  assert (byte_tbl.(0x20) = Model.X20);
  assert (byte_tbl.(0x7f) = Model.X7f);
  assert (byte_tbl.(0xff) = Model.Xff)

let to_model (s : string) : Model.byte list =
  let r = ref [] in
  for i = String.length s - 1 downto 0 do r := byte_tbl.(Char.code s.[i]) :: !r done;
  !r

let of_model (l : Model.byte list) : string =
  let b = Buffer.create 256 in
  List.iter (fun (c : Model.byte) -> Buffer.add_char b (Char.chr (Obj.magic c : int))) l;
  Buffer.contents b

let () =
  let which = if Array.length Sys.argv > 1 then Sys.argv.(1) else "both" in
  try
    while true do
      let line = input_line stdin in
      let inp = match String.index_opt line '\t' with Some i -> String.sub line 0 i | None -> line in
      let m = to_model inp in
      (match which with
       | "gen" -> print_string (of_model (Model.run_gen m))
       | "spec" -> print_string (of_model (Model.run_spec m))
       | _ ->
         print_string (of_model (Model.run_gen m));
         print_char '\t';
         print_string (of_model (Model.run_spec m)));
      print_char '\n'
    done
  with End_of_file -> ()
