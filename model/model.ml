
type nat =
| O
| S of nat

(** val fst : ('a1 * 'a2) -> 'a1 **)

let fst = function
| (x, _) -> x

(** val snd : ('a1 * 'a2) -> 'a2 **)

let snd = function
| (_, y) -> y

(** val app : 'a1 list -> 'a1 list -> 'a1 list **)

let rec app l m =
  match l with
  | [] -> m
  | a :: l1 -> a :: (app l1 m)

type comparison =
| Eq
| Lt
| Gt

type byte =
| X00
| X01
| X02
| X03
| X04
| X05
| X06
| X07
| X08
| X09
| X0a
| X0b
| X0c
| X0d
| X0e
| X0f
| X10
| X11
| X12
| X13
| X14
| X15
| X16
| X17
| X18
| X19
| X1a
| X1b
| X1c
| X1d
| X1e
| X1f
| X20
| X21
| X22
| X23
| X24
| X25
| X26
| X27
| X28
| X29
| X2a
| X2b
| X2c
| X2d
| X2e
| X2f
| X30
| X31
| X32
| X33
| X34
| X35
| X36
| X37
| X38
| X39
| X3a
| X3b
| X3c
| X3d
| X3e
| X3f
| X40
| X41
| X42
| X43
| X44
| X45
| X46
| X47
| X48
| X49
| X4a
| X4b
| X4c
| X4d
| X4e
| X4f
| X50
| X51
| X52
| X53
| X54
| X55
| X56
| X57
| X58
| X59
| X5a
| X5b
| X5c
| X5d
| X5e
| X5f
| X60
| X61
| X62
| X63
| X64
| X65
| X66
| X67
| X68
| X69
| X6a
| X6b
| X6c
| X6d
| X6e
| X6f
| X70
| X71
| X72
| X73
| X74
| X75
| X76
| X77
| X78
| X79
| X7a
| X7b
| X7c
| X7d
| X7e
| X7f
| X80
| X81
| X82
| X83
| X84
| X85
| X86
| X87
| X88
| X89
| X8a
| X8b
| X8c
| X8d
| X8e
| X8f
| X90
| X91
| X92
| X93
| X94
| X95
| X96
| X97
| X98
| X99
| X9a
| X9b
| X9c
| X9d
| X9e
| X9f
| Xa0
| Xa1
| Xa2
| Xa3
| Xa4
| Xa5
| Xa6
| Xa7
| Xa8
| Xa9
| Xaa
| Xab
| Xac
| Xad
| Xae
| Xaf
| Xb0
| Xb1
| Xb2
| Xb3
| Xb4
| Xb5
| Xb6
| Xb7
| Xb8
| Xb9
| Xba
| Xbb
| Xbc
| Xbd
| Xbe
| Xbf
| Xc0
| Xc1
| Xc2
| Xc3
| Xc4
| Xc5
| Xc6
| Xc7
| Xc8
| Xc9
| Xca
| Xcb
| Xcc
| Xcd
| Xce
| Xcf
| Xd0
| Xd1
| Xd2
| Xd3
| Xd4
| Xd5
| Xd6
| Xd7
| Xd8
| Xd9
| Xda
| Xdb
| Xdc
| Xdd
| Xde
| Xdf
| Xe0
| Xe1
| Xe2
| Xe3
| Xe4
| Xe5
| Xe6
| Xe7
| Xe8
| Xe9
| Xea
| Xeb
| Xec
| Xed
| Xee
| Xef
| Xf0
| Xf1
| Xf2
| Xf3
| Xf4
| Xf5
| Xf6
| Xf7
| Xf8
| Xf9
| Xfa
| Xfb
| Xfc
| Xfd
| Xfe
| Xff

(** val of_bits :
    (bool * (bool * (bool * (bool * (bool * (bool * (bool * bool))))))) ->
    byte **)

let of_bits = function
| (b0, p) ->
  if b0
  then let (b1, p0) = p in
       if b1
       then let (b2, p1) = p0 in
            if b2
            then let (b3, p2) = p1 in
                 if b3
                 then let (b4, p3) = p2 in
                      if b4
                      then let (b5, p4) = p3 in
                           if b5
                           then let (b6, b7) = p4 in
                                if b6
                                then if b7 then Xff else X7f
                                else if b7 then Xbf else X3f
                           else let (b6, b7) = p4 in
                                if b6
                                then if b7 then Xdf else X5f
                                else if b7 then X9f else X1f
                      else let (b5, p4) = p3 in
                           if b5
                           then let (b6, b7) = p4 in
                                if b6
                                then if b7 then Xef else X6f
                                else if b7 then Xaf else X2f
                           else let (b6, b7) = p4 in
                                if b6
                                then if b7 then Xcf else X4f
                                else if b7 then X8f else X0f
                 else let (b4, p3) = p2 in
                      if b4
                      then let (b5, p4) = p3 in
                           if b5
                           then let (b6, b7) = p4 in
                                if b6
                                then if b7 then Xf7 else X77
                                else if b7 then Xb7 else X37
                           else let (b6, b7) = p4 in
                                if b6
                                then if b7 then Xd7 else X57
                                else if b7 then X97 else X17
                      else let (b5, p4) = p3 in
                           if b5
                           then let (b6, b7) = p4 in
                                if b6
                                then if b7 then Xe7 else X67
                                else if b7 then Xa7 else X27
                           else let (b6, b7) = p4 in
                                if b6
                                then if b7 then Xc7 else X47
                                else if b7 then X87 else X07
            else let (b3, p2) = p1 in
                 if b3
                 then let (b4, p3) = p2 in
                      if b4
                      then let (b5, p4) = p3 in
                           if b5
                           then let (b6, b7) = p4 in
                                if b6
                                then if b7 then Xfb else X7b
                                else if b7 then Xbb else X3b
                           else let (b6, b7) = p4 in
                                if b6
                                then if b7 then Xdb else X5b
                                else if b7 then X9b else X1b
                      else let (b5, p4) = p3 in
                           if b5
                           then let (b6, b7) = p4 in
                                if b6
                                then if b7 then Xeb else X6b
                                else if b7 then Xab else X2b
                           else let (b6, b7) = p4 in
                                if b6
                                then if b7 then Xcb else X4b
                                else if b7 then X8b else X0b
                 else let (b4, p3) = p2 in
                      if b4
                      then let (b5, p4) = p3 in
                           if b5
                           then let (b6, b7) = p4 in
                                if b6
                                then if b7 then Xf3 else X73
                                else if b7 then Xb3 else X33
                           else let (b6, b7) = p4 in
                                if b6
                                then if b7 then Xd3 else X53
                                else if b7 then X93 else X13
                      else let (b5, p4) = p3 in
                           if b5
                           then let (b6, b7) = p4 in
                                if b6
                                then if b7 then Xe3 else X63
                                else if b7 then Xa3 else X23
                           else let (b6, b7) = p4 in
                                if b6
                                then if b7 then Xc3 else X43
                                else if b7 then X83 else X03
       else let (b2, p1) = p0 in
            if b2
            then let (b3, p2) = p1 in
                 if b3
                 then let (b4, p3) = p2 in
                      if b4
                      then let (b5, p4) = p3 in
                           if b5
                           then let (b6, b7) = p4 in
                                if b6
                                then if b7 then Xfd else X7d
                                else if b7 then Xbd else X3d
                           else let (b6, b7) = p4 in
                                if b6
                                then if b7 then Xdd else X5d
                                else if b7 then X9d else X1d
                      else let (b5, p4) = p3 in
                           if b5
                           then let (b6, b7) = p4 in
                                if b6
                                then if b7 then Xed else X6d
                                else if b7 then Xad else X2d
                           else let (b6, b7) = p4 in
                                if b6
                                then if b7 then Xcd else X4d
                                else if b7 then X8d else X0d
                 else let (b4, p3) = p2 in
                      if b4
                      then let (b5, p4) = p3 in
                           if b5
                           then let (b6, b7) = p4 in
                                if b6
                                then if b7 then Xf5 else X75
                                else if b7 then Xb5 else X35
                           else let (b6, b7) = p4 in
                                if b6
                                then if b7 then Xd5 else X55
                                else if b7 then X95 else X15
                      else let (b5, p4) = p3 in
                           if b5
                           then let (b6, b7) = p4 in
                                if b6
                                then if b7 then Xe5 else X65
                                else if b7 then Xa5 else X25
                           else let (b6, b7) = p4 in
                                if b6
                                then if b7 then Xc5 else X45
                                else if b7 then X85 else X05
            else let (b3, p2) = p1 in
                 if b3
                 then let (b4, p3) = p2 in
                      if b4
                      then let (b5, p4) = p3 in
                           if b5
                           then let (b6, b7) = p4 in
                                if b6
                                then if b7 then Xf9 else X79
                                else if b7 then Xb9 else X39
                           else let (b6, b7) = p4 in
                                if b6
                                then if b7 then Xd9 else X59
                                else if b7 then X99 else X19
                      else let (b5, p4) = p3 in
                           if b5
                           then let (b6, b7) = p4 in
                                if b6
                                then if b7 then Xe9 else X69
                                else if b7 then Xa9 else X29
                           else let (b6, b7) = p4 in
                                if b6
                                then if b7 then Xc9 else X49
                                else if b7 then X89 else X09
                 else let (b4, p3) = p2 in
                      if b4
                      then let (b5, p4) = p3 in
                           if b5
                           then let (b6, b7) = p4 in
                                if b6
                                then if b7 then Xf1 else X71
                                else if b7 then Xb1 else X31
                           else let (b6, b7) = p4 in
                                if b6
                                then if b7 then Xd1 else X51
                                else if b7 then X91 else X11
                      else let (b5, p4) = p3 in
                           if b5
                           then let (b6, b7) = p4 in
                                if b6
                                then if b7 then Xe1 else X61
                                else if b7 then Xa1 else X21
                           else let (b6, b7) = p4 in
                                if b6
                                then if b7 then Xc1 else X41
                                else if b7 then X81 else X01
  else let (b1, p0) = p in
       if b1
       then let (b2, p1) = p0 in
            if b2
            then let (b3, p2) = p1 in
                 if b3
                 then let (b4, p3) = p2 in
                      if b4
                      then let (b5, p4) = p3 in
                           if b5
                           then let (b6, b7) = p4 in
                                if b6
                                then if b7 then Xfe else X7e
                                else if b7 then Xbe else X3e
                           else let (b6, b7) = p4 in
                                if b6
                                then if b7 then Xde else X5e
                                else if b7 then X9e else X1e
                      else let (b5, p4) = p3 in
                           if b5
                           then let (b6, b7) = p4 in
                                if b6
                                then if b7 then Xee else X6e
                                else if b7 then Xae else X2e
                           else let (b6, b7) = p4 in
                                if b6
                                then if b7 then Xce else X4e
                                else if b7 then X8e else X0e
                 else let (b4, p3) = p2 in
                      if b4
                      then let (b5, p4) = p3 in
                           if b5
                           then let (b6, b7) = p4 in
                                if b6
                                then if b7 then Xf6 else X76
                                else if b7 then Xb6 else X36
                           else let (b6, b7) = p4 in
                                if b6
                                then if b7 then Xd6 else X56
                                else if b7 then X96 else X16
                      else let (b5, p4) = p3 in
                           if b5
                           then let (b6, b7) = p4 in
                                if b6
                                then if b7 then Xe6 else X66
                                else if b7 then Xa6 else X26
                           else let (b6, b7) = p4 in
                                if b6
                                then if b7 then Xc6 else X46
                                else if b7 then X86 else X06
            else let (b3, p2) = p1 in
                 if b3
                 then let (b4, p3) = p2 in
                      if b4
                      then let (b5, p4) = p3 in
                           if b5
                           then let (b6, b7) = p4 in
                                if b6
                                then if b7 then Xfa else X7a
                                else if b7 then Xba else X3a
                           else let (b6, b7) = p4 in
                                if b6
                                then if b7 then Xda else X5a
                                else if b7 then X9a else X1a
                      else let (b5, p4) = p3 in
                           if b5
                           then let (b6, b7) = p4 in
                                if b6
                                then if b7 then Xea else X6a
                                else if b7 then Xaa else X2a
                           else let (b6, b7) = p4 in
                                if b6
                                then if b7 then Xca else X4a
                                else if b7 then X8a else X0a
                 else let (b4, p3) = p2 in
                      if b4
                      then let (b5, p4) = p3 in
                           if b5
                           then let (b6, b7) = p4 in
                                if b6
                                then if b7 then Xf2 else X72
                                else if b7 then Xb2 else X32
                           else let (b6, b7) = p4 in
                                if b6
                                then if b7 then Xd2 else X52
                                else if b7 then X92 else X12
                      else let (b5, p4) = p3 in
                           if b5
                           then let (b6, b7) = p4 in
                                if b6
                                then if b7 then Xe2 else X62
                                else if b7 then Xa2 else X22
                           else let (b6, b7) = p4 in
                                if b6
                                then if b7 then Xc2 else X42
                                else if b7 then X82 else X02
       else let (b2, p1) = p0 in
            if b2
            then let (b3, p2) = p1 in
                 if b3
                 then let (b4, p3) = p2 in
                      if b4
                      then let (b5, p4) = p3 in
                           if b5
                           then let (b6, b7) = p4 in
                                if b6
                                then if b7 then Xfc else X7c
                                else if b7 then Xbc else X3c
                           else let (b6, b7) = p4 in
                                if b6
                                then if b7 then Xdc else X5c
                                else if b7 then X9c else X1c
                      else let (b5, p4) = p3 in
                           if b5
                           then let (b6, b7) = p4 in
                                if b6
                                then if b7 then Xec else X6c
                                else if b7 then Xac else X2c
                           else let (b6, b7) = p4 in
                                if b6
                                then if b7 then Xcc else X4c
                                else if b7 then X8c else X0c
                 else let (b4, p3) = p2 in
                      if b4
                      then let (b5, p4) = p3 in
                           if b5
                           then let (b6, b7) = p4 in
                                if b6
                                then if b7 then Xf4 else X74
                                else if b7 then Xb4 else X34
                           else let (b6, b7) = p4 in
                                if b6
                                then if b7 then Xd4 else X54
                                else if b7 then X94 else X14
                      else let (b5, p4) = p3 in
                           if b5
                           then let (b6, b7) = p4 in
                                if b6
                                then if b7 then Xe4 else X64
                                else if b7 then Xa4 else X24
                           else let (b6, b7) = p4 in
                                if b6
                                then if b7 then Xc4 else X44
                                else if b7 then X84 else X04
            else let (b3, p2) = p1 in
                 if b3
                 then let (b4, p3) = p2 in
                      if b4
                      then let (b5, p4) = p3 in
                           if b5
                           then let (b6, b7) = p4 in
                                if b6
                                then if b7 then Xf8 else X78
                                else if b7 then Xb8 else X38
                           else let (b6, b7) = p4 in
                                if b6
                                then if b7 then Xd8 else X58
                                else if b7 then X98 else X18
                      else let (b5, p4) = p3 in
                           if b5
                           then let (b6, b7) = p4 in
                                if b6
                                then if b7 then Xe8 else X68
                                else if b7 then Xa8 else X28
                           else let (b6, b7) = p4 in
                                if b6
                                then if b7 then Xc8 else X48
                                else if b7 then X88 else X08
                 else let (b4, p3) = p2 in
                      if b4
                      then let (b5, p4) = p3 in
                           if b5
                           then let (b6, b7) = p4 in
                                if b6
                                then if b7 then Xf0 else X70
                                else if b7 then Xb0 else X30
                           else let (b6, b7) = p4 in
                                if b6
                                then if b7 then Xd0 else X50
                                else if b7 then X90 else X10
                      else let (b5, p4) = p3 in
                           if b5
                           then let (b6, b7) = p4 in
                                if b6
                                then if b7 then Xe0 else X60
                                else if b7 then Xa0 else X20
                           else let (b6, b7) = p4 in
                                if b6
                                then if b7 then Xc0 else X40
                                else if b7 then X80 else X00

type positive =
| XI of positive
| XO of positive
| XH

type n =
| N0
| Npos of positive

type z =
| Z0
| Zpos of positive
| Zneg of positive

module Pos =
 struct
  type mask =
  | IsNul
  | IsPos of positive
  | IsNeg
 end

module Coq_Pos =
 struct
  (** val succ : positive -> positive **)

  let rec succ = function
  | XI p -> XO (succ p)
  | XO p -> XI p
  | XH -> XO XH

  (** val add : positive -> positive -> positive **)

  let rec add x y =
    match x with
    | XI p ->
      (match y with
       | XI q -> XO (add_carry p q)
       | XO q -> XI (add p q)
       | XH -> XO (succ p))
    | XO p ->
      (match y with
       | XI q -> XI (add p q)
       | XO q -> XO (add p q)
       | XH -> XI p)
    | XH -> (match y with
             | XI q -> XO (succ q)
             | XO q -> XI q
             | XH -> XO XH)

  (** val add_carry : positive -> positive -> positive **)

  and add_carry x y =
    match x with
    | XI p ->
      (match y with
       | XI q -> XI (add_carry p q)
       | XO q -> XO (add_carry p q)
       | XH -> XI (succ p))
    | XO p ->
      (match y with
       | XI q -> XO (add_carry p q)
       | XO q -> XI (add p q)
       | XH -> XO (succ p))
    | XH ->
      (match y with
       | XI q -> XI (succ q)
       | XO q -> XO (succ q)
       | XH -> XI XH)

  (** val pred_double : positive -> positive **)

  let rec pred_double = function
  | XI p -> XI (XO p)
  | XO p -> XI (pred_double p)
  | XH -> XH

  type mask = Pos.mask =
  | IsNul
  | IsPos of positive
  | IsNeg

  (** val succ_double_mask : mask -> mask **)

  let succ_double_mask = function
  | IsNul -> IsPos XH
  | IsPos p -> IsPos (XI p)
  | IsNeg -> IsNeg

  (** val double_mask : mask -> mask **)

  let double_mask = function
  | IsPos p -> IsPos (XO p)
  | x0 -> x0

  (** val double_pred_mask : positive -> mask **)

  let double_pred_mask = function
  | XI p -> IsPos (XO (XO p))
  | XO p -> IsPos (XO (pred_double p))
  | XH -> IsNul

  (** val sub_mask : positive -> positive -> mask **)

  let rec sub_mask x y =
    match x with
    | XI p ->
      (match y with
       | XI q -> double_mask (sub_mask p q)
       | XO q -> succ_double_mask (sub_mask p q)
       | XH -> IsPos (XO p))
    | XO p ->
      (match y with
       | XI q -> succ_double_mask (sub_mask_carry p q)
       | XO q -> double_mask (sub_mask p q)
       | XH -> IsPos (pred_double p))
    | XH -> (match y with
             | XH -> IsNul
             | _ -> IsNeg)

  (** val sub_mask_carry : positive -> positive -> mask **)

  and sub_mask_carry x y =
    match x with
    | XI p ->
      (match y with
       | XI q -> succ_double_mask (sub_mask_carry p q)
       | XO q -> double_mask (sub_mask p q)
       | XH -> IsPos (pred_double p))
    | XO p ->
      (match y with
       | XI q -> double_mask (sub_mask_carry p q)
       | XO q -> succ_double_mask (sub_mask_carry p q)
       | XH -> double_pred_mask p)
    | XH -> IsNeg

  (** val mul : positive -> positive -> positive **)

  let rec mul x y =
    match x with
    | XI p -> add y (XO (mul p y))
    | XO p -> XO (mul p y)
    | XH -> y

  (** val compare_cont : comparison -> positive -> positive -> comparison **)

  let rec compare_cont r x y =
    match x with
    | XI p ->
      (match y with
       | XI q -> compare_cont r p q
       | XO q -> compare_cont Gt p q
       | XH -> Gt)
    | XO p ->
      (match y with
       | XI q -> compare_cont Lt p q
       | XO q -> compare_cont r p q
       | XH -> Gt)
    | XH -> (match y with
             | XH -> r
             | _ -> Lt)

  (** val compare : positive -> positive -> comparison **)

  let compare =
    compare_cont Eq

  (** val eqb : positive -> positive -> bool **)

  let rec eqb p q =
    match p with
    | XI p0 -> (match q with
                | XI q0 -> eqb p0 q0
                | _ -> false)
    | XO p0 -> (match q with
                | XO q0 -> eqb p0 q0
                | _ -> false)
    | XH -> (match q with
             | XH -> true
             | _ -> false)
 end

module N =
 struct
  (** val succ_double : n -> n **)

  let succ_double = function
  | N0 -> Npos XH
  | Npos p -> Npos (XI p)

  (** val double : n -> n **)

  let double = function
  | N0 -> N0
  | Npos p -> Npos (XO p)

  (** val add : n -> n -> n **)

  let add n0 m =
    match n0 with
    | N0 -> m
    | Npos p -> (match m with
                 | N0 -> n0
                 | Npos q -> Npos (Coq_Pos.add p q))

  (** val sub : n -> n -> n **)

  let sub n0 m =
    match n0 with
    | N0 -> N0
    | Npos n' ->
      (match m with
       | N0 -> n0
       | Npos m' ->
         (match Coq_Pos.sub_mask n' m' with
          | Coq_Pos.IsPos p -> Npos p
          | _ -> N0))

  (** val mul : n -> n -> n **)

  let mul n0 m =
    match n0 with
    | N0 -> N0
    | Npos p -> (match m with
                 | N0 -> N0
                 | Npos q -> Npos (Coq_Pos.mul p q))

  (** val compare : n -> n -> comparison **)

  let compare n0 m =
    match n0 with
    | N0 -> (match m with
             | N0 -> Eq
             | Npos _ -> Lt)
    | Npos n' -> (match m with
                  | N0 -> Gt
                  | Npos m' -> Coq_Pos.compare n' m')

  (** val eqb : n -> n -> bool **)

  let eqb n0 m =
    match n0 with
    | N0 -> (match m with
             | N0 -> true
             | Npos _ -> false)
    | Npos p -> (match m with
                 | N0 -> false
                 | Npos q -> Coq_Pos.eqb p q)

  (** val leb : n -> n -> bool **)

  let leb x y =
    match compare x y with
    | Gt -> false
    | _ -> true

  (** val ltb : n -> n -> bool **)

  let ltb x y =
    match compare x y with
    | Lt -> true
    | _ -> false

  (** val pos_div_eucl : positive -> n -> n * n **)

  let rec pos_div_eucl a b =
    match a with
    | XI a' ->
      let (q, r) = pos_div_eucl a' b in
      let r' = succ_double r in
      if leb b r' then ((succ_double q), (sub r' b)) else ((double q), r')
    | XO a' ->
      let (q, r) = pos_div_eucl a' b in
      let r' = double r in
      if leb b r' then ((succ_double q), (sub r' b)) else ((double q), r')
    | XH ->
      (match b with
       | N0 -> (N0, (Npos XH))
       | Npos p -> (match p with
                    | XH -> ((Npos XH), N0)
                    | _ -> (N0, (Npos XH))))

  (** val div_eucl : n -> n -> n * n **)

  let div_eucl a b =
    match a with
    | N0 -> (N0, N0)
    | Npos na -> (match b with
                  | N0 -> (N0, a)
                  | Npos _ -> pos_div_eucl na b)

  (** val div : n -> n -> n **)

  let div a b =
    fst (div_eucl a b)

  (** val modulo : n -> n -> n **)

  let modulo a b =
    snd (div_eucl a b)
 end

(** val rev : 'a1 list -> 'a1 list **)

let rec rev = function
| [] -> []
| x :: l' -> app (rev l') (x :: [])

(** val map : ('a1 -> 'a2) -> 'a1 list -> 'a2 list **)

let rec map f = function
| [] -> []
| a :: t -> (f a) :: (map f t)

(** val existsb : ('a1 -> bool) -> 'a1 list -> bool **)

let rec existsb f = function
| [] -> false
| a :: l0 -> (||) (f a) (existsb f l0)

(** val to_N : byte -> n **)

let to_N = function
| X00 -> N0
| X01 -> Npos XH
| X02 -> Npos (XO XH)
| X03 -> Npos (XI XH)
| X04 -> Npos (XO (XO XH))
| X05 -> Npos (XI (XO XH))
| X06 -> Npos (XO (XI XH))
| X07 -> Npos (XI (XI XH))
| X08 -> Npos (XO (XO (XO XH)))
| X09 -> Npos (XI (XO (XO XH)))
| X0a -> Npos (XO (XI (XO XH)))
| X0b -> Npos (XI (XI (XO XH)))
| X0c -> Npos (XO (XO (XI XH)))
| X0d -> Npos (XI (XO (XI XH)))
| X0e -> Npos (XO (XI (XI XH)))
| X0f -> Npos (XI (XI (XI XH)))
| X10 -> Npos (XO (XO (XO (XO XH))))
| X11 -> Npos (XI (XO (XO (XO XH))))
| X12 -> Npos (XO (XI (XO (XO XH))))
| X13 -> Npos (XI (XI (XO (XO XH))))
| X14 -> Npos (XO (XO (XI (XO XH))))
| X15 -> Npos (XI (XO (XI (XO XH))))
| X16 -> Npos (XO (XI (XI (XO XH))))
| X17 -> Npos (XI (XI (XI (XO XH))))
| X18 -> Npos (XO (XO (XO (XI XH))))
| X19 -> Npos (XI (XO (XO (XI XH))))
| X1a -> Npos (XO (XI (XO (XI XH))))
| X1b -> Npos (XI (XI (XO (XI XH))))
| X1c -> Npos (XO (XO (XI (XI XH))))
| X1d -> Npos (XI (XO (XI (XI XH))))
| X1e -> Npos (XO (XI (XI (XI XH))))
| X1f -> Npos (XI (XI (XI (XI XH))))
| X20 -> Npos (XO (XO (XO (XO (XO XH)))))
| X21 -> Npos (XI (XO (XO (XO (XO XH)))))
| X22 -> Npos (XO (XI (XO (XO (XO XH)))))
| X23 -> Npos (XI (XI (XO (XO (XO XH)))))
| X24 -> Npos (XO (XO (XI (XO (XO XH)))))
| X25 -> Npos (XI (XO (XI (XO (XO XH)))))
| X26 -> Npos (XO (XI (XI (XO (XO XH)))))
| X27 -> Npos (XI (XI (XI (XO (XO XH)))))
| X28 -> Npos (XO (XO (XO (XI (XO XH)))))
| X29 -> Npos (XI (XO (XO (XI (XO XH)))))
| X2a -> Npos (XO (XI (XO (XI (XO XH)))))
| X2b -> Npos (XI (XI (XO (XI (XO XH)))))
| X2c -> Npos (XO (XO (XI (XI (XO XH)))))
| X2d -> Npos (XI (XO (XI (XI (XO XH)))))
| X2e -> Npos (XO (XI (XI (XI (XO XH)))))
| X2f -> Npos (XI (XI (XI (XI (XO XH)))))
| X30 -> Npos (XO (XO (XO (XO (XI XH)))))
| X31 -> Npos (XI (XO (XO (XO (XI XH)))))
| X32 -> Npos (XO (XI (XO (XO (XI XH)))))
| X33 -> Npos (XI (XI (XO (XO (XI XH)))))
| X34 -> Npos (XO (XO (XI (XO (XI XH)))))
| X35 -> Npos (XI (XO (XI (XO (XI XH)))))
| X36 -> Npos (XO (XI (XI (XO (XI XH)))))
| X37 -> Npos (XI (XI (XI (XO (XI XH)))))
| X38 -> Npos (XO (XO (XO (XI (XI XH)))))
| X39 -> Npos (XI (XO (XO (XI (XI XH)))))
| X3a -> Npos (XO (XI (XO (XI (XI XH)))))
| X3b -> Npos (XI (XI (XO (XI (XI XH)))))
| X3c -> Npos (XO (XO (XI (XI (XI XH)))))
| X3d -> Npos (XI (XO (XI (XI (XI XH)))))
| X3e -> Npos (XO (XI (XI (XI (XI XH)))))
| X3f -> Npos (XI (XI (XI (XI (XI XH)))))
| X40 -> Npos (XO (XO (XO (XO (XO (XO XH))))))
| X41 -> Npos (XI (XO (XO (XO (XO (XO XH))))))
| X42 -> Npos (XO (XI (XO (XO (XO (XO XH))))))
| X43 -> Npos (XI (XI (XO (XO (XO (XO XH))))))
| X44 -> Npos (XO (XO (XI (XO (XO (XO XH))))))
| X45 -> Npos (XI (XO (XI (XO (XO (XO XH))))))
| X46 -> Npos (XO (XI (XI (XO (XO (XO XH))))))
| X47 -> Npos (XI (XI (XI (XO (XO (XO XH))))))
| X48 -> Npos (XO (XO (XO (XI (XO (XO XH))))))
| X49 -> Npos (XI (XO (XO (XI (XO (XO XH))))))
| X4a -> Npos (XO (XI (XO (XI (XO (XO XH))))))
| X4b -> Npos (XI (XI (XO (XI (XO (XO XH))))))
| X4c -> Npos (XO (XO (XI (XI (XO (XO XH))))))
| X4d -> Npos (XI (XO (XI (XI (XO (XO XH))))))
| X4e -> Npos (XO (XI (XI (XI (XO (XO XH))))))
| X4f -> Npos (XI (XI (XI (XI (XO (XO XH))))))
| X50 -> Npos (XO (XO (XO (XO (XI (XO XH))))))
| X51 -> Npos (XI (XO (XO (XO (XI (XO XH))))))
| X52 -> Npos (XO (XI (XO (XO (XI (XO XH))))))
| X53 -> Npos (XI (XI (XO (XO (XI (XO XH))))))
| X54 -> Npos (XO (XO (XI (XO (XI (XO XH))))))
| X55 -> Npos (XI (XO (XI (XO (XI (XO XH))))))
| X56 -> Npos (XO (XI (XI (XO (XI (XO XH))))))
| X57 -> Npos (XI (XI (XI (XO (XI (XO XH))))))
| X58 -> Npos (XO (XO (XO (XI (XI (XO XH))))))
| X59 -> Npos (XI (XO (XO (XI (XI (XO XH))))))
| X5a -> Npos (XO (XI (XO (XI (XI (XO XH))))))
| X5b -> Npos (XI (XI (XO (XI (XI (XO XH))))))
| X5c -> Npos (XO (XO (XI (XI (XI (XO XH))))))
| X5d -> Npos (XI (XO (XI (XI (XI (XO XH))))))
| X5e -> Npos (XO (XI (XI (XI (XI (XO XH))))))
| X5f -> Npos (XI (XI (XI (XI (XI (XO XH))))))
| X60 -> Npos (XO (XO (XO (XO (XO (XI XH))))))
| X61 -> Npos (XI (XO (XO (XO (XO (XI XH))))))
| X62 -> Npos (XO (XI (XO (XO (XO (XI XH))))))
| X63 -> Npos (XI (XI (XO (XO (XO (XI XH))))))
| X64 -> Npos (XO (XO (XI (XO (XO (XI XH))))))
| X65 -> Npos (XI (XO (XI (XO (XO (XI XH))))))
| X66 -> Npos (XO (XI (XI (XO (XO (XI XH))))))
| X67 -> Npos (XI (XI (XI (XO (XO (XI XH))))))
| X68 -> Npos (XO (XO (XO (XI (XO (XI XH))))))
| X69 -> Npos (XI (XO (XO (XI (XO (XI XH))))))
| X6a -> Npos (XO (XI (XO (XI (XO (XI XH))))))
| X6b -> Npos (XI (XI (XO (XI (XO (XI XH))))))
| X6c -> Npos (XO (XO (XI (XI (XO (XI XH))))))
| X6d -> Npos (XI (XO (XI (XI (XO (XI XH))))))
| X6e -> Npos (XO (XI (XI (XI (XO (XI XH))))))
| X6f -> Npos (XI (XI (XI (XI (XO (XI XH))))))
| X70 -> Npos (XO (XO (XO (XO (XI (XI XH))))))
| X71 -> Npos (XI (XO (XO (XO (XI (XI XH))))))
| X72 -> Npos (XO (XI (XO (XO (XI (XI XH))))))
| X73 -> Npos (XI (XI (XO (XO (XI (XI XH))))))
| X74 -> Npos (XO (XO (XI (XO (XI (XI XH))))))
| X75 -> Npos (XI (XO (XI (XO (XI (XI XH))))))
| X76 -> Npos (XO (XI (XI (XO (XI (XI XH))))))
| X77 -> Npos (XI (XI (XI (XO (XI (XI XH))))))
| X78 -> Npos (XO (XO (XO (XI (XI (XI XH))))))
| X79 -> Npos (XI (XO (XO (XI (XI (XI XH))))))
| X7a -> Npos (XO (XI (XO (XI (XI (XI XH))))))
| X7b -> Npos (XI (XI (XO (XI (XI (XI XH))))))
| X7c -> Npos (XO (XO (XI (XI (XI (XI XH))))))
| X7d -> Npos (XI (XO (XI (XI (XI (XI XH))))))
| X7e -> Npos (XO (XI (XI (XI (XI (XI XH))))))
| X7f -> Npos (XI (XI (XI (XI (XI (XI XH))))))
| X80 -> Npos (XO (XO (XO (XO (XO (XO (XO XH)))))))
| X81 -> Npos (XI (XO (XO (XO (XO (XO (XO XH)))))))
| X82 -> Npos (XO (XI (XO (XO (XO (XO (XO XH)))))))
| X83 -> Npos (XI (XI (XO (XO (XO (XO (XO XH)))))))
| X84 -> Npos (XO (XO (XI (XO (XO (XO (XO XH)))))))
| X85 -> Npos (XI (XO (XI (XO (XO (XO (XO XH)))))))
| X86 -> Npos (XO (XI (XI (XO (XO (XO (XO XH)))))))
| X87 -> Npos (XI (XI (XI (XO (XO (XO (XO XH)))))))
| X88 -> Npos (XO (XO (XO (XI (XO (XO (XO XH)))))))
| X89 -> Npos (XI (XO (XO (XI (XO (XO (XO XH)))))))
| X8a -> Npos (XO (XI (XO (XI (XO (XO (XO XH)))))))
| X8b -> Npos (XI (XI (XO (XI (XO (XO (XO XH)))))))
| X8c -> Npos (XO (XO (XI (XI (XO (XO (XO XH)))))))
| X8d -> Npos (XI (XO (XI (XI (XO (XO (XO XH)))))))
| X8e -> Npos (XO (XI (XI (XI (XO (XO (XO XH)))))))
| X8f -> Npos (XI (XI (XI (XI (XO (XO (XO XH)))))))
| X90 -> Npos (XO (XO (XO (XO (XI (XO (XO XH)))))))
| X91 -> Npos (XI (XO (XO (XO (XI (XO (XO XH)))))))
| X92 -> Npos (XO (XI (XO (XO (XI (XO (XO XH)))))))
| X93 -> Npos (XI (XI (XO (XO (XI (XO (XO XH)))))))
| X94 -> Npos (XO (XO (XI (XO (XI (XO (XO XH)))))))
| X95 -> Npos (XI (XO (XI (XO (XI (XO (XO XH)))))))
| X96 -> Npos (XO (XI (XI (XO (XI (XO (XO XH)))))))
| X97 -> Npos (XI (XI (XI (XO (XI (XO (XO XH)))))))
| X98 -> Npos (XO (XO (XO (XI (XI (XO (XO XH)))))))
| X99 -> Npos (XI (XO (XO (XI (XI (XO (XO XH)))))))
| X9a -> Npos (XO (XI (XO (XI (XI (XO (XO XH)))))))
| X9b -> Npos (XI (XI (XO (XI (XI (XO (XO XH)))))))
| X9c -> Npos (XO (XO (XI (XI (XI (XO (XO XH)))))))
| X9d -> Npos (XI (XO (XI (XI (XI (XO (XO XH)))))))
| X9e -> Npos (XO (XI (XI (XI (XI (XO (XO XH)))))))
| X9f -> Npos (XI (XI (XI (XI (XI (XO (XO XH)))))))
| Xa0 -> Npos (XO (XO (XO (XO (XO (XI (XO XH)))))))
| Xa1 -> Npos (XI (XO (XO (XO (XO (XI (XO XH)))))))
| Xa2 -> Npos (XO (XI (XO (XO (XO (XI (XO XH)))))))
| Xa3 -> Npos (XI (XI (XO (XO (XO (XI (XO XH)))))))
| Xa4 -> Npos (XO (XO (XI (XO (XO (XI (XO XH)))))))
| Xa5 -> Npos (XI (XO (XI (XO (XO (XI (XO XH)))))))
| Xa6 -> Npos (XO (XI (XI (XO (XO (XI (XO XH)))))))
| Xa7 -> Npos (XI (XI (XI (XO (XO (XI (XO XH)))))))
| Xa8 -> Npos (XO (XO (XO (XI (XO (XI (XO XH)))))))
| Xa9 -> Npos (XI (XO (XO (XI (XO (XI (XO XH)))))))
| Xaa -> Npos (XO (XI (XO (XI (XO (XI (XO XH)))))))
| Xab -> Npos (XI (XI (XO (XI (XO (XI (XO XH)))))))
| Xac -> Npos (XO (XO (XI (XI (XO (XI (XO XH)))))))
| Xad -> Npos (XI (XO (XI (XI (XO (XI (XO XH)))))))
| Xae -> Npos (XO (XI (XI (XI (XO (XI (XO XH)))))))
| Xaf -> Npos (XI (XI (XI (XI (XO (XI (XO XH)))))))
| Xb0 -> Npos (XO (XO (XO (XO (XI (XI (XO XH)))))))
| Xb1 -> Npos (XI (XO (XO (XO (XI (XI (XO XH)))))))
| Xb2 -> Npos (XO (XI (XO (XO (XI (XI (XO XH)))))))
| Xb3 -> Npos (XI (XI (XO (XO (XI (XI (XO XH)))))))
| Xb4 -> Npos (XO (XO (XI (XO (XI (XI (XO XH)))))))
| Xb5 -> Npos (XI (XO (XI (XO (XI (XI (XO XH)))))))
| Xb6 -> Npos (XO (XI (XI (XO (XI (XI (XO XH)))))))
| Xb7 -> Npos (XI (XI (XI (XO (XI (XI (XO XH)))))))
| Xb8 -> Npos (XO (XO (XO (XI (XI (XI (XO XH)))))))
| Xb9 -> Npos (XI (XO (XO (XI (XI (XI (XO XH)))))))
| Xba -> Npos (XO (XI (XO (XI (XI (XI (XO XH)))))))
| Xbb -> Npos (XI (XI (XO (XI (XI (XI (XO XH)))))))
| Xbc -> Npos (XO (XO (XI (XI (XI (XI (XO XH)))))))
| Xbd -> Npos (XI (XO (XI (XI (XI (XI (XO XH)))))))
| Xbe -> Npos (XO (XI (XI (XI (XI (XI (XO XH)))))))
| Xbf -> Npos (XI (XI (XI (XI (XI (XI (XO XH)))))))
| Xc0 -> Npos (XO (XO (XO (XO (XO (XO (XI XH)))))))
| Xc1 -> Npos (XI (XO (XO (XO (XO (XO (XI XH)))))))
| Xc2 -> Npos (XO (XI (XO (XO (XO (XO (XI XH)))))))
| Xc3 -> Npos (XI (XI (XO (XO (XO (XO (XI XH)))))))
| Xc4 -> Npos (XO (XO (XI (XO (XO (XO (XI XH)))))))
| Xc5 -> Npos (XI (XO (XI (XO (XO (XO (XI XH)))))))
| Xc6 -> Npos (XO (XI (XI (XO (XO (XO (XI XH)))))))
| Xc7 -> Npos (XI (XI (XI (XO (XO (XO (XI XH)))))))
| Xc8 -> Npos (XO (XO (XO (XI (XO (XO (XI XH)))))))
| Xc9 -> Npos (XI (XO (XO (XI (XO (XO (XI XH)))))))
| Xca -> Npos (XO (XI (XO (XI (XO (XO (XI XH)))))))
| Xcb -> Npos (XI (XI (XO (XI (XO (XO (XI XH)))))))
| Xcc -> Npos (XO (XO (XI (XI (XO (XO (XI XH)))))))
| Xcd -> Npos (XI (XO (XI (XI (XO (XO (XI XH)))))))
| Xce -> Npos (XO (XI (XI (XI (XO (XO (XI XH)))))))
| Xcf -> Npos (XI (XI (XI (XI (XO (XO (XI XH)))))))
| Xd0 -> Npos (XO (XO (XO (XO (XI (XO (XI XH)))))))
| Xd1 -> Npos (XI (XO (XO (XO (XI (XO (XI XH)))))))
| Xd2 -> Npos (XO (XI (XO (XO (XI (XO (XI XH)))))))
| Xd3 -> Npos (XI (XI (XO (XO (XI (XO (XI XH)))))))
| Xd4 -> Npos (XO (XO (XI (XO (XI (XO (XI XH)))))))
| Xd5 -> Npos (XI (XO (XI (XO (XI (XO (XI XH)))))))
| Xd6 -> Npos (XO (XI (XI (XO (XI (XO (XI XH)))))))
| Xd7 -> Npos (XI (XI (XI (XO (XI (XO (XI XH)))))))
| Xd8 -> Npos (XO (XO (XO (XI (XI (XO (XI XH)))))))
| Xd9 -> Npos (XI (XO (XO (XI (XI (XO (XI XH)))))))
| Xda -> Npos (XO (XI (XO (XI (XI (XO (XI XH)))))))
| Xdb -> Npos (XI (XI (XO (XI (XI (XO (XI XH)))))))
| Xdc -> Npos (XO (XO (XI (XI (XI (XO (XI XH)))))))
| Xdd -> Npos (XI (XO (XI (XI (XI (XO (XI XH)))))))
| Xde -> Npos (XO (XI (XI (XI (XI (XO (XI XH)))))))
| Xdf -> Npos (XI (XI (XI (XI (XI (XO (XI XH)))))))
| Xe0 -> Npos (XO (XO (XO (XO (XO (XI (XI XH)))))))
| Xe1 -> Npos (XI (XO (XO (XO (XO (XI (XI XH)))))))
| Xe2 -> Npos (XO (XI (XO (XO (XO (XI (XI XH)))))))
| Xe3 -> Npos (XI (XI (XO (XO (XO (XI (XI XH)))))))
| Xe4 -> Npos (XO (XO (XI (XO (XO (XI (XI XH)))))))
| Xe5 -> Npos (XI (XO (XI (XO (XO (XI (XI XH)))))))
| Xe6 -> Npos (XO (XI (XI (XO (XO (XI (XI XH)))))))
| Xe7 -> Npos (XI (XI (XI (XO (XO (XI (XI XH)))))))
| Xe8 -> Npos (XO (XO (XO (XI (XO (XI (XI XH)))))))
| Xe9 -> Npos (XI (XO (XO (XI (XO (XI (XI XH)))))))
| Xea -> Npos (XO (XI (XO (XI (XO (XI (XI XH)))))))
| Xeb -> Npos (XI (XI (XO (XI (XO (XI (XI XH)))))))
| Xec -> Npos (XO (XO (XI (XI (XO (XI (XI XH)))))))
| Xed -> Npos (XI (XO (XI (XI (XO (XI (XI XH)))))))
| Xee -> Npos (XO (XI (XI (XI (XO (XI (XI XH)))))))
| Xef -> Npos (XI (XI (XI (XI (XO (XI (XI XH)))))))
| Xf0 -> Npos (XO (XO (XO (XO (XI (XI (XI XH)))))))
| Xf1 -> Npos (XI (XO (XO (XO (XI (XI (XI XH)))))))
| Xf2 -> Npos (XO (XI (XO (XO (XI (XI (XI XH)))))))
| Xf3 -> Npos (XI (XI (XO (XO (XI (XI (XI XH)))))))
| Xf4 -> Npos (XO (XO (XI (XO (XI (XI (XI XH)))))))
| Xf5 -> Npos (XI (XO (XI (XO (XI (XI (XI XH)))))))
| Xf6 -> Npos (XO (XI (XI (XO (XI (XI (XI XH)))))))
| Xf7 -> Npos (XI (XI (XI (XO (XI (XI (XI XH)))))))
| Xf8 -> Npos (XO (XO (XO (XI (XI (XI (XI XH)))))))
| Xf9 -> Npos (XI (XO (XO (XI (XI (XI (XI XH)))))))
| Xfa -> Npos (XO (XI (XO (XI (XI (XI (XI XH)))))))
| Xfb -> Npos (XI (XI (XO (XI (XI (XI (XI XH)))))))
| Xfc -> Npos (XO (XO (XI (XI (XI (XI (XI XH)))))))
| Xfd -> Npos (XI (XO (XI (XI (XI (XI (XI XH)))))))
| Xfe -> Npos (XO (XI (XI (XI (XI (XI (XI XH)))))))
| Xff -> Npos (XI (XI (XI (XI (XI (XI (XI XH)))))))

(** val of_N : n -> byte option **)

let of_N = function
| N0 -> Some X00
| Npos p ->
  (match p with
   | XI p0 ->
     (match p0 with
      | XI p1 ->
        (match p1 with
         | XI p2 ->
           (match p2 with
            | XI p3 ->
              (match p3 with
               | XI p4 ->
                 (match p4 with
                  | XI p5 ->
                    (match p5 with
                     | XI p6 -> (match p6 with
                                 | XH -> Some Xff
                                 | _ -> None)
                     | XO p6 -> (match p6 with
                                 | XH -> Some Xbf
                                 | _ -> None)
                     | XH -> Some X7f)
                  | XO p5 ->
                    (match p5 with
                     | XI p6 -> (match p6 with
                                 | XH -> Some Xdf
                                 | _ -> None)
                     | XO p6 -> (match p6 with
                                 | XH -> Some X9f
                                 | _ -> None)
                     | XH -> Some X5f)
                  | XH -> Some X3f)
               | XO p4 ->
                 (match p4 with
                  | XI p5 ->
                    (match p5 with
                     | XI p6 -> (match p6 with
                                 | XH -> Some Xef
                                 | _ -> None)
                     | XO p6 -> (match p6 with
                                 | XH -> Some Xaf
                                 | _ -> None)
                     | XH -> Some X6f)
                  | XO p5 ->
                    (match p5 with
                     | XI p6 -> (match p6 with
                                 | XH -> Some Xcf
                                 | _ -> None)
                     | XO p6 -> (match p6 with
                                 | XH -> Some X8f
                                 | _ -> None)
                     | XH -> Some X4f)
                  | XH -> Some X2f)
               | XH -> Some X1f)
            | XO p3 ->
              (match p3 with
               | XI p4 ->
                 (match p4 with
                  | XI p5 ->
                    (match p5 with
                     | XI p6 -> (match p6 with
                                 | XH -> Some Xf7
                                 | _ -> None)
                     | XO p6 -> (match p6 with
                                 | XH -> Some Xb7
                                 | _ -> None)
                     | XH -> Some X77)
                  | XO p5 ->
                    (match p5 with
                     | XI p6 -> (match p6 with
                                 | XH -> Some Xd7
                                 | _ -> None)
                     | XO p6 -> (match p6 with
                                 | XH -> Some X97
                                 | _ -> None)
                     | XH -> Some X57)
                  | XH -> Some X37)
               | XO p4 ->
                 (match p4 with
                  | XI p5 ->
                    (match p5 with
                     | XI p6 -> (match p6 with
                                 | XH -> Some Xe7
                                 | _ -> None)
                     | XO p6 -> (match p6 with
                                 | XH -> Some Xa7
                                 | _ -> None)
                     | XH -> Some X67)
                  | XO p5 ->
                    (match p5 with
                     | XI p6 -> (match p6 with
                                 | XH -> Some Xc7
                                 | _ -> None)
                     | XO p6 -> (match p6 with
                                 | XH -> Some X87
                                 | _ -> None)
                     | XH -> Some X47)
                  | XH -> Some X27)
               | XH -> Some X17)
            | XH -> Some X0f)
         | XO p2 ->
           (match p2 with
            | XI p3 ->
              (match p3 with
               | XI p4 ->
                 (match p4 with
                  | XI p5 ->
                    (match p5 with
                     | XI p6 -> (match p6 with
                                 | XH -> Some Xfb
                                 | _ -> None)
                     | XO p6 -> (match p6 with
                                 | XH -> Some Xbb
                                 | _ -> None)
                     | XH -> Some X7b)
                  | XO p5 ->
                    (match p5 with
                     | XI p6 -> (match p6 with
                                 | XH -> Some Xdb
                                 | _ -> None)
                     | XO p6 -> (match p6 with
                                 | XH -> Some X9b
                                 | _ -> None)
                     | XH -> Some X5b)
                  | XH -> Some X3b)
               | XO p4 ->
                 (match p4 with
                  | XI p5 ->
                    (match p5 with
                     | XI p6 -> (match p6 with
                                 | XH -> Some Xeb
                                 | _ -> None)
                     | XO p6 -> (match p6 with
                                 | XH -> Some Xab
                                 | _ -> None)
                     | XH -> Some X6b)
                  | XO p5 ->
                    (match p5 with
                     | XI p6 -> (match p6 with
                                 | XH -> Some Xcb
                                 | _ -> None)
                     | XO p6 -> (match p6 with
                                 | XH -> Some X8b
                                 | _ -> None)
                     | XH -> Some X4b)
                  | XH -> Some X2b)
               | XH -> Some X1b)
            | XO p3 ->
              (match p3 with
               | XI p4 ->
                 (match p4 with
                  | XI p5 ->
                    (match p5 with
                     | XI p6 -> (match p6 with
                                 | XH -> Some Xf3
                                 | _ -> None)
                     | XO p6 -> (match p6 with
                                 | XH -> Some Xb3
                                 | _ -> None)
                     | XH -> Some X73)
                  | XO p5 ->
                    (match p5 with
                     | XI p6 -> (match p6 with
                                 | XH -> Some Xd3
                                 | _ -> None)
                     | XO p6 -> (match p6 with
                                 | XH -> Some X93
                                 | _ -> None)
                     | XH -> Some X53)
                  | XH -> Some X33)
               | XO p4 ->
                 (match p4 with
                  | XI p5 ->
                    (match p5 with
                     | XI p6 -> (match p6 with
                                 | XH -> Some Xe3
                                 | _ -> None)
                     | XO p6 -> (match p6 with
                                 | XH -> Some Xa3
                                 | _ -> None)
                     | XH -> Some X63)
                  | XO p5 ->
                    (match p5 with
                     | XI p6 -> (match p6 with
                                 | XH -> Some Xc3
                                 | _ -> None)
                     | XO p6 -> (match p6 with
                                 | XH -> Some X83
                                 | _ -> None)
                     | XH -> Some X43)
                  | XH -> Some X23)
               | XH -> Some X13)
            | XH -> Some X0b)
         | XH -> Some X07)
      | XO p1 ->
        (match p1 with
         | XI p2 ->
           (match p2 with
            | XI p3 ->
              (match p3 with
               | XI p4 ->
                 (match p4 with
                  | XI p5 ->
                    (match p5 with
                     | XI p6 -> (match p6 with
                                 | XH -> Some Xfd
                                 | _ -> None)
                     | XO p6 -> (match p6 with
                                 | XH -> Some Xbd
                                 | _ -> None)
                     | XH -> Some X7d)
                  | XO p5 ->
                    (match p5 with
                     | XI p6 -> (match p6 with
                                 | XH -> Some Xdd
                                 | _ -> None)
                     | XO p6 -> (match p6 with
                                 | XH -> Some X9d
                                 | _ -> None)
                     | XH -> Some X5d)
                  | XH -> Some X3d)
               | XO p4 ->
                 (match p4 with
                  | XI p5 ->
                    (match p5 with
                     | XI p6 -> (match p6 with
                                 | XH -> Some Xed
                                 | _ -> None)
                     | XO p6 -> (match p6 with
                                 | XH -> Some Xad
                                 | _ -> None)
                     | XH -> Some X6d)
                  | XO p5 ->
                    (match p5 with
                     | XI p6 -> (match p6 with
                                 | XH -> Some Xcd
                                 | _ -> None)
                     | XO p6 -> (match p6 with
                                 | XH -> Some X8d
                                 | _ -> None)
                     | XH -> Some X4d)
                  | XH -> Some X2d)
               | XH -> Some X1d)
            | XO p3 ->
              (match p3 with
               | XI p4 ->
                 (match p4 with
                  | XI p5 ->
                    (match p5 with
                     | XI p6 -> (match p6 with
                                 | XH -> Some Xf5
                                 | _ -> None)
                     | XO p6 -> (match p6 with
                                 | XH -> Some Xb5
                                 | _ -> None)
                     | XH -> Some X75)
                  | XO p5 ->
                    (match p5 with
                     | XI p6 -> (match p6 with
                                 | XH -> Some Xd5
                                 | _ -> None)
                     | XO p6 -> (match p6 with
                                 | XH -> Some X95
                                 | _ -> None)
                     | XH -> Some X55)
                  | XH -> Some X35)
               | XO p4 ->
                 (match p4 with
                  | XI p5 ->
                    (match p5 with
                     | XI p6 -> (match p6 with
                                 | XH -> Some Xe5
                                 | _ -> None)
                     | XO p6 -> (match p6 with
                                 | XH -> Some Xa5
                                 | _ -> None)
                     | XH -> Some X65)
                  | XO p5 ->
                    (match p5 with
                     | XI p6 -> (match p6 with
                                 | XH -> Some Xc5
                                 | _ -> None)
                     | XO p6 -> (match p6 with
                                 | XH -> Some X85
                                 | _ -> None)
                     | XH -> Some X45)
                  | XH -> Some X25)
               | XH -> Some X15)
            | XH -> Some X0d)
         | XO p2 ->
           (match p2 with
            | XI p3 ->
              (match p3 with
               | XI p4 ->
                 (match p4 with
                  | XI p5 ->
                    (match p5 with
                     | XI p6 -> (match p6 with
                                 | XH -> Some Xf9
                                 | _ -> None)
                     | XO p6 -> (match p6 with
                                 | XH -> Some Xb9
                                 | _ -> None)
                     | XH -> Some X79)
                  | XO p5 ->
                    (match p5 with
                     | XI p6 -> (match p6 with
                                 | XH -> Some Xd9
                                 | _ -> None)
                     | XO p6 -> (match p6 with
                                 | XH -> Some X99
                                 | _ -> None)
                     | XH -> Some X59)
                  | XH -> Some X39)
               | XO p4 ->
                 (match p4 with
                  | XI p5 ->
                    (match p5 with
                     | XI p6 -> (match p6 with
                                 | XH -> Some Xe9
                                 | _ -> None)
                     | XO p6 -> (match p6 with
                                 | XH -> Some Xa9
                                 | _ -> None)
                     | XH -> Some X69)
                  | XO p5 ->
                    (match p5 with
                     | XI p6 -> (match p6 with
                                 | XH -> Some Xc9
                                 | _ -> None)
                     | XO p6 -> (match p6 with
                                 | XH -> Some X89
                                 | _ -> None)
                     | XH -> Some X49)
                  | XH -> Some X29)
               | XH -> Some X19)
            | XO p3 ->
              (match p3 with
               | XI p4 ->
                 (match p4 with
                  | XI p5 ->
                    (match p5 with
                     | XI p6 -> (match p6 with
                                 | XH -> Some Xf1
                                 | _ -> None)
                     | XO p6 -> (match p6 with
                                 | XH -> Some Xb1
                                 | _ -> None)
                     | XH -> Some X71)
                  | XO p5 ->
                    (match p5 with
                     | XI p6 -> (match p6 with
                                 | XH -> Some Xd1
                                 | _ -> None)
                     | XO p6 -> (match p6 with
                                 | XH -> Some X91
                                 | _ -> None)
                     | XH -> Some X51)
                  | XH -> Some X31)
               | XO p4 ->
                 (match p4 with
                  | XI p5 ->
                    (match p5 with
                     | XI p6 -> (match p6 with
                                 | XH -> Some Xe1
                                 | _ -> None)
                     | XO p6 -> (match p6 with
                                 | XH -> Some Xa1
                                 | _ -> None)
                     | XH -> Some X61)
                  | XO p5 ->
                    (match p5 with
                     | XI p6 -> (match p6 with
                                 | XH -> Some Xc1
                                 | _ -> None)
                     | XO p6 -> (match p6 with
                                 | XH -> Some X81
                                 | _ -> None)
                     | XH -> Some X41)
                  | XH -> Some X21)
               | XH -> Some X11)
            | XH -> Some X09)
         | XH -> Some X05)
      | XH -> Some X03)
   | XO p0 ->
     (match p0 with
      | XI p1 ->
        (match p1 with
         | XI p2 ->
           (match p2 with
            | XI p3 ->
              (match p3 with
               | XI p4 ->
                 (match p4 with
                  | XI p5 ->
                    (match p5 with
                     | XI p6 -> (match p6 with
                                 | XH -> Some Xfe
                                 | _ -> None)
                     | XO p6 -> (match p6 with
                                 | XH -> Some Xbe
                                 | _ -> None)
                     | XH -> Some X7e)
                  | XO p5 ->
                    (match p5 with
                     | XI p6 -> (match p6 with
                                 | XH -> Some Xde
                                 | _ -> None)
                     | XO p6 -> (match p6 with
                                 | XH -> Some X9e
                                 | _ -> None)
                     | XH -> Some X5e)
                  | XH -> Some X3e)
               | XO p4 ->
                 (match p4 with
                  | XI p5 ->
                    (match p5 with
                     | XI p6 -> (match p6 with
                                 | XH -> Some Xee
                                 | _ -> None)
                     | XO p6 -> (match p6 with
                                 | XH -> Some Xae
                                 | _ -> None)
                     | XH -> Some X6e)
                  | XO p5 ->
                    (match p5 with
                     | XI p6 -> (match p6 with
                                 | XH -> Some Xce
                                 | _ -> None)
                     | XO p6 -> (match p6 with
                                 | XH -> Some X8e
                                 | _ -> None)
                     | XH -> Some X4e)
                  | XH -> Some X2e)
               | XH -> Some X1e)
            | XO p3 ->
              (match p3 with
               | XI p4 ->
                 (match p4 with
                  | XI p5 ->
                    (match p5 with
                     | XI p6 -> (match p6 with
                                 | XH -> Some Xf6
                                 | _ -> None)
                     | XO p6 -> (match p6 with
                                 | XH -> Some Xb6
                                 | _ -> None)
                     | XH -> Some X76)
                  | XO p5 ->
                    (match p5 with
                     | XI p6 -> (match p6 with
                                 | XH -> Some Xd6
                                 | _ -> None)
                     | XO p6 -> (match p6 with
                                 | XH -> Some X96
                                 | _ -> None)
                     | XH -> Some X56)
                  | XH -> Some X36)
               | XO p4 ->
                 (match p4 with
                  | XI p5 ->
                    (match p5 with
                     | XI p6 -> (match p6 with
                                 | XH -> Some Xe6
                                 | _ -> None)
                     | XO p6 -> (match p6 with
                                 | XH -> Some Xa6
                                 | _ -> None)
                     | XH -> Some X66)
                  | XO p5 ->
                    (match p5 with
                     | XI p6 -> (match p6 with
                                 | XH -> Some Xc6
                                 | _ -> None)
                     | XO p6 -> (match p6 with
                                 | XH -> Some X86
                                 | _ -> None)
                     | XH -> Some X46)
                  | XH -> Some X26)
               | XH -> Some X16)
            | XH -> Some X0e)
         | XO p2 ->
           (match p2 with
            | XI p3 ->
              (match p3 with
               | XI p4 ->
                 (match p4 with
                  | XI p5 ->
                    (match p5 with
                     | XI p6 -> (match p6 with
                                 | XH -> Some Xfa
                                 | _ -> None)
                     | XO p6 -> (match p6 with
                                 | XH -> Some Xba
                                 | _ -> None)
                     | XH -> Some X7a)
                  | XO p5 ->
                    (match p5 with
                     | XI p6 -> (match p6 with
                                 | XH -> Some Xda
                                 | _ -> None)
                     | XO p6 -> (match p6 with
                                 | XH -> Some X9a
                                 | _ -> None)
                     | XH -> Some X5a)
                  | XH -> Some X3a)
               | XO p4 ->
                 (match p4 with
                  | XI p5 ->
                    (match p5 with
                     | XI p6 -> (match p6 with
                                 | XH -> Some Xea
                                 | _ -> None)
                     | XO p6 -> (match p6 with
                                 | XH -> Some Xaa
                                 | _ -> None)
                     | XH -> Some X6a)
                  | XO p5 ->
                    (match p5 with
                     | XI p6 -> (match p6 with
                                 | XH -> Some Xca
                                 | _ -> None)
                     | XO p6 -> (match p6 with
                                 | XH -> Some X8a
                                 | _ -> None)
                     | XH -> Some X4a)
                  | XH -> Some X2a)
               | XH -> Some X1a)
            | XO p3 ->
              (match p3 with
               | XI p4 ->
                 (match p4 with
                  | XI p5 ->
                    (match p5 with
                     | XI p6 -> (match p6 with
                                 | XH -> Some Xf2
                                 | _ -> None)
                     | XO p6 -> (match p6 with
                                 | XH -> Some Xb2
                                 | _ -> None)
                     | XH -> Some X72)
                  | XO p5 ->
                    (match p5 with
                     | XI p6 -> (match p6 with
                                 | XH -> Some Xd2
                                 | _ -> None)
                     | XO p6 -> (match p6 with
                                 | XH -> Some X92
                                 | _ -> None)
                     | XH -> Some X52)
                  | XH -> Some X32)
               | XO p4 ->
                 (match p4 with
                  | XI p5 ->
                    (match p5 with
                     | XI p6 -> (match p6 with
                                 | XH -> Some Xe2
                                 | _ -> None)
                     | XO p6 -> (match p6 with
                                 | XH -> Some Xa2
                                 | _ -> None)
                     | XH -> Some X62)
                  | XO p5 ->
                    (match p5 with
                     | XI p6 -> (match p6 with
                                 | XH -> Some Xc2
                                 | _ -> None)
                     | XO p6 -> (match p6 with
                                 | XH -> Some X82
                                 | _ -> None)
                     | XH -> Some X42)
                  | XH -> Some X22)
               | XH -> Some X12)
            | XH -> Some X0a)
         | XH -> Some X06)
      | XO p1 ->
        (match p1 with
         | XI p2 ->
           (match p2 with
            | XI p3 ->
              (match p3 with
               | XI p4 ->
                 (match p4 with
                  | XI p5 ->
                    (match p5 with
                     | XI p6 -> (match p6 with
                                 | XH -> Some Xfc
                                 | _ -> None)
                     | XO p6 -> (match p6 with
                                 | XH -> Some Xbc
                                 | _ -> None)
                     | XH -> Some X7c)
                  | XO p5 ->
                    (match p5 with
                     | XI p6 -> (match p6 with
                                 | XH -> Some Xdc
                                 | _ -> None)
                     | XO p6 -> (match p6 with
                                 | XH -> Some X9c
                                 | _ -> None)
                     | XH -> Some X5c)
                  | XH -> Some X3c)
               | XO p4 ->
                 (match p4 with
                  | XI p5 ->
                    (match p5 with
                     | XI p6 -> (match p6 with
                                 | XH -> Some Xec
                                 | _ -> None)
                     | XO p6 -> (match p6 with
                                 | XH -> Some Xac
                                 | _ -> None)
                     | XH -> Some X6c)
                  | XO p5 ->
                    (match p5 with
                     | XI p6 -> (match p6 with
                                 | XH -> Some Xcc
                                 | _ -> None)
                     | XO p6 -> (match p6 with
                                 | XH -> Some X8c
                                 | _ -> None)
                     | XH -> Some X4c)
                  | XH -> Some X2c)
               | XH -> Some X1c)
            | XO p3 ->
              (match p3 with
               | XI p4 ->
                 (match p4 with
                  | XI p5 ->
                    (match p5 with
                     | XI p6 -> (match p6 with
                                 | XH -> Some Xf4
                                 | _ -> None)
                     | XO p6 -> (match p6 with
                                 | XH -> Some Xb4
                                 | _ -> None)
                     | XH -> Some X74)
                  | XO p5 ->
                    (match p5 with
                     | XI p6 -> (match p6 with
                                 | XH -> Some Xd4
                                 | _ -> None)
                     | XO p6 -> (match p6 with
                                 | XH -> Some X94
                                 | _ -> None)
                     | XH -> Some X54)
                  | XH -> Some X34)
               | XO p4 ->
                 (match p4 with
                  | XI p5 ->
                    (match p5 with
                     | XI p6 -> (match p6 with
                                 | XH -> Some Xe4
                                 | _ -> None)
                     | XO p6 -> (match p6 with
                                 | XH -> Some Xa4
                                 | _ -> None)
                     | XH -> Some X64)
                  | XO p5 ->
                    (match p5 with
                     | XI p6 -> (match p6 with
                                 | XH -> Some Xc4
                                 | _ -> None)
                     | XO p6 -> (match p6 with
                                 | XH -> Some X84
                                 | _ -> None)
                     | XH -> Some X44)
                  | XH -> Some X24)
               | XH -> Some X14)
            | XH -> Some X0c)
         | XO p2 ->
           (match p2 with
            | XI p3 ->
              (match p3 with
               | XI p4 ->
                 (match p4 with
                  | XI p5 ->
                    (match p5 with
                     | XI p6 -> (match p6 with
                                 | XH -> Some Xf8
                                 | _ -> None)
                     | XO p6 -> (match p6 with
                                 | XH -> Some Xb8
                                 | _ -> None)
                     | XH -> Some X78)
                  | XO p5 ->
                    (match p5 with
                     | XI p6 -> (match p6 with
                                 | XH -> Some Xd8
                                 | _ -> None)
                     | XO p6 -> (match p6 with
                                 | XH -> Some X98
                                 | _ -> None)
                     | XH -> Some X58)
                  | XH -> Some X38)
               | XO p4 ->
                 (match p4 with
                  | XI p5 ->
                    (match p5 with
                     | XI p6 -> (match p6 with
                                 | XH -> Some Xe8
                                 | _ -> None)
                     | XO p6 -> (match p6 with
                                 | XH -> Some Xa8
                                 | _ -> None)
                     | XH -> Some X68)
                  | XO p5 ->
                    (match p5 with
                     | XI p6 -> (match p6 with
                                 | XH -> Some Xc8
                                 | _ -> None)
                     | XO p6 -> (match p6 with
                                 | XH -> Some X88
                                 | _ -> None)
                     | XH -> Some X48)
                  | XH -> Some X28)
               | XH -> Some X18)
            | XO p3 ->
              (match p3 with
               | XI p4 ->
                 (match p4 with
                  | XI p5 ->
                    (match p5 with
                     | XI p6 -> (match p6 with
                                 | XH -> Some Xf0
                                 | _ -> None)
                     | XO p6 -> (match p6 with
                                 | XH -> Some Xb0
                                 | _ -> None)
                     | XH -> Some X70)
                  | XO p5 ->
                    (match p5 with
                     | XI p6 -> (match p6 with
                                 | XH -> Some Xd0
                                 | _ -> None)
                     | XO p6 -> (match p6 with
                                 | XH -> Some X90
                                 | _ -> None)
                     | XH -> Some X50)
                  | XH -> Some X30)
               | XO p4 ->
                 (match p4 with
                  | XI p5 ->
                    (match p5 with
                     | XI p6 -> (match p6 with
                                 | XH -> Some Xe0
                                 | _ -> None)
                     | XO p6 -> (match p6 with
                                 | XH -> Some Xa0
                                 | _ -> None)
                     | XH -> Some X60)
                  | XO p5 ->
                    (match p5 with
                     | XI p6 -> (match p6 with
                                 | XH -> Some Xc0
                                 | _ -> None)
                     | XO p6 -> (match p6 with
                                 | XH -> Some X80
                                 | _ -> None)
                     | XH -> Some X40)
                  | XH -> Some X20)
               | XH -> Some X10)
            | XH -> Some X08)
         | XH -> Some X04)
      | XH -> Some X02)
   | XH -> Some X01)

type ascii =
| Ascii of bool * bool * bool * bool * bool * bool * bool * bool

(** val byte_of_ascii : ascii -> byte **)

let byte_of_ascii = function
| Ascii (b0, b1, b2, b3, b4, b5, b6, b7) ->
  of_bits (b0, (b1, (b2, (b3, (b4, (b5, (b6, b7)))))))

type string =
| EmptyString
| String of ascii * string

(** val list_ascii_of_string : string -> ascii list **)

let rec list_ascii_of_string = function
| EmptyString -> []
| String (ch, s0) -> ch :: (list_ascii_of_string s0)

(** val list_byte_of_string : string -> byte list **)

let list_byte_of_string s =
  map byte_of_ascii (list_ascii_of_string s)

type bytes = byte list

(** val byte_eqb : byte -> byte -> bool **)

let byte_eqb a b =
  N.eqb (to_N a) (to_N b)

(** val bytes_eqb : bytes -> bytes -> bool **)

let rec bytes_eqb a b =
  match a with
  | [] -> (match b with
           | [] -> true
           | _ :: _ -> false)
  | x :: a' ->
    (match b with
     | [] -> false
     | y :: b' -> (&&) (byte_eqb x y) (bytes_eqb a' b'))

type sentinel =
| MissingOptional
| MissingMandatory
| NotInProfile
| WrongProfile
| WrongSyntax

(** val sent_eqb : sentinel -> sentinel -> bool **)

let sent_eqb a b =
  match a with
  | MissingOptional -> (match b with
                        | MissingOptional -> true
                        | _ -> false)
  | MissingMandatory -> (match b with
                         | MissingMandatory -> true
                         | _ -> false)
  | NotInProfile -> (match b with
                     | NotInProfile -> true
                     | _ -> false)
  | WrongProfile -> (match b with
                     | WrongProfile -> true
                     | _ -> false)
  | WrongSyntax -> (match b with
                    | WrongSyntax -> true
                    | _ -> false)

type goerr =
| ESent of sentinel
| EOpaque
| EWrap of goerr list

(** val err_is : goerr -> sentinel -> bool **)

let rec err_is e s =
  match e with
  | ESent t -> sent_eqb t s
  | EOpaque -> false
  | EWrap l -> existsb (fun x -> err_is x s) l

(** val wrap1 : goerr -> goerr **)

let wrap1 e =
  EWrap (e :: [])

(** val e_syntax : goerr **)

let e_syntax =
  wrap1 (ESent WrongSyntax)

(** val e_mand : goerr **)

let e_mand =
  wrap1 (ESent MissingMandatory)

type 'a res =
| Ok of 'a
| Err of goerr
| Panic

(** val sP : byte **)

let sP =
  X20

(** val split_on : byte -> bytes -> bytes -> bytes list **)

let rec split_on sep l cur =
  match l with
  | [] -> (rev cur) :: []
  | c :: l' ->
    if byte_eqb c sep
    then (rev cur) :: (split_on sep l' [])
    else split_on sep l' (c :: cur)

(** val tokens : bytes -> bytes list **)

let tokens l =
  split_on sP l []

(** val digit_val : byte -> n option **)

let digit_val c =
  let n0 = to_N c in
  if (&&) (N.leb (Npos (XO (XO (XO (XO (XI XH)))))) n0)
       (N.leb n0 (Npos (XI (XO (XO (XI (XI XH)))))))
  then Some (N.sub n0 (Npos (XO (XO (XO (XO (XI XH)))))))
  else None

(** val parse_dec_acc : bytes -> n -> n option **)

let rec parse_dec_acc l acc =
  match l with
  | [] -> Some acc
  | c :: l' ->
    (match digit_val c with
     | Some d ->
       parse_dec_acc l' (N.add (N.mul acc (Npos (XO (XI (XO XH))))) d)
     | None -> None)

(** val parse_N : bytes -> n option **)

let parse_N l = match l with
| [] -> None
| _ :: _ -> parse_dec_acc l N0

(** val byte_of_N : n -> byte **)

let byte_of_N n0 =
  match of_N n0 with
  | Some b -> b
  | None -> X00

(** val hex_digit : n -> byte **)

let hex_digit n0 =
  byte_of_N
    (if N.ltb n0 (Npos (XO (XI (XO XH))))
     then N.add (Npos (XO (XO (XO (XO (XI XH)))))) n0
     else N.add (Npos (XI (XI (XI (XO (XI (XO XH))))))) n0)

(** val hex_of_pairs : bytes -> bytes **)

let rec hex_of_pairs = function
| [] -> []
| c :: l' ->
  let n0 = to_N c in
  (hex_digit (N.div n0 (Npos (XO (XO (XO (XO XH))))))) :: ((hex_digit
                                                             (N.modulo n0
                                                               (Npos (XO (XO
                                                               (XO (XO
                                                               XH))))))) :: 
  (hex_of_pairs l'))

(** val hex_of : bytes -> bytes **)

let hex_of l = match l with
| [] -> X2e :: []
| _ :: _ -> hex_of_pairs l

(** val dec_digits : nat -> n -> bytes -> bytes **)

let rec dec_digits fuel n0 acc =
  match fuel with
  | O -> acc
  | S f ->
    let acc' =
      (byte_of_N
        (N.add (Npos (XO (XO (XO (XO (XI XH))))))
          (N.modulo n0 (Npos (XO (XI (XO XH))))))) :: acc
    in
    if N.eqb (N.div n0 (Npos (XO (XI (XO XH))))) N0
    then acc'
    else dec_digits f (N.div n0 (Npos (XO (XI (XO XH))))) acc'

(** val dec_of_N : n -> bytes **)

let dec_of_N n0 =
  dec_digits (S (S (S (S (S (S (S (S (S (S (S (S (S (S (S (S (S (S (S (S (S
    (S (S (S (S (S (S (S (S (S (S (S (S (S (S (S (S (S (S (S
    O)))))))))))))))))))))))))))))))))))))))) n0 []

(** val join_sp : bytes list -> bytes **)

let rec join_sp = function
| [] -> []
| a :: l' -> (match l' with
              | [] -> a
              | _ :: _ -> app a (sP :: (join_sp l')))

(** val bool_tok : bool -> bytes **)

let bool_tok = function
| true -> X31 :: []
| false -> X30 :: []

(** val err_bits : goerr -> bytes **)

let err_bits e =
  app (bool_tok (err_is e MissingOptional))
    (app (bool_tok (err_is e MissingMandatory))
      (app (bool_tok (err_is e NotInProfile))
        (app (bool_tok (err_is e WrongProfile))
          (bool_tok (err_is e WrongSyntax)))))

(** val s2b : string -> bytes **)

let s2b =
  list_byte_of_string

type lc_cfg = { lc_ranges : ((n * n) * n) list; lc_invalid : n;
                lc_names : (n * bytes) list; lc_default_name : bytes }

(** val lc_lookup : ((n * n) * n) list -> n -> n -> n **)

let rec lc_lookup rs v dflt =
  match rs with
  | [] -> dflt
  | p :: r ->
    let (p0, s) = p in
    let (lo, hi) = p0 in
    if (&&) (N.leb lo v) (N.leb v hi) then s else lc_lookup r v dflt

(** val lc_to_state : lc_cfg -> n -> n **)

let lc_to_state c v =
  lc_lookup c.lc_ranges v c.lc_invalid

(** val lc_is_valid : lc_cfg -> n -> bool **)

let lc_is_valid c s =
  N.ltb s c.lc_invalid

(** val assoc_N : (n * 'a1) list -> n -> 'a1 -> 'a1 **)

let rec assoc_N l k d =
  match l with
  | [] -> d
  | p :: r -> let (k', a) = p in if N.eqb k' k then a else assoc_N r k d

(** val lc_state_name : lc_cfg -> n -> bytes **)

let lc_state_name c s =
  assoc_N c.lc_names s c.lc_default_name

(** val validate_lc : lc_cfg -> n -> unit res **)

let validate_lc c v =
  if lc_is_valid c (lc_to_state c v) then Ok () else Err e_syntax

type atom =
| ABol
| AEol
| ADigits of nat
| ALit of byte
| AUnrec

type kind =
| K1
| K2

type profv =
| PStr of bytes
| POid of bytes
| PZero

type swc = { sw_mtype : bytes option; sw_mval : bytes option;
             sw_version : bytes option; sw_signer : bytes option;
             sw_mdesc : bytes option }

type claims = { c_kind : kind; c_profile : profv option; c_client : z option;
                c_lc : n option; c_impl : bytes option;
                c_boot : bytes option; c_cert : bytes option;
                c_swc : swc option list option; c_nosw : n option;
                c_nonce : bytes list option; c_inst : bytes option;
                c_vsi : bytes option; c_canon : bytes }

type claimid =
| CProfile
| CClient
| CLc
| CImpl
| CBoot
| CCert
| CSwc
| CNonce
| CInst
| CVsi

type fieldid =
| FMtype
| FMval
| FVersion
| FSigner
| FMdesc

type reid =
| RE1
| RE2

type ccfg = { impl_len : n; inst_len : n; inst_type : n; hash_lens : 
              n list; boot1_min : n; boot1_max : n; boot2_min : n;
              boot2_max : n; cc_lc : lc_cfg; re1 : atom list;
              re2 : atom list; cert_get1 : reid list; cert_set1 : reid list;
              cert_get2 : reid list; cert_set2 : reid list;
              vorder : claimid list; sworder : fieldid list; prof1 : 
              bytes; prof2 : bytes }

(** val chk : unit res -> 'a1 -> 'a1 res **)

let chk r v =
  match r with
  | Ok _ -> Ok v
  | Err e -> Err e
  | Panic -> Panic

(** val get_lc : ccfg -> claims -> n res **)

let get_lc cfg c =
  match c.c_lc with
  | Some v -> chk (validate_lc cfg.cc_lc v) v
  | None -> Err e_mand

(** val upd_lc : claims -> n option -> claims **)

let upd_lc c v =
  { c_kind = c.c_kind; c_profile = c.c_profile; c_client = c.c_client; c_lc =
    v; c_impl = c.c_impl; c_boot = c.c_boot; c_cert = c.c_cert; c_swc =
    c.c_swc; c_nosw = c.c_nosw; c_nonce = c.c_nonce; c_inst = c.c_inst;
    c_vsi = c.c_vsi; c_canon = c.c_canon }

(** val guarded : claims -> unit res -> claims -> claims * unit res **)

let guarded c r c' =
  match r with
  | Ok _ -> (c', (Ok ()))
  | _ -> (c, r)

(** val set_lc : ccfg -> claims -> n -> claims * unit res **)

let set_lc cfg c v =
  guarded c (validate_lc cfg.cc_lc v) (upd_lc c (Some v))

(** val new_p1 : ccfg -> bool -> claims **)

let new_p1 cfg include_profile =
  { c_kind = K1; c_profile =
    (if include_profile then Some (PStr cfg.prof1) else None); c_client =
    None; c_lc = None; c_impl = None; c_boot = None; c_cert = None; c_swc =
    (Some []); c_nosw = None; c_nonce = None; c_inst = None; c_vsi = None;
    c_canon = cfg.prof1 }

(** val new_p2 : ccfg -> claims **)

let new_p2 cfg =
  { c_kind = K2; c_profile = (Some (PStr cfg.prof2)); c_client = None; c_lc =
    None; c_impl = None; c_boot = None; c_cert = None; c_swc = (Some []);
    c_nosw = None; c_nonce = None; c_inst = None; c_vsi = None; c_canon =
    cfg.prof2 }

(** val tok_err : goerr -> bytes **)

let tok_err e =
  app
    (s2b (String ((Ascii (true, false, true, false, false, true, true,
      false)), EmptyString))) (err_bits e)

(** val tok_res_unit : unit res -> bytes **)

let tok_res_unit = function
| Ok _ ->
  s2b (String ((Ascii (true, true, true, true, false, true, true, false)),
    (String ((Ascii (true, true, false, true, false, true, true, false)),
    EmptyString))))
| Err e -> tok_err e
| Panic ->
  s2b (String ((Ascii (false, false, false, false, true, true, true, false)),
    (String ((Ascii (true, false, false, false, false, true, true, false)),
    (String ((Ascii (false, true, true, true, false, true, true, false)),
    (String ((Ascii (true, false, false, true, false, true, true, false)),
    (String ((Ascii (true, true, false, false, false, true, true, false)),
    EmptyString))))))))))

(** val tok_res_N : n res -> bytes **)

let tok_res_N = function
| Ok v ->
  app
    (s2b (String ((Ascii (true, true, true, true, false, true, true, false)),
      (String ((Ascii (true, true, false, true, false, true, true, false)),
      (String ((Ascii (false, true, false, true, true, true, false, false)),
      EmptyString))))))) (dec_of_N v)
| Err e -> tok_err e
| Panic ->
  s2b (String ((Ascii (false, false, false, false, true, true, true, false)),
    (String ((Ascii (true, false, false, false, false, true, true, false)),
    (String ((Ascii (false, true, true, true, false, true, true, false)),
    (String ((Ascii (true, false, false, true, false, true, true, false)),
    (String ((Ascii (true, true, false, false, false, true, true, false)),
    EmptyString))))))))))

(** val tok_opt_N : n option -> bytes **)

let tok_opt_N = function
| Some v -> dec_of_N v
| None ->
  s2b (String ((Ascii (true, true, true, true, true, false, true, false)),
    EmptyString))

(** val bad_input : bytes **)

let bad_input =
  s2b (String ((Ascii (true, true, true, true, true, true, false, false)),
    EmptyString))

(** val parse_opt_N : bytes -> n option option **)

let parse_opt_N t = match t with
| [] -> (match parse_N t with
         | Some n0 -> Some (Some n0)
         | None -> None)
| b :: l ->
  (match b with
   | X5f ->
     (match l with
      | [] -> Some None
      | _ :: _ ->
        (match parse_N t with
         | Some n0 -> Some (Some n0)
         | None -> None))
   | _ -> (match parse_N t with
           | Some n0 -> Some (Some n0)
           | None -> None))

(** val c14_profile : ccfg -> claims -> n -> n option -> bytes list **)

let c14_profile cfg c0 v pre =
  let (c1, r) = set_lc cfg (upd_lc c0 pre) v in
  (tok_res_unit r) :: ((tok_opt_N c1.c_lc) :: ((tok_res_N
                                                 (get_lc cfg
                                                   (upd_lc c0 (Some v)))) :: []))

(** val run_c14 : ccfg -> bytes list -> bytes **)

let run_c14 cfg = function
| [] -> bad_input
| tv :: l ->
  (match l with
   | [] -> bad_input
   | tp :: l0 ->
     (match l0 with
      | [] ->
        (match parse_N tv with
         | Some v ->
           (match parse_opt_N tp with
            | Some pre ->
              let st = lc_to_state cfg.cc_lc v in
              join_sp
                (app
                  ((dec_of_N st) :: ((hex_of (lc_state_name cfg.cc_lc st)) :: (
                  (bool_tok (lc_is_valid cfg.cc_lc st)) :: ((tok_res_unit
                                                              (validate_lc
                                                                cfg.cc_lc v)) :: []))))
                  (app (c14_profile cfg (new_p1 cfg true) v pre)
                    (c14_profile cfg (new_p2 cfg) v pre)))
            | None -> bad_input)
         | None -> bad_input)
      | _ :: _ -> bad_input))

(** val spec_lc : lc_cfg **)

let spec_lc =
  { lc_ranges = (((N0, (Npos (XI (XI (XI (XI (XI (XI (XI XH))))))))),
    N0) :: ((((Npos (XO (XO (XO (XO (XO (XO (XO (XO (XO (XO (XO (XO
    XH))))))))))))), (Npos (XI (XI (XI (XI (XI (XI (XI (XI (XO (XO (XO (XO
    XH)))))))))))))), (Npos XH)) :: ((((Npos (XO (XO (XO (XO (XO (XO (XO (XO
    (XO (XO (XO (XO (XO XH)))))))))))))), (Npos (XI (XI (XI (XI (XI (XI (XI
    (XI (XO (XO (XO (XO (XO XH))))))))))))))), (Npos (XO XH))) :: ((((Npos
    (XO (XO (XO (XO (XO (XO (XO (XO (XO (XO (XO (XO (XI XH)))))))))))))),
    (Npos (XI (XI (XI (XI (XI (XI (XI (XI (XO (XO (XO (XO (XI
    XH))))))))))))))), (Npos (XI XH))) :: ((((Npos (XO (XO (XO (XO (XO (XO
    (XO (XO (XO (XO (XO (XO (XO (XO XH))))))))))))))), (Npos (XI (XI (XI (XI
    (XI (XI (XI (XI (XO (XO (XO (XO (XO (XO XH)))))))))))))))), (Npos (XO (XO
    XH)))) :: ((((Npos (XO (XO (XO (XO (XO (XO (XO (XO (XO (XO (XO (XO (XI
    (XO XH))))))))))))))), (Npos (XI (XI (XI (XI (XI (XI (XI (XI (XO (XO (XO
    (XO (XI (XO XH)))))))))))))))), (Npos (XI (XO XH)))) :: ((((Npos (XO (XO
    (XO (XO (XO (XO (XO (XO (XO (XO (XO (XO (XO (XI XH))))))))))))))), (Npos
    (XI (XI (XI (XI (XI (XI (XI (XI (XO (XO (XO (XO (XO (XI
    XH)))))))))))))))), (Npos (XO (XI XH)))) :: []))))))); lc_invalid = (Npos
    (XI (XI XH))); lc_names = ((N0,
    (s2b (String ((Ascii (true, false, true, false, true, true, true,
      false)), (String ((Ascii (false, true, true, true, false, true, true,
      false)), (String ((Ascii (true, true, false, true, false, true, true,
      false)), (String ((Ascii (false, true, true, true, false, true, true,
      false)), (String ((Ascii (true, true, true, true, false, true, true,
      false)), (String ((Ascii (true, true, true, false, true, true, true,
      false)), (String ((Ascii (false, true, true, true, false, true, true,
      false)), EmptyString)))))))))))))))) :: (((Npos XH),
    (s2b (String ((Ascii (true, false, false, false, false, true, true,
      false)), (String ((Ascii (true, true, false, false, true, true, true,
      false)), (String ((Ascii (true, true, false, false, true, true, true,
      false)), (String ((Ascii (true, false, true, false, false, true, true,
      false)), (String ((Ascii (true, false, true, true, false, true, true,
      false)), (String ((Ascii (false, true, false, false, false, true, true,
      false)), (String ((Ascii (false, false, true, true, false, true, true,
      false)), (String ((Ascii (true, false, false, true, true, true, true,
      false)), (String ((Ascii (true, false, true, true, false, true, false,
      false)), (String ((Ascii (true, false, false, false, false, true, true,
      false)), (String ((Ascii (false, true, true, true, false, true, true,
      false)), (String ((Ascii (false, false, true, false, false, true, true,
      false)), (String ((Ascii (true, false, true, true, false, true, false,
      false)), (String ((Ascii (false, false, true, false, true, true, true,
      false)), (String ((Ascii (true, false, true, false, false, true, true,
      false)), (String ((Ascii (true, true, false, false, true, true, true,
      false)), (String ((Ascii (false, false, true, false, true, true, true,
      false)), EmptyString)))))))))))))))))))))))))))))))))))) :: (((Npos (XO
    XH)),
    (s2b (String ((Ascii (false, false, false, false, true, true, true,
      false)), (String ((Ascii (true, true, false, false, true, true, true,
      false)), (String ((Ascii (true, false, false, false, false, true, true,
      false)), (String ((Ascii (true, false, true, true, false, true, false,
      false)), (String ((Ascii (false, true, false, false, true, true, true,
      false)), (String ((Ascii (true, true, true, true, false, true, true,
      false)), (String ((Ascii (false, false, true, false, true, true, true,
      false)), (String ((Ascii (true, false, true, true, false, true, false,
      false)), (String ((Ascii (false, false, false, false, true, true, true,
      false)), (String ((Ascii (false, true, false, false, true, true, true,
      false)), (String ((Ascii (true, true, true, true, false, true, true,
      false)), (String ((Ascii (false, true, true, false, true, true, true,
      false)), (String ((Ascii (true, false, false, true, false, true, true,
      false)), (String ((Ascii (true, true, false, false, true, true, true,
      false)), (String ((Ascii (true, false, false, true, false, true, true,
      false)), (String ((Ascii (true, true, true, true, false, true, true,
      false)), (String ((Ascii (false, true, true, true, false, true, true,
      false)), (String ((Ascii (true, false, false, true, false, true, true,
      false)), (String ((Ascii (false, true, true, true, false, true, true,
      false)), (String ((Ascii (true, true, true, false, false, true, true,
      false)), EmptyString)))))))))))))))))))))))))))))))))))))))))) :: (((Npos
    (XI XH)),
    (s2b (String ((Ascii (true, true, false, false, true, true, true,
      false)), (String ((Ascii (true, false, true, false, false, true, true,
      false)), (String ((Ascii (true, true, false, false, false, true, true,
      false)), (String ((Ascii (true, false, true, false, true, true, true,
      false)), (String ((Ascii (false, true, false, false, true, true, true,
      false)), (String ((Ascii (true, false, true, false, false, true, true,
      false)), (String ((Ascii (false, false, true, false, false, true, true,
      false)), EmptyString)))))))))))))))) :: (((Npos (XO (XO XH))),
    (s2b (String ((Ascii (false, true, true, true, false, true, true,
      false)), (String ((Ascii (true, true, true, true, false, true, true,
      false)), (String ((Ascii (false, true, true, true, false, true, true,
      false)), (String ((Ascii (true, false, true, true, false, true, false,
      false)), (String ((Ascii (false, false, false, false, true, true, true,
      false)), (String ((Ascii (true, true, false, false, true, true, true,
      false)), (String ((Ascii (true, false, false, false, false, true, true,
      false)), (String ((Ascii (true, false, true, true, false, true, false,
      false)), (String ((Ascii (false, true, false, false, true, true, true,
      false)), (String ((Ascii (true, true, true, true, false, true, true,
      false)), (String ((Ascii (false, false, true, false, true, true, true,
      false)), (String ((Ascii (true, false, true, true, false, true, false,
      false)), (String ((Ascii (false, false, true, false, false, true, true,
      false)), (String ((Ascii (true, false, true, false, false, true, true,
      false)), (String ((Ascii (false, true, false, false, false, true, true,
      false)), (String ((Ascii (true, false, true, false, true, true, true,
      false)), (String ((Ascii (true, true, true, false, false, true, true,
      false)), EmptyString)))))))))))))))))))))))))))))))))))) :: (((Npos (XI
    (XO XH))),
    (s2b (String ((Ascii (false, true, false, false, true, true, true,
      false)), (String ((Ascii (true, false, true, false, false, true, true,
      false)), (String ((Ascii (true, true, false, false, false, true, true,
      false)), (String ((Ascii (true, true, true, true, false, true, true,
      false)), (String ((Ascii (false, true, true, false, true, true, true,
      false)), (String ((Ascii (true, false, true, false, false, true, true,
      false)), (String ((Ascii (false, true, false, false, true, true, true,
      false)), (String ((Ascii (true, false, false, false, false, true, true,
      false)), (String ((Ascii (false, true, false, false, false, true, true,
      false)), (String ((Ascii (false, false, true, true, false, true, true,
      false)), (String ((Ascii (true, false, true, false, false, true, true,
      false)), (String ((Ascii (true, false, true, true, false, true, false,
      false)), (String ((Ascii (false, false, false, false, true, true, true,
      false)), (String ((Ascii (true, true, false, false, true, true, true,
      false)), (String ((Ascii (true, false, false, false, false, true, true,
      false)), (String ((Ascii (true, false, true, true, false, true, false,
      false)), (String ((Ascii (false, true, false, false, true, true, true,
      false)), (String ((Ascii (true, true, true, true, false, true, true,
      false)), (String ((Ascii (false, false, true, false, true, true, true,
      false)), (String ((Ascii (true, false, true, true, false, true, false,
      false)), (String ((Ascii (false, false, true, false, false, true, true,
      false)), (String ((Ascii (true, false, true, false, false, true, true,
      false)), (String ((Ascii (false, true, false, false, false, true, true,
      false)), (String ((Ascii (true, false, true, false, true, true, true,
      false)), (String ((Ascii (true, true, true, false, false, true, true,
      false)), EmptyString)))))))))))))))))))))))))))))))))))))))))))))))))))) :: (((Npos
    (XO (XI XH))),
    (s2b (String ((Ascii (false, false, true, false, false, true, true,
      false)), (String ((Ascii (true, false, true, false, false, true, true,
      false)), (String ((Ascii (true, true, false, false, false, true, true,
      false)), (String ((Ascii (true, true, true, true, false, true, true,
      false)), (String ((Ascii (true, false, true, true, false, true, true,
      false)), (String ((Ascii (true, false, true, true, false, true, true,
      false)), (String ((Ascii (true, false, false, true, false, true, true,
      false)), (String ((Ascii (true, true, false, false, true, true, true,
      false)), (String ((Ascii (true, true, false, false, true, true, true,
      false)), (String ((Ascii (true, false, false, true, false, true, true,
      false)), (String ((Ascii (true, true, true, true, false, true, true,
      false)), (String ((Ascii (false, true, true, true, false, true, true,
      false)), (String ((Ascii (true, false, true, false, false, true, true,
      false)), (String ((Ascii (false, false, true, false, false, true, true,
      false)), EmptyString)))))))))))))))))))))))))))))) :: [])))))));
    lc_default_name =
    (s2b (String ((Ascii (true, false, false, true, false, true, true,
      false)), (String ((Ascii (false, true, true, true, false, true, true,
      false)), (String ((Ascii (false, true, true, false, true, true, true,
      false)), (String ((Ascii (true, false, false, false, false, true, true,
      false)), (String ((Ascii (false, false, true, true, false, true, true,
      false)), (String ((Ascii (true, false, false, true, false, true, true,
      false)), (String ((Ascii (false, false, true, false, false, true, true,
      false)), EmptyString))))))))))))))) }

(** val spec_re1 : atom list **)

let spec_re1 =
  ABol :: ((ADigits (S (S (S (S (S (S (S (S (S (S (S (S (S
    O)))))))))))))) :: (AEol :: []))

(** val spec_re2 : atom list **)

let spec_re2 =
  ABol :: ((ADigits (S (S (S (S (S (S (S (S (S (S (S (S (S
    O)))))))))))))) :: ((ALit X2d) :: ((ADigits (S (S (S (S (S
    O)))))) :: (AEol :: []))))

(** val spec_ccfg : ccfg **)

let spec_ccfg =
  { impl_len = (Npos (XO (XO (XO (XO (XO XH)))))); inst_len = (Npos (XI (XO
    (XO (XO (XO XH)))))); inst_type = (Npos XH); hash_lens = ((Npos (XO (XO
    (XO (XO (XO XH)))))) :: ((Npos (XO (XO (XO (XO (XI XH)))))) :: ((Npos (XO
    (XO (XO (XO (XO (XO XH))))))) :: []))); boot1_min = (Npos (XO (XO (XO (XO
    (XO XH)))))); boot1_max = (Npos (XO (XO (XO (XO (XO XH)))))); boot2_min =
    (Npos (XO (XO (XO XH)))); boot2_max = (Npos (XO (XO (XO (XO (XO XH))))));
    cc_lc = spec_lc; re1 = spec_re1; re2 = spec_re2; cert_get1 =
    (RE1 :: (RE2 :: [])); cert_set1 = (RE1 :: (RE2 :: [])); cert_get2 =
    (RE2 :: []); cert_set2 = (RE2 :: []); vorder =
    (CProfile :: (CLc :: (CImpl :: (CSwc :: (CNonce :: (CInst :: (CVsi :: (CClient :: (CBoot :: (CCert :: []))))))))));
    sworder =
    (FMtype :: (FMval :: (FVersion :: (FSigner :: (FMdesc :: []))))); prof1 =
    (s2b (String ((Ascii (false, false, false, false, true, false, true,
      false)), (String ((Ascii (true, true, false, false, true, false, true,
      false)), (String ((Ascii (true, false, false, false, false, false,
      true, false)), (String ((Ascii (true, true, true, true, true, false,
      true, false)), (String ((Ascii (true, false, false, true, false, false,
      true, false)), (String ((Ascii (true, true, true, true, false, false,
      true, false)), (String ((Ascii (false, false, true, false, true, false,
      true, false)), (String ((Ascii (true, true, true, true, true, false,
      true, false)), (String ((Ascii (false, false, false, false, true,
      false, true, false)), (String ((Ascii (false, true, false, false, true,
      false, true, false)), (String ((Ascii (true, true, true, true, false,
      false, true, false)), (String ((Ascii (false, true, true, false, false,
      false, true, false)), (String ((Ascii (true, false, false, true, false,
      false, true, false)), (String ((Ascii (false, false, true, true, false,
      false, true, false)), (String ((Ascii (true, false, true, false, false,
      false, true, false)), (String ((Ascii (true, true, true, true, true,
      false, true, false)), (String ((Ascii (true, false, false, false, true,
      true, false, false)), EmptyString)))))))))))))))))))))))))))))))))));
    prof2 =
    (s2b (String ((Ascii (false, false, false, true, false, true, true,
      false)), (String ((Ascii (false, false, true, false, true, true, true,
      false)), (String ((Ascii (false, false, true, false, true, true, true,
      false)), (String ((Ascii (false, false, false, false, true, true, true,
      false)), (String ((Ascii (false, true, false, true, true, true, false,
      false)), (String ((Ascii (true, true, true, true, false, true, false,
      false)), (String ((Ascii (true, true, true, true, false, true, false,
      false)), (String ((Ascii (true, false, false, false, false, true, true,
      false)), (String ((Ascii (false, true, false, false, true, true, true,
      false)), (String ((Ascii (true, false, true, true, false, true, true,
      false)), (String ((Ascii (false, true, true, true, false, true, false,
      false)), (String ((Ascii (true, true, false, false, false, true, true,
      false)), (String ((Ascii (true, true, true, true, false, true, true,
      false)), (String ((Ascii (true, false, true, true, false, true, true,
      false)), (String ((Ascii (true, true, true, true, false, true, false,
      false)), (String ((Ascii (false, false, false, false, true, true, true,
      false)), (String ((Ascii (true, true, false, false, true, true, true,
      false)), (String ((Ascii (true, false, false, false, false, true, true,
      false)), (String ((Ascii (true, true, true, true, false, true, false,
      false)), (String ((Ascii (false, true, false, false, true, true, false,
      false)), (String ((Ascii (false, true, true, true, false, true, false,
      false)), (String ((Ascii (false, false, false, false, true, true,
      false, false)), (String ((Ascii (false, true, true, true, false, true,
      false, false)), (String ((Ascii (false, false, false, false, true,
      true, false, false)),
      EmptyString))))))))))))))))))))))))))))))))))))))))))))))))) }

(** val gen_lc : lc_cfg **)

let gen_lc =
  { lc_ranges = (((N0, (Npos (XI (XI (XI (XI (XI (XI (XI XH))))))))),
    N0) :: ((((Npos (XO (XO (XO (XO (XO (XO (XO (XO (XO (XO (XO (XO
    XH))))))))))))), (Npos (XI (XI (XI (XI (XI (XI (XI (XI (XO (XO (XO (XO
    XH)))))))))))))), (Npos XH)) :: ((((Npos (XO (XO (XO (XO (XO (XO (XO (XO
    (XO (XO (XO (XO (XO XH)))))))))))))), (Npos (XI (XI (XI (XI (XI (XI (XI
    (XI (XO (XO (XO (XO (XO XH))))))))))))))), (Npos (XO XH))) :: ((((Npos
    (XO (XO (XO (XO (XO (XO (XO (XO (XO (XO (XO (XO (XI XH)))))))))))))),
    (Npos (XI (XI (XI (XI (XI (XI (XI (XI (XO (XO (XO (XO (XI
    XH))))))))))))))), (Npos (XI XH))) :: ((((Npos (XO (XO (XO (XO (XO (XO
    (XO (XO (XO (XO (XO (XO (XO (XO XH))))))))))))))), (Npos (XI (XI (XI (XI
    (XI (XI (XI (XI (XO (XO (XO (XO (XO (XO XH)))))))))))))))), (Npos (XO (XO
    XH)))) :: ((((Npos (XO (XO (XO (XO (XO (XO (XO (XO (XO (XO (XO (XO (XI
    (XO XH))))))))))))))), (Npos (XI (XI (XI (XI (XI (XI (XI (XI (XO (XO (XO
    (XO (XI (XO XH)))))))))))))))), (Npos (XI (XO XH)))) :: ((((Npos (XO (XO
    (XO (XO (XO (XO (XO (XO (XO (XO (XO (XO (XO (XI XH))))))))))))))), (Npos
    (XI (XI (XI (XI (XI (XI (XI (XI (XO (XO (XO (XO (XO (XI
    XH)))))))))))))))), (Npos (XO (XI XH)))) :: []))))))); lc_invalid = (Npos
    (XI (XI XH))); lc_names = ((N0,
    (X75 :: (X6e :: (X6b :: (X6e :: (X6f :: (X77 :: (X6e :: [])))))))) :: (((Npos
    XH),
    (X61 :: (X73 :: (X73 :: (X65 :: (X6d :: (X62 :: (X6c :: (X79 :: (X2d :: (X61 :: (X6e :: (X64 :: (X2d :: (X74 :: (X65 :: (X73 :: (X74 :: [])))))))))))))))))) :: (((Npos
    (XO XH)),
    (X70 :: (X73 :: (X61 :: (X2d :: (X72 :: (X6f :: (X74 :: (X2d :: (X70 :: (X72 :: (X6f :: (X76 :: (X69 :: (X73 :: (X69 :: (X6f :: (X6e :: (X69 :: (X6e :: (X67 :: []))))))))))))))))))))) :: (((Npos
    (XI XH)),
    (X73 :: (X65 :: (X63 :: (X75 :: (X72 :: (X65 :: (X64 :: [])))))))) :: (((Npos
    (XO (XO XH))),
    (X6e :: (X6f :: (X6e :: (X2d :: (X70 :: (X73 :: (X61 :: (X2d :: (X72 :: (X6f :: (X74 :: (X2d :: (X64 :: (X65 :: (X62 :: (X75 :: (X67 :: [])))))))))))))))))) :: (((Npos
    (XI (XO XH))),
    (X72 :: (X65 :: (X63 :: (X6f :: (X76 :: (X65 :: (X72 :: (X61 :: (X62 :: (X6c :: (X65 :: (X2d :: (X70 :: (X73 :: (X61 :: (X2d :: (X72 :: (X6f :: (X74 :: (X2d :: (X64 :: (X65 :: (X62 :: (X75 :: (X67 :: [])))))))))))))))))))))))))) :: (((Npos
    (XO (XI XH))),
    (X64 :: (X65 :: (X63 :: (X6f :: (X6d :: (X6d :: (X69 :: (X73 :: (X73 :: (X69 :: (X6f :: (X6e :: (X65 :: (X64 :: []))))))))))))))) :: [])))))));
    lc_default_name =
    (X69 :: (X6e :: (X76 :: (X61 :: (X6c :: (X69 :: (X64 :: []))))))) }

(** val gen_ccfg : ccfg **)

let gen_ccfg =
  { impl_len = (Npos (XO (XO (XO (XO (XO XH)))))); inst_len = (Npos (XI (XO
    (XO (XO (XO XH)))))); inst_type = (Npos XH); hash_lens = ((Npos (XO (XO
    (XO (XO (XO XH)))))) :: ((Npos (XO (XO (XO (XO (XI XH)))))) :: ((Npos (XO
    (XO (XO (XO (XO (XO XH))))))) :: []))); boot1_min = (Npos (XO (XO (XO (XO
    (XO XH)))))); boot1_max = (Npos (XO (XO (XO (XO (XO XH)))))); boot2_min =
    (Npos (XO (XO (XO XH)))); boot2_max = (Npos (XO (XO (XO (XO (XO XH))))));
    cc_lc = gen_lc; re1 = (ABol :: ((ADigits (S (S (S (S (S (S (S (S (S (S (S
    (S (S O)))))))))))))) :: (AEol :: []))); re2 = (ABol :: ((ADigits (S (S
    (S (S (S (S (S (S (S (S (S (S (S O)))))))))))))) :: ((ALit
    X2d) :: ((ADigits (S (S (S (S (S O)))))) :: (AEol :: []))))); cert_get1 =
    (RE1 :: (RE2 :: [])); cert_set1 = (RE1 :: (RE2 :: [])); cert_get2 =
    (RE2 :: []); cert_set2 = (RE2 :: []); vorder =
    (CProfile :: (CLc :: (CImpl :: (CSwc :: (CNonce :: (CInst :: (CVsi :: (CClient :: (CBoot :: (CCert :: []))))))))));
    sworder =
    (FMtype :: (FMval :: (FVersion :: (FSigner :: (FMdesc :: []))))); prof1 =
    (X50 :: (X53 :: (X41 :: (X5f :: (X49 :: (X4f :: (X54 :: (X5f :: (X50 :: (X52 :: (X4f :: (X46 :: (X49 :: (X4c :: (X45 :: (X5f :: (X31 :: [])))))))))))))))));
    prof2 =
    (X68 :: (X74 :: (X74 :: (X70 :: (X3a :: (X2f :: (X2f :: (X61 :: (X72 :: (X6d :: (X2e :: (X63 :: (X6f :: (X6d :: (X2f :: (X70 :: (X73 :: (X61 :: (X2f :: (X32 :: (X2e :: (X30 :: (X2e :: (X30 :: [])))))))))))))))))))))))) }

(** val run_line : ccfg -> bytes -> bytes **)

let run_line cfg line =
  match tokens line with
  | [] -> bad_input
  | p :: args ->
    if bytes_eqb p
         (s2b (String ((Ascii (true, true, false, false, false, false, true,
           false)), (String ((Ascii (true, false, false, false, true, true,
           false, false)), (String ((Ascii (false, false, true, false, true,
           true, false, false)), EmptyString)))))))
    then run_c14 cfg args
    else bad_input

(** val run_gen : bytes -> bytes **)

let run_gen line =
  run_line gen_ccfg line

(** val run_spec : bytes -> bytes **)

let run_spec line =
  run_line spec_ccfg line
