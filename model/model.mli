
type nat =
| O
| S of nat

val fst : ('a1 * 'a2) -> 'a1

val snd : ('a1 * 'a2) -> 'a2

val app : 'a1 list -> 'a1 list -> 'a1 list

type comparison =
| Eq
| Lt
| Gt

type byte =
| X00
| X01
| X02
| X03
| X04
| X05
| X06
| X07
| X08
| X09
| X0a
| X0b
| X0c
| X0d
| X0e
| X0f
| X10
| X11
| X12
| X13
| X14
| X15
| X16
| X17
| X18
| X19
| X1a
| X1b
| X1c
| X1d
| X1e
| X1f
| X20
| X21
| X22
| X23
| X24
| X25
| X26
| X27
| X28
| X29
| X2a
| X2b
| X2c
| X2d
| X2e
| X2f
| X30
| X31
| X32
| X33
| X34
| X35
| X36
| X37
| X38
| X39
| X3a
| X3b
| X3c
| X3d
| X3e
| X3f
| X40
| X41
| X42
| X43
| X44
| X45
| X46
| X47
| X48
| X49
| X4a
| X4b
| X4c
| X4d
| X4e
| X4f
| X50
| X51
| X52
| X53
| X54
| X55
| X56
| X57
| X58
| X59
| X5a
| X5b
| X5c
| X5d
| X5e
| X5f
| X60
| X61
| X62
| X63
| X64
| X65
| X66
| X67
| X68
| X69
| X6a
| X6b
| X6c
| X6d
| X6e
| X6f
| X70
| X71
| X72
| X73
| X74
| X75
| X76
| X77
| X78
| X79
| X7a
| X7b
| X7c
| X7d
| X7e
| X7f
| X80
| X81
| X82
| X83
| X84
| X85
| X86
| X87
| X88
| X89
| X8a
| X8b
| X8c
| X8d
| X8e
| X8f
| X90
| X91
| X92
| X93
| X94
| X95
| X96
| X97
| X98
| X99
| X9a
| X9b
| X9c
| X9d
| X9e
| X9f
| Xa0
| Xa1
| Xa2
| Xa3
| Xa4
| Xa5
| Xa6
| Xa7
| Xa8
| Xa9
| Xaa
| Xab
| Xac
| Xad
| Xae
| Xaf
| Xb0
| Xb1
| Xb2
| Xb3
| Xb4
| Xb5
| Xb6
| Xb7
| Xb8
| Xb9
| Xba
| Xbb
| Xbc
| Xbd
| Xbe
| Xbf
| Xc0
| Xc1
| Xc2
| Xc3
| Xc4
| Xc5
| Xc6
| Xc7
| Xc8
| Xc9
| Xca
| Xcb
| Xcc
| Xcd
| Xce
| Xcf
| Xd0
| Xd1
| Xd2
| Xd3
| Xd4
| Xd5
| Xd6
| Xd7
| Xd8
| Xd9
| Xda
| Xdb
| Xdc
| Xdd
| Xde
| Xdf
| Xe0
| Xe1
| Xe2
| Xe3
| Xe4
| Xe5
| Xe6
| Xe7
| Xe8
| Xe9
| Xea
| Xeb
| Xec
| Xed
| Xee
| Xef
| Xf0
| Xf1
| Xf2
| Xf3
| Xf4
| Xf5
| Xf6
| Xf7
| Xf8
| Xf9
| Xfa
| Xfb
| Xfc
| Xfd
| Xfe
| Xff

val of_bits :
  (bool * (bool * (bool * (bool * (bool * (bool * (bool * bool))))))) -> byte

type positive =
| XI of positive
| XO of positive
| XH

type n =
| N0
| Npos of positive

type z =
| Z0
| Zpos of positive
| Zneg of positive

module Pos :
 sig
  type mask =
  | IsNul
  | IsPos of positive
  | IsNeg
 end

module Coq_Pos :
 sig
  val succ : positive -> positive

  val add : positive -> positive -> positive

  val add_carry : positive -> positive -> positive

  val pred_double : positive -> positive

  type mask = Pos.mask =
  | IsNul
  | IsPos of positive
  | IsNeg

  val succ_double_mask : mask -> mask

  val double_mask : mask -> mask

  val double_pred_mask : positive -> mask

  val sub_mask : positive -> positive -> mask

  val sub_mask_carry : positive -> positive -> mask

  val mul : positive -> positive -> positive

  val compare_cont : comparison -> positive -> positive -> comparison

  val compare : positive -> positive -> comparison

  val eqb : positive -> positive -> bool
 end

module N :
 sig
  val succ_double : n -> n

  val double : n -> n

  val add : n -> n -> n

  val sub : n -> n -> n

  val mul : n -> n -> n

  val compare : n -> n -> comparison

  val eqb : n -> n -> bool

  val leb : n -> n -> bool

  val ltb : n -> n -> bool

  val pos_div_eucl : positive -> n -> n * n

  val div_eucl : n -> n -> n * n

  val div : n -> n -> n

  val modulo : n -> n -> n
 end

val rev : 'a1 list -> 'a1 list

val map : ('a1 -> 'a2) -> 'a1 list -> 'a2 list

val existsb : ('a1 -> bool) -> 'a1 list -> bool

val to_N : byte -> n

val of_N : n -> byte option

type ascii =
| Ascii of bool * bool * bool * bool * bool * bool * bool * bool

val byte_of_ascii : ascii -> byte

type string =
| EmptyString
| String of ascii * string

val list_ascii_of_string : string -> ascii list

val list_byte_of_string : string -> byte list

type bytes = byte list

val byte_eqb : byte -> byte -> bool

val bytes_eqb : bytes -> bytes -> bool

type sentinel =
| MissingOptional
| MissingMandatory
| NotInProfile
| WrongProfile
| WrongSyntax

val sent_eqb : sentinel -> sentinel -> bool

type goerr =
| ESent of sentinel
| EOpaque
| EWrap of goerr list

val err_is : goerr -> sentinel -> bool

val wrap1 : goerr -> goerr

val e_syntax : goerr

val e_mand : goerr

type 'a res =
| Ok of 'a
| Err of goerr
| Panic

val sP : byte

val split_on : byte -> bytes -> bytes -> bytes list

val tokens : bytes -> bytes list

val digit_val : byte -> n option

val parse_dec_acc : bytes -> n -> n option

val parse_N : bytes -> n option

val byte_of_N : n -> byte

val hex_digit : n -> byte

val hex_of_pairs : bytes -> bytes

val hex_of : bytes -> bytes

val dec_digits : nat -> n -> bytes -> bytes

val dec_of_N : n -> bytes

val join_sp : bytes list -> bytes

val bool_tok : bool -> bytes

val err_bits : goerr -> bytes

val s2b : string -> bytes

type lc_cfg = { lc_ranges : ((n * n) * n) list; lc_invalid : n;
                lc_names : (n * bytes) list; lc_default_name : bytes }

val lc_lookup : ((n * n) * n) list -> n -> n -> n

val lc_to_state : lc_cfg -> n -> n

val lc_is_valid : lc_cfg -> n -> bool

val assoc_N : (n * 'a1) list -> n -> 'a1 -> 'a1

val lc_state_name : lc_cfg -> n -> bytes

val validate_lc : lc_cfg -> n -> unit res

type atom =
| ABol
| AEol
| ADigits of nat
| ALit of byte
| AUnrec

type kind =
| K1
| K2

type profv =
| PStr of bytes
| POid of bytes
| PZero

type swc = { sw_mtype : bytes option; sw_mval : bytes option;
             sw_version : bytes option; sw_signer : bytes option;
             sw_mdesc : bytes option }

type claims = { c_kind : kind; c_profile : profv option; c_client : z option;
                c_lc : n option; c_impl : bytes option;
                c_boot : bytes option; c_cert : bytes option;
                c_swc : swc option list option; c_nosw : n option;
                c_nonce : bytes list option; c_inst : bytes option;
                c_vsi : bytes option; c_canon : bytes }

type claimid =
| CProfile
| CClient
| CLc
| CImpl
| CBoot
| CCert
| CSwc
| CNonce
| CInst
| CVsi

type fieldid =
| FMtype
| FMval
| FVersion
| FSigner
| FMdesc

type reid =
| RE1
| RE2

type ccfg = { impl_len : n; inst_len : n; inst_type : n; hash_lens : 
              n list; boot1_min : n; boot1_max : n; boot2_min : n;
              boot2_max : n; cc_lc : lc_cfg; re1 : atom list;
              re2 : atom list; cert_get1 : reid list; cert_set1 : reid list;
              cert_get2 : reid list; cert_set2 : reid list;
              vorder : claimid list; sworder : fieldid list; prof1 : 
              bytes; prof2 : bytes }

val chk : unit res -> 'a1 -> 'a1 res

val get_lc : ccfg -> claims -> n res

val upd_lc : claims -> n option -> claims

val guarded : claims -> unit res -> claims -> claims * unit res

val set_lc : ccfg -> claims -> n -> claims * unit res

val new_p1 : ccfg -> bool -> claims

val new_p2 : ccfg -> claims

val tok_err : goerr -> bytes

val tok_res_unit : unit res -> bytes

val tok_res_N : n res -> bytes

val tok_opt_N : n option -> bytes

val bad_input : bytes

val parse_opt_N : bytes -> n option option

val c14_profile : ccfg -> claims -> n -> n option -> bytes list

val run_c14 : ccfg -> bytes list -> bytes

val spec_lc : lc_cfg

val spec_re1 : atom list

val spec_re2 : atom list

val spec_ccfg : ccfg

val gen_lc : lc_cfg

val gen_ccfg : ccfg

val run_line : ccfg -> bytes -> bytes

val run_gen : bytes -> bytes

val run_spec : bytes -> bytes
