package main

func genEffects(p, enc *pkgInfo, out string)   {}
func genEmbedded(enc *pkgInfo, out string)     {}
