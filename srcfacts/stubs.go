package main

func genEmbedded(enc *pkgInfo, out string) {}
