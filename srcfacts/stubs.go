package main

func genTags(p *pkgInfo, out string)           {}
func genEffects(p, enc *pkgInfo, out string)   {}
func genEmbedded(enc *pkgInfo, out string)     {}
