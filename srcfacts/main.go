// srcfacts: the source-fact translator.  Parses the non-test Go sources of
// /repo with go/parser and regenerates the Coq tables under coq/gen that
// the model is instantiated with.  Pattern based and tolerant: an
// unrecognised shape is reported in gen_unrecognised (and the affected
// table is left empty) instead of aborting.
package main

import (
	"bytes"
	"fmt"
	"go/ast"
	"go/constant"
	"go/parser"
	"go/token"
	"os"
	"path/filepath"
	"sort"
	"strconv"
	"strings"
)

type pkgInfo struct {
	fset  *token.FileSet
	files map[string]*ast.File
	funcs map[string]*ast.FuncDecl // "Recv.Name" or "Name"
	cons  map[string]constant.Value
	vars  map[string]ast.Expr // package-level var initialisers
}

var unrec []string

func note(s string) { unrec = append(unrec, s) }

func load(dir string, skip map[string]bool) *pkgInfo {
	p := &pkgInfo{fset: token.NewFileSet(), files: map[string]*ast.File{}, funcs: map[string]*ast.FuncDecl{},
		cons: map[string]constant.Value{}, vars: map[string]ast.Expr{}}
	ents, err := os.ReadDir(dir)
	if err != nil {
		fmt.Fprintln(os.Stderr, "srcfacts:", err)
		os.Exit(2)
	}
	for _, e := range ents {
		n := e.Name()
		if e.IsDir() || !strings.HasSuffix(n, ".go") || strings.HasSuffix(n, "_test.go") || skip[n] {
			continue
		}
		f, err := parser.ParseFile(p.fset, filepath.Join(dir, n), nil, parser.ParseComments)
		if err != nil {
			fmt.Fprintln(os.Stderr, "srcfacts: parse error:", err)
			os.Exit(2)
		}
		// honour build constraints crudely: skip files guarded by the verif tag
		skipFile := false
		for _, cg := range f.Comments {
			if cg.Pos() < f.Package && strings.Contains(cg.Text(), "go:build verif") {
				skipFile = true
			}
		}
		if skipFile {
			continue
		}
		p.files[n] = f
	}
	names := []string{}
	for n := range p.files {
		names = append(names, n)
	}
	sort.Strings(names)
	for _, n := range names {
		f := p.files[n]
		for _, d := range f.Decls {
			switch d := d.(type) {
			case *ast.FuncDecl:
				key := d.Name.Name
				if d.Recv != nil && len(d.Recv.List) == 1 {
					key = recvName(d.Recv.List[0].Type) + "." + key
				}
				p.funcs[key] = d
			case *ast.GenDecl:
				if d.Tok == token.CONST {
					p.constBlock(d)
				}
				if d.Tok == token.VAR {
					for _, s := range d.Specs {
						vs := s.(*ast.ValueSpec)
						for i, nm := range vs.Names {
							if i < len(vs.Values) {
								p.vars[nm.Name] = vs.Values[i]
							} else if len(vs.Values) == 1 {
								p.vars[nm.Name] = vs.Values[0]
							}
						}
					}
				}
			}
		}
	}
	return p
}

func recvName(e ast.Expr) string {
	switch t := e.(type) {
	case *ast.StarExpr:
		return recvName(t.X)
	case *ast.Ident:
		return t.Name
	case *ast.IndexExpr:
		return recvName(t.X)
	case *ast.IndexListExpr:
		return recvName(t.X)
	}
	return "?"
}

// constBlock evaluates a const declaration block including iota.
func (p *pkgInfo) constBlock(d *ast.GenDecl) {
	var lastExprs []ast.Expr
	for idx, s := range d.Specs {
		vs := s.(*ast.ValueSpec)
		exprs := vs.Values
		if len(exprs) == 0 {
			exprs = lastExprs
		} else {
			lastExprs = exprs
		}
		for i, nm := range vs.Names {
			if i >= len(exprs) {
				continue
			}
			if v, ok := p.eval(exprs[i], int64(idx)); ok {
				p.cons[nm.Name] = v
			}
		}
	}
}

func (p *pkgInfo) eval(e ast.Expr, iota int64) (constant.Value, bool) {
	switch t := e.(type) {
	case *ast.BasicLit:
		v := constant.MakeFromLiteral(t.Value, t.Kind, 0)
		return v, v.Kind() != constant.Unknown
	case *ast.Ident:
		if t.Name == "iota" {
			return constant.MakeInt64(iota), true
		}
		v, ok := p.cons[t.Name]
		return v, ok
	case *ast.ParenExpr:
		return p.eval(t.X, iota)
	case *ast.CallExpr: // conversion such as byte(24) or LifeCycleState(3)
		if len(t.Args) == 1 {
			return p.eval(t.Args[0], iota)
		}
	case *ast.BinaryExpr:
		a, ok1 := p.eval(t.X, iota)
		b, ok2 := p.eval(t.Y, iota)
		if ok1 && ok2 {
			switch t.Op {
			case token.ADD, token.SUB, token.MUL, token.QUO, token.REM, token.AND, token.OR, token.XOR:
				if t.Op == token.QUO && a.Kind() == constant.Int && b.Kind() == constant.Int {
					if constant.Sign(b) == 0 {
						return nil, false
					}
					return constant.BinaryOp(a, token.QUO_ASSIGN, b), true
				}
				return constant.BinaryOp(a, t.Op, b), true
			case token.SHL, token.SHR:
				if s, ok := constant.Uint64Val(b); ok {
					return constant.Shift(a, t.Op, uint(s)), true
				}
			}
		}
	case *ast.UnaryExpr:
		a, ok := p.eval(t.X, iota)
		if ok {
			return constant.UnaryOp(t.Op, a, 0), true
		}
	}
	return nil, false
}

func (p *pkgInfo) evalN(e ast.Expr) (string, bool) {
	v, ok := p.eval(e, 0)
	if !ok || v.Kind() != constant.Int || constant.Sign(v) < 0 {
		return "", false
	}
	return v.ExactString(), true
}

func (p *pkgInfo) src(n ast.Node) string {
	var b bytes.Buffer
	_ = b
	pos := p.fset.Position(n.Pos())
	end := p.fset.Position(n.End())
	data, err := os.ReadFile(pos.Filename)
	if err != nil {
		return ""
	}
	return string(data[pos.Offset:end.Offset])
}

// ---------------------------------------------------------------- Coq printing

func coqBytes(s string) string {
	// as a list of byte constructors: robust for any content
	var sb strings.Builder
	sb.WriteString("[")
	for i := 0; i < len(s); i++ {
		if i > 0 {
			sb.WriteString("; ")
		}
		fmt.Fprintf(&sb, "x%02x", s[i])
	}
	sb.WriteString("]")
	return sb.String()
}

func coqList(items []string) string { return "[" + strings.Join(items, "; ") + "]" }

// ---------------------------------------------------------------- lifecycle

func stmtsOf(fd *ast.FuncDecl) []ast.Stmt {
	if fd == nil || fd.Body == nil {
		return nil
	}
	return fd.Body.List
}

// if v >= A && v <= B { return S }
func (p *pkgInfo) lifecycleRanges() (rows []string, dflt string, ok bool) {
	fd := p.funcs["LifeCycleToState"]
	st := stmtsOf(fd)
	if len(st) == 0 || len(fd.Type.Params.List) != 1 || len(fd.Type.Params.List[0].Names) != 1 {
		return nil, "", false
	}
	arg := fd.Type.Params.List[0].Names[0].Name
	for i, s := range st {
		if i == len(st)-1 {
			r, isRet := s.(*ast.ReturnStmt)
			if !isRet || len(r.Results) != 1 {
				return nil, "", false
			}
			d, okd := p.evalN(r.Results[0])
			if !okd {
				return nil, "", false
			}
			return rows, d, true
		}
		is, isIf := s.(*ast.IfStmt)
		if !isIf || is.Init != nil || is.Else != nil || len(is.Body.List) != 1 {
			return nil, "", false
		}
		be, isB := is.Cond.(*ast.BinaryExpr)
		if !isB || be.Op != token.LAND {
			return nil, "", false
		}
		lo, ok1 := p.cmpBound(be.X, arg, token.GEQ)
		hi, ok2 := p.cmpBound(be.Y, arg, token.LEQ)
		if !ok1 || !ok2 {
			// tolerate the operands written in the other order
			lo, ok1 = p.cmpBound(be.Y, arg, token.GEQ)
			hi, ok2 = p.cmpBound(be.X, arg, token.LEQ)
			if !ok1 || !ok2 {
				return nil, "", false
			}
		}
		r, isRet := is.Body.List[0].(*ast.ReturnStmt)
		if !isRet || len(r.Results) != 1 {
			return nil, "", false
		}
		sv, oks := p.evalN(r.Results[0])
		if !oks {
			return nil, "", false
		}
		rows = append(rows, fmt.Sprintf("(%s, %s, %s)", lo, hi, sv))
	}
	return nil, "", false
}

// arg OP const   (or const OP' arg)
func (p *pkgInfo) cmpBound(e ast.Expr, arg string, op token.Token) (string, bool) {
	be, ok := e.(*ast.BinaryExpr)
	if !ok {
		return "", false
	}
	flip := map[token.Token]token.Token{token.GEQ: token.LEQ, token.LEQ: token.GEQ, token.LSS: token.GTR, token.GTR: token.LSS}
	if id, isId := be.X.(*ast.Ident); isId && id.Name == arg && be.Op == op {
		return p.evalN(be.Y)
	}
	if id, isId := be.Y.(*ast.Ident); isId && id.Name == arg && be.Op == flip[op] {
		return p.evalN(be.X)
	}
	return "", false
}

// IsValid: return o < StateInvalid
func (p *pkgInfo) lifecycleInvalid() (string, bool) {
	fd := p.funcs["LifeCycleState.IsValid"]
	st := stmtsOf(fd)
	if len(st) != 1 || fd.Recv == nil || len(fd.Recv.List[0].Names) != 1 {
		return "", false
	}
	r, ok := st[0].(*ast.ReturnStmt)
	if !ok || len(r.Results) != 1 {
		return "", false
	}
	return p.cmpBound(r.Results[0], fd.Recv.List[0].Names[0].Name, token.LSS)
}

func (p *pkgInfo) lifecycleNames() (rows []string, dflt string, ok bool) {
	fd := p.funcs["LifeCycleState.String"]
	st := stmtsOf(fd)
	if len(st) != 1 {
		return nil, "", false
	}
	sw, isSw := st[0].(*ast.SwitchStmt)
	if !isSw || sw.Init != nil {
		return nil, "", false
	}
	if id, isId := sw.Tag.(*ast.Ident); !isId || fd.Recv == nil || len(fd.Recv.List[0].Names) != 1 || id.Name != fd.Recv.List[0].Names[0].Name {
		return nil, "", false
	}
	haveD := false
	for _, c := range sw.Body.List {
		cc := c.(*ast.CaseClause)
		if len(cc.Body) != 1 {
			return nil, "", false
		}
		r, isRet := cc.Body[0].(*ast.ReturnStmt)
		if !isRet || len(r.Results) != 1 {
			return nil, "", false
		}
		v, okv := p.eval(r.Results[0], 0)
		if !okv || v.Kind() != constant.String {
			return nil, "", false
		}
		name := constant.StringVal(v)
		if cc.List == nil {
			dflt = name
			haveD = true
			continue
		}
		for _, e := range cc.List {
			k, okk := p.evalN(e)
			if !okk {
				return nil, "", false
			}
			rows = append(rows, fmt.Sprintf("(%s, %s)", k, coqBytes(name)))
		}
	}
	return rows, dflt, haveD
}

// ---------------------------------------------------------------- validators

// l := len(v); if l != K { return fmt.Errorf("%w...", ErrWrongSyntax, ...) }
// returns the list of K's of a pure "l != a && l != b" test
func (p *pkgInfo) lenNeqSet(fd *ast.FuncDecl) ([]string, bool) {
	for _, s := range stmtsOf(fd) {
		is, ok := s.(*ast.IfStmt)
		if !ok {
			continue
		}
		ks, ok := p.neqConj(is.Cond)
		if ok && returnsErr(is.Body) {
			return ks, true
		}
	}
	return nil, false
}

func (p *pkgInfo) neqConj(e ast.Expr) ([]string, bool) {
	be, ok := e.(*ast.BinaryExpr)
	if !ok {
		return nil, false
	}
	if be.Op == token.LAND {
		a, ok1 := p.neqConj(be.X)
		b, ok2 := p.neqConj(be.Y)
		if ok1 && ok2 {
			return append(a, b...), true
		}
		return nil, false
	}
	if be.Op == token.NEQ && isLenVar(be.X) {
		k, okk := p.evalN(be.Y)
		if okk {
			return []string{k}, true
		}
	}
	return nil, false
}

// the identifier l (assigned from len(...)) or a direct len(...) call
func isLenVar(e ast.Expr) bool {
	switch t := e.(type) {
	case *ast.Ident:
		return t.Name == "l"
	case *ast.CallExpr:
		if id, ok := t.Fun.(*ast.Ident); ok && id.Name == "len" {
			return true
		}
	}
	return false
}

func returnsErr(b *ast.BlockStmt) bool {
	if len(b.List) != 1 {
		return false
	}
	r, ok := b.List[0].(*ast.ReturnStmt)
	if !ok || len(r.Results) == 0 {
		return false
	}
	last := r.Results[len(r.Results)-1]
	if id, ok := last.(*ast.Ident); ok && id.Name == "nil" {
		return false
	}
	return true
}

// bounds of a length test: "l != K" => (K,K); "l < A || l > B" => (A,B)
func (p *pkgInfo) lenBounds(fd *ast.FuncDecl) (string, string, bool) {
	for _, s := range stmtsOf(fd) {
		is, ok := s.(*ast.IfStmt)
		if !ok || !returnsErr(is.Body) {
			continue
		}
		be, ok := is.Cond.(*ast.BinaryExpr)
		if !ok {
			continue
		}
		if be.Op == token.NEQ && isLenVar(be.X) {
			if k, okk := p.evalN(be.Y); okk {
				return k, k, true
			}
		}
		if be.Op == token.LOR {
			x, ok1 := be.X.(*ast.BinaryExpr)
			y, ok2 := be.Y.(*ast.BinaryExpr)
			if ok1 && ok2 && x.Op == token.LSS && y.Op == token.GTR && isLenVar(x.X) && isLenVar(y.X) {
				a, oka := p.evalN(x.Y)
				b, okb := p.evalN(y.Y)
				if oka && okb {
					return a, b, true
				}
			}
		}
	}
	return "", "", false
}

// ValidateInstID: "l != InstIDLen" then "v[0] != 0x01"
func (p *pkgInfo) instType(fd *ast.FuncDecl) (string, bool) {
	seenLen := false
	for _, s := range stmtsOf(fd) {
		is, ok := s.(*ast.IfStmt)
		if !ok || !returnsErr(is.Body) {
			continue
		}
		be, ok := is.Cond.(*ast.BinaryExpr)
		if !ok || be.Op != token.NEQ {
			continue
		}
		if isLenVar(be.X) {
			seenLen = true
			continue
		}
		if ix, ok := be.X.(*ast.IndexExpr); ok && seenLen {
			if i, oki := p.evalN(ix.Index); oki && i == "0" {
				return p.evalN(be.Y)
			}
		}
	}
	return "", false
}

// ---------------------------------------------------------------- regexes

// parse the fragment of Go regexp syntax psatoken uses into atoms
func regexAtoms(pat string) []string {
	var out []string
	i := 0
	digits := func(n int) { out = append(out, fmt.Sprintf("ADigits %d", n)) }
	for i < len(pat) {
		c := pat[i]
		isDigitClass := false
		adv := 0
		switch {
		case c == '^':
			out = append(out, "ABol")
			i++
			continue
		case c == '$':
			out = append(out, "AEol")
			i++
			continue
		case c == '\\' && i+1 < len(pat) && pat[i+1] == 'd':
			isDigitClass, adv = true, 2
		case strings.HasPrefix(pat[i:], "[0-9]"):
			isDigitClass, adv = true, 5
		case c == '\\' && i+1 < len(pat) && strings.ContainsRune(`\.+*?()|[]{}^$-`, rune(pat[i+1])):
			out = append(out, fmt.Sprintf("ALit x%02x", pat[i+1]))
			i += 2
			continue
		case strings.ContainsRune(`\.+*?()|[]{}`, rune(c)) || c >= 0x80:
			return []string{"AUnrec"}
		default:
			out = append(out, fmt.Sprintf("ALit x%02x", c))
			i++
			continue
		}
		if isDigitClass {
			i += adv
			n := 1
			if i < len(pat) && pat[i] == '{' {
				j := strings.IndexByte(pat[i:], '}')
				if j < 0 {
					return []string{"AUnrec"}
				}
				v, err := strconv.Atoi(pat[i+1 : i+j])
				if err != nil || v > 1000 {
					return []string{"AUnrec"}
				}
				n = v
				i += j + 1
			}
			if i < len(pat) && strings.ContainsRune("*+?", rune(pat[i])) {
				return []string{"AUnrec"}
			}
			digits(n)
		}
	}
	return out
}

func (p *pkgInfo) regexVar(name string) []string {
	e, ok := p.vars[name]
	if !ok {
		note("regex " + name)
		return []string{"AUnrec"}
	}
	call, ok := e.(*ast.CallExpr)
	if !ok || len(call.Args) != 1 {
		note("regex " + name)
		return []string{"AUnrec"}
	}
	if sel, ok := call.Fun.(*ast.SelectorExpr); !ok || sel.Sel.Name != "MustCompile" {
		note("regex " + name)
		return []string{"AUnrec"}
	}
	v, ok := p.eval(call.Args[0], 0)
	if !ok || v.Kind() != constant.String {
		note("regex " + name)
		return []string{"AUnrec"}
	}
	a := regexAtoms(constant.StringVal(v))
	if len(a) == 1 && a[0] == "AUnrec" {
		note("regex " + name + " pattern")
	}
	return a
}

// which regexes a certification-reference accessor consults:
// the condition must be a conjunction of negated X.MatchString(..) calls
func (p *pkgInfo) certSet(key string) (string, bool) {
	fd := p.funcs[key]
	for _, s := range stmtsOf(fd) {
		is, ok := s.(*ast.IfStmt)
		if !ok || !returnsErr(is.Body) {
			continue
		}
		names, ok := negMatchConj(is.Cond)
		if !ok {
			continue
		}
		var ids []string
		for _, n := range names {
			switch n {
			case "CertificationReferenceP1RE":
				ids = append(ids, "RE1")
			case "CertificationReferenceP2RE":
				ids = append(ids, "RE2")
			default:
				return "", false
			}
		}
		return coqList(ids), true
	}
	return "", false
}

func negMatchConj(e ast.Expr) ([]string, bool) {
	switch t := e.(type) {
	case *ast.BinaryExpr:
		if t.Op != token.LAND {
			return nil, false
		}
		a, ok1 := negMatchConj(t.X)
		b, ok2 := negMatchConj(t.Y)
		if ok1 && ok2 {
			return append(a, b...), true
		}
	case *ast.ParenExpr:
		return negMatchConj(t.X)
	case *ast.UnaryExpr:
		if t.Op != token.NOT {
			return nil, false
		}
		call, ok := t.X.(*ast.CallExpr)
		if !ok {
			return nil, false
		}
		sel, ok := call.Fun.(*ast.SelectorExpr)
		if !ok || sel.Sel.Name != "MatchString" {
			return nil, false
		}
		if id, ok := sel.X.(*ast.Ident); ok {
			return []string{id.Name}, true
		}
	}
	return nil, false
}

// ---------------------------------------------------------------- validation order

// a straight sequence of
//   if err := FilterError(c.GetX()); err != nil { return fmt.Errorf("...%w", err) }
// followed by return nil
func (p *pkgInfo) walkOrder(fn string, names map[string]string) (string, bool) {
	fd := p.funcs[fn]
	st := stmtsOf(fd)
	if len(st) < 2 {
		return "", false
	}
	var ids []string
	for i, s := range st {
		if i == len(st)-1 {
			r, ok := s.(*ast.ReturnStmt)
			if !ok || len(r.Results) != 1 {
				return "", false
			}
			if id, ok := r.Results[0].(*ast.Ident); !ok || id.Name != "nil" {
				return "", false
			}
			break
		}
		is, ok := s.(*ast.IfStmt)
		if !ok || is.Else != nil || is.Init == nil {
			return "", false
		}
		as, ok := is.Init.(*ast.AssignStmt)
		if !ok || len(as.Rhs) != 1 || len(as.Lhs) != 1 {
			return "", false
		}
		errName := as.Lhs[0].(*ast.Ident).Name
		call, ok := as.Rhs[0].(*ast.CallExpr)
		if !ok || len(call.Args) != 1 {
			return "", false
		}
		if id, ok := call.Fun.(*ast.Ident); !ok || id.Name != "FilterError" {
			return "", false
		}
		inner, ok := call.Args[0].(*ast.CallExpr)
		if !ok || len(inner.Args) != 0 {
			return "", false
		}
		sel, ok := inner.Fun.(*ast.SelectorExpr)
		if !ok {
			return "", false
		}
		id, known := names[sel.Sel.Name]
		if !known {
			return "", false
		}
		// cond: err != nil
		be, ok := is.Cond.(*ast.BinaryExpr)
		if !ok || be.Op != token.NEQ {
			return "", false
		}
		if x, ok := be.X.(*ast.Ident); !ok || x.Name != errName {
			return "", false
		}
		// body: return fmt.Errorf("... %w", err) -- exactly one %w, applied to err
		if len(is.Body.List) != 1 {
			return "", false
		}
		r, ok := is.Body.List[0].(*ast.ReturnStmt)
		if !ok || len(r.Results) != 1 {
			return "", false
		}
		ec, ok := r.Results[0].(*ast.CallExpr)
		if !ok || len(ec.Args) != 2 {
			return "", false
		}
		if sel2, ok := ec.Fun.(*ast.SelectorExpr); !ok || sel2.Sel.Name != "Errorf" {
			return "", false
		}
		fv, ok := p.eval(ec.Args[0], 0)
		if !ok || fv.Kind() != constant.String || strings.Count(constant.StringVal(fv), "%w") != 1 || strings.Count(constant.StringVal(fv), "%") != 1 {
			return "", false
		}
		if x, ok := ec.Args[1].(*ast.Ident); !ok || x.Name != errName {
			return "", false
		}
		ids = append(ids, id)
	}
	return coqList(ids), true
}

// ---------------------------------------------------------------- main

func orUnrec(v string, ok bool, what, dflt string) string {
	if !ok {
		note(what)
		return dflt
	}
	return v
}

func writeIfChanged(path, content string) {
	old, err := os.ReadFile(path)
	if err == nil && string(old) == content {
		return
	}
	if err := os.WriteFile(path, []byte(content), 0o644); err != nil {
		fmt.Fprintln(os.Stderr, "srcfacts:", err)
		os.Exit(2)
	}
}

func main() {
	if len(os.Args) != 3 {
		fmt.Fprintln(os.Stderr, "usage: srcfacts <repo> <outdir>")
		os.Exit(2)
	}
	repo, out := os.Args[1], os.Args[2]
	skip := map[string]bool{"test_common.go": true, "pretty_test_vectors.go": true}
	root := load(repo, skip)
	enc := load(filepath.Join(repo, "encoding"), nil)

	genConsts(root, out)
	genTags(root, out)
	genErrSites(root, out)
	genEffects(root, enc, out)
	genEmbedded(enc, out)
}

func genConsts(p *pkgInfo, out string) {
	unrec = nil
	var b strings.Builder
	b.WriteString("(* GENERATED by srcfacts from /repo -- do not edit *)\n")
	b.WriteString("From Coq Require Import String.\nFrom PSA Require Import Base Lines Lifecycle Regex Claims.\nOpen Scope N_scope.\n\n")

	rows, dflt, ok := p.lifecycleRanges()
	if !ok {
		note("LifeCycleToState")
		rows, dflt = nil, "0"
	}
	inv := orUnrec(firstOK(p.lifecycleInvalid()), okOf(p.lifecycleInvalid()), "LifeCycleState.IsValid", "0")
	names, dname, okn := p.lifecycleNames()
	if !okn {
		note("LifeCycleState.String")
		names, dname = nil, ""
	}
	// the default of LifeCycleToState must be the StateInvalid the IsValid test uses
	if ok && dflt != inv {
		note("LifeCycleToState default differs from IsValid bound")
	}
	fmt.Fprintf(&b, "Definition gen_lc : lc_cfg := {|\n  lc_ranges := %s;\n  lc_invalid := %s;\n  lc_names := %s;\n  lc_default_name := %s\n|}.\n\n",
		coqList(rows), inv, coqList(names), coqBytes(dname))

	cN := func(name string) string {
		v, ok := p.cons[name]
		if !ok || v.Kind() != constant.Int {
			note("const " + name)
			return "0"
		}
		return v.ExactString()
	}
	cS := func(name string) string {
		v, ok := p.cons[name]
		if !ok || v.Kind() != constant.String {
			note("const " + name)
			return "[]"
		}
		return coqBytes(constant.StringVal(v))
	}
	implLen := cN("ImplIDLen")
	instLen := cN("InstIDLen")
	// the validators must actually use these constants
	if lo, hi, ok := p.lenBounds(p.funcs["ValidateImplID"]); !ok || lo != implLen || hi != implLen {
		note("ValidateImplID")
	}
	if lo, hi, ok := p.lenBounds(p.funcs["ValidateInstID"]); !ok || lo != instLen || hi != instLen {
		note("ValidateInstID length")
	}
	instType := orUnrec(firstOK(p.instType(p.funcs["ValidateInstID"])), okOf(p.instType(p.funcs["ValidateInstID"])), "ValidateInstID type byte", "0")
	hl, okh := p.lenNeqSet(p.funcs["ValidatePSAHashType"])
	if !okh {
		note("ValidatePSAHashType")
	}
	b1lo, b1hi, ok1 := p.lenBounds(p.funcs["P1Claims.GetBootSeed"])
	s1lo, s1hi, ok1s := p.lenBounds(p.funcs["P1Claims.SetBootSeed"])
	if !ok1 || !ok1s || b1lo != s1lo || b1hi != s1hi {
		note("P1 boot seed bounds (getter/setter)")
		b1lo, b1hi = "0", "0"
	}
	b2lo, b2hi, ok2 := p.lenBounds(p.funcs["P2Claims.GetBootSeed"])
	s2lo, s2hi, ok2s := p.lenBounds(p.funcs["P2Claims.SetBootSeed"])
	if !ok2 || !ok2s || b2lo != s2lo || b2hi != s2hi {
		note("P2 boot seed bounds (getter/setter)")
		b2lo, b2hi = "0", "0"
	}
	re1 := p.regexVar("CertificationReferenceP1RE")
	re2 := p.regexVar("CertificationReferenceP2RE")
	cg1 := orUnrec(firstOK(p.certSet("P1Claims.GetCertificationReference")), okOf(p.certSet("P1Claims.GetCertificationReference")), "P1 GetCertificationReference", "[]")
	cs1 := orUnrec(firstOK(p.certSet("P1Claims.SetCertificationReference")), okOf(p.certSet("P1Claims.SetCertificationReference")), "P1 SetCertificationReference", "[]")
	cg2 := orUnrec(firstOK(p.certSet("P2Claims.GetCertificationReference")), okOf(p.certSet("P2Claims.GetCertificationReference")), "P2 GetCertificationReference", "[]")
	cs2 := orUnrec(firstOK(p.certSet("P2Claims.SetCertificationReference")), okOf(p.certSet("P2Claims.SetCertificationReference")), "P2 SetCertificationReference", "[]")

	claimNames := map[string]string{"GetProfile": "CProfile", "GetClientID": "CClient", "GetSecurityLifeCycle": "CLc", "GetImplID": "CImpl",
		"GetBootSeed": "CBoot", "GetCertificationReference": "CCert", "GetSoftwareComponents": "CSwc", "GetNonce": "CNonce", "GetInstID": "CInst", "GetVSI": "CVsi"}
	fieldNames := map[string]string{"GetMeasurementType": "FMtype", "GetMeasurementValue": "FMval", "GetVersion": "FVersion", "GetSignerID": "FSigner", "GetMeasurementDesc": "FMdesc"}
	vo := orUnrec(firstOK(p.walkOrder("ValidateClaims", claimNames)), okOf(p.walkOrder("ValidateClaims", claimNames)), "ValidateClaims", "[]")
	so := orUnrec(firstOK(p.walkOrder("ValidateSwComponent", fieldNames)), okOf(p.walkOrder("ValidateSwComponent", fieldNames)), "ValidateSwComponent", "[]")

	fmt.Fprintf(&b, "Definition gen_ccfg : ccfg := {|\n  impl_len := %s; inst_len := %s; inst_type := %s; hash_lens := %s;\n", implLen, instLen, instType, coqList(hl))
	fmt.Fprintf(&b, "  boot1_min := %s; boot1_max := %s; boot2_min := %s; boot2_max := %s;\n  cc_lc := gen_lc;\n", b1lo, b1hi, b2lo, b2hi)
	fmt.Fprintf(&b, "  re1 := %s; re2 := %s;\n", coqList(re1), coqList(re2))
	fmt.Fprintf(&b, "  cert_get1 := %s; cert_set1 := %s; cert_get2 := %s; cert_set2 := %s;\n", cg1, cs1, cg2, cs2)
	fmt.Fprintf(&b, "  vorder := %s;\n  sworder := %s;\n", vo, so)
	fmt.Fprintf(&b, "  prof1 := %s; prof2 := %s\n|}.\n\n", cS("Profile1Name"), cS("Profile2Name"))

	var us []string
	for _, u := range unrec {
		us = append(us, strconv.Quote(u))
	}
	fmt.Fprintf(&b, "Definition gen_consts_unrecognised : list string := %s%%string.\n", coqList(us))
	writeIfChanged(filepath.Join(out, "GenConsts.v"), b.String())
}

func firstOK(v string, ok bool) string { return v }
func okOf(v string, ok bool) bool     { return ok }
