HOOK_COMMITS = []
NOT_YET = {}
TEXT = {
 'C01': dict(
  text='Machine-checked proof (Coq) that, for EVERY claims-set of either profile (any field values, nil containers and nil component elements included), the operational model of ValidateClaims -- the getter walk in the order read from /repo, FilterError, the regular-expression matcher -- returns success exactly when the declarative predicate [conformant] transcribed from the property text holds, never panics, depends on nothing the rules do not mention, and that after success every mandatory getter yields a conformant value and every optional getter a conformant value or the missing-optional error; the two regular expressions are proved to denote EAN-13 / EAN-13+5. Constants, ranges, regex ASTs, accessor regex sets and both validation orders are regenerated from /repo on every run and proved equal to the specified tables; the real Validate() and all ten getters are compared with the model on ~20 000 (quick) / ~1 000 000 (thorough) directly constructed claims-sets.',
  note='Trusted: Coq kernel, srcfacts, extraction + glue (kernel-evaluated sample cross-check), Go harness. The getter control flow is hand-modelled (theories/Claims.v) and tied by the correspondence; eat.Profile / eat.Nonce are modelled. No axioms.',
  technique='Coq proof of biconditional (operational validator <-> declarative predicate) + generated-table tie + differential correspondence',
  design_ref='DESIGN.md 6/C01'),
 'C14': dict(
  text='Machine-checked proof (Coq) that the lifecycle mapping of the model, instantiated with the specified range table, returns for EVERY value the state of its 256-value page and the invalid state otherwise, that validator/setters/getters of both profiles accept iff that state is not invalid, and that state names are the specified strings; the range table, state numbering and names are regenerated from /repo by srcfacts on every run and proved equal to the specified ones (ties/TieConsts.v); in addition the real library is run on all 65 536 values (fresh and preloaded claims-sets) and compared with the model, so the tie is exhaustive for this property.',
  note='Trusted: Coq kernel, srcfacts translator, extraction (ExtrOcamlBasic) + OCaml glue (cross-checked by a kernel-evaluated sample), Go harness. No axioms.',
  technique='Coq proof (lia over N with div) + generated-table tie + exhaustive differential correspondence',
  design_ref='DESIGN.md 6/C14'),
}
