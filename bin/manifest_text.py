HOOK_COMMITS = []
NOT_YET = {}
TEXT = {
 'C14': dict(
  text='Machine-checked proof (Coq) that the lifecycle mapping of the model, instantiated with the specified range table, returns for EVERY value the state of its 256-value page and the invalid state otherwise, that validator/setters/getters of both profiles accept iff that state is not invalid, and that state names are the specified strings; the range table, state numbering and names are regenerated from /repo by srcfacts on every run and proved equal to the specified ones (ties/TieConsts.v); in addition the real library is run on all 65 536 values (fresh and preloaded claims-sets) and compared with the model, so the tie is exhaustive for this property.',
  note='Trusted: Coq kernel, srcfacts translator, extraction (ExtrOcamlBasic) + OCaml glue (cross-checked by a kernel-evaluated sample), Go harness. No axioms.',
  technique='Coq proof (lia over N with div) + generated-table tie + exhaustive differential correspondence',
  design_ref='DESIGN.md 6/C14'),
}
