#!/usr/bin/env python3
"""Regenerates MANIFEST.json from bin/props.py (claimed properties) and
bin/manifest_text.py (level texts)."""
import json, os, sys
sys.path.insert(0, os.path.dirname(os.path.abspath(__file__)))
import props as P
import manifest_text as T

ALL = ['C%02d' % i for i in range(1, 21)]
checks = []
for pid in ALL:
    if pid not in P.PROPS:
        continue
    t = T.TEXT[pid]
    checks.append(dict(
        property_id=pid,
        quick_cmd='bin/check %s --tier quick' % pid,
        thorough_cmd='bin/check %s --tier thorough' % pid,
        evidence_file='/verif/evidence/%s.json' % pid,
        replay_cmd_template='bin/check %s --replay {path}' % pid,
        engine='coq-model+srcfacts+correspondence',
        level_claimed=dict(category=P.PROPS[pid].get('level', 'proof'), text=t['text'], design_ref=t.get('design_ref', 'DESIGN.md section 6')),
        level_note=t['note'],
        technique=t['technique'],
    ))
na = [dict(property_id=pid, reason=T.NOT_YET.get(pid, 'check not built yet in this revision of /verif (work in progress; see DESIGN.md section 6 for the planned theorem and tie)')) for pid in ALL if pid not in P.PROPS]
m = dict(
    version=1,
    setup_cmd='bin/check --setup',
    hooks=dict(guard='verif', enable='go build -tags verif (the harness module replaces github.com/veraison/psatoken with /repo)',
               baseline_off_cmd="cd /repo && go test -mod=mod -json -vet=off -count=1 -timeout 25m ./...",
               source_commits=T.HOOK_COMMITS, add_only=True),
    engines=[dict(name='coq-model+srcfacts+correspondence', path='/verif/coq, /verif/srcfacts, /verif/harness, /verif/model, /verif/bin',
                  serves_properties=[c['property_id'] for c in checks],
                  kind_free_text='Coq 8.16 model + theorems; go/parser translator regenerating model tables from /repo; differential correspondence between the real library and the extracted / kernel-evaluated model')],
    checks=checks,
    notes='See DESIGN.md. Fixed defects and open findings are listed in known_findings.json.',
    not_applicable=na,
)
json.dump(m, open(os.path.join(os.path.dirname(os.path.dirname(os.path.abspath(__file__))), 'MANIFEST.json'), 'w'), indent=1)
print('claimed', len(checks), 'not claimed', len(na))
