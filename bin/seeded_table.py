#!/usr/bin/env python3
"""Print the DESIGN.md table of seeded changes from seeded/*/meta.json."""
import json, glob, os, re
V = os.path.dirname(os.path.dirname(os.path.abspath(__file__)))
rows = []
for f in sorted(glob.glob(os.path.join(V, 'seeded', '*', 'meta.json'))):
    m = json.load(open(f))
    title = re.sub(r'^C\d\d\s*(/|variant)?\s*(change|variant)?\s*[A-D]?\s*[—:\-–]*\s*', '', m['title']).strip()
    title = title.replace('|', '/')
    det = []
    for p, c in m.get('checks', {}).items():
        if c['detected']:
            det.append('%s%s' % (p, ' (no failing input: obligation only)' if c['no_failing_input_found'] else ''))
        else:
            det.append('%s: missed' % p)
    rows.append('| %s | %s | %s |' % (m['id'], title[:140], '; '.join(det)))
print('| id | change | quick check that reports it |')
print('|---|---|---|')
print('\n'.join(rows))
