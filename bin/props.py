"""Per-property configuration of bin/check: proof cone, comparison relation,
non-triviality rule, input classification, known-finding signatures."""
import hashlib, json, os, re, subprocess, time

HARNESS_TIMEOUT = {'quick': 420, 'thorough': 7200}

# files whose failure means the executable model itself does not build
MODEL_FILES = ['theories/Base.v', 'theories/Lines.v', 'theories/Lifecycle.v', 'theories/Regex.v', 'theories/Claims.v',
               'theories/Obs.v', 'theories/CaseClaims.v', 'theories/RunC14.v', 'theories/RunHist.v', 'theories/RunCodec.v', 'theories/RunEv.v', 'theories/RunCose.v', 'theories/RunEmb.v', 'theories/Embedded.v', 'theories/RunReg.v', 'theories/Registry.v', 'theories/Json.v', 'theories/JsonCodec.v', 'theories/RunJson.v', 'theories/Purity.v', 'theories/Effects.v', 'theories/RunPur.v', 'theories/Conc.v', 'theories/RunConc.v', 'gen/GenEffects.v', 'theories/Evidence.v', 'theories/Gates.v', 'theories/Cose.v', 'theories/Cbor.v', 'theories/Utf8.v', 'theories/Tags.v', 'theories/Wire.v', 'theories/Codec.v', 'theories/Run.v', 'gen/GenTags.v', 'spec/SpecTags.v', 'spec/SpecTables.v', 'gen/GenConsts.v']

TRUSTED_BASE = [
    'Coq 8.16.1 kernel (coqc; vm_compute used in tie obligations; no native_compute)',
    'axioms: none declared; Print Assumptions output of every property theorem is recorded under coverage.axioms',
    'srcfacts (go/parser pattern translator regenerating coq/gen/*.v from /repo on every run)',
    'extraction: ExtrOcamlBasic only (Extract Inductive bool/option/unit/list/prod/sumbool/sumor, inlined andb/orb/negb), no Extract Constant; OCaml 4.13.1; glue model/main.ml (byte <-> char by constructor index, checked at start-up)',
    'kernel-evaluated subset (vm_compute inside coqc) cross-checks the extracted runner on every run',
    'Go harness (harness/*.go): input construction, errors.Is bits, recover(); bin/check + bin/props.py comparison',
    'modelled, not verified: fxamacker/cbor, veraison/eat, veraison/go-cose, encoding/json, regexp, reflect, Go runtime',
]


def _c14_nontrivial(inp, obs):
    # non-trivial: the value is not a plainly valid one on a fresh claims-set
    f = inp.split(' ')
    return obs.split(' ')[2] == '0' or f[2] != '_'


def _c14_class(inp, obs):
    f = inp.split(' ')
    o = obs.split(' ')
    return 'state=%s pre=%s' % (o[0], 'none' if f[2] == '_' else ('same' if f[2] == f[1] else 'other'))


def _c01_nontrivial(inp, obs):
    # non-trivial: the claims-set is NOT accepted, or some getter fails
    return not all(t.startswith('ok') for t in obs.split(' '))


def _c01_class(inp, obs):
    f = inp.split(' ')
    o = obs.split(' ')
    return 'P%s validate=%s' % (f[1], 'ok' if o[0] == 'ok' else ('panic' if o[0] == 'panic' else 'err'))


CLAIMS_CONE = ['theories/LifecycleProofs.v', 'theories/RegexProofs.v', 'theories/ClaimsProofs.v', 'ties/TieConsts.v']

def _hist_nontrivial(inp, obs):
    # non-trivial: at least one call in the history was rejected, or the final claims-set does not validate
    return ' e' in obs or ' panic' in obs


def _hist_class(inp, obs):
    f = inp.split(' ')
    if f[0] == 'FILT':
        return 'filter ' + obs.split(' ')[0]
    if f[0] == 'C01':
        return 'getters P' + f[1]
    nops = len(f) - (2 if f[0] == 'HIST' else 14)
    b = 'ops=1' if nops <= 1 else ('ops=2-10' if nops <= 10 else 'ops=11+')
    return '%s %s %s' % (f[0], f[1] if f[0] == 'HIST' else 'P' + f[1], b)


def _utf8_ok(h):
    if h in ('_', '.'):
        return True
    try:
        bytes.fromhex(h).decode('utf-8')
        return True
    except Exception:
        return False


def _claims_texts_utf8(tok):
    """tok: the 13 claims tokens of a case line"""
    ok = _utf8_ok(tok[6]) and _utf8_ok(tok[11])
    if tok[0] == '1' and tok[1].startswith('s'):
        ok = ok and _utf8_ok(tok[1][1:])
    sw = tok[7]
    if sw.startswith('['):
        for comp in sw[1:-1].split(';'):
            f = comp.split(',')
            if len(f) == 5:
                ok = ok and _utf8_ok(f[0]) and _utf8_ok(f[2]) and _utf8_ok(f[4])
    return ok


def _c08_oracle(inp, obs, extra):
    if inp.startswith('RTJ '):
        return _c12_oracle(inp, obs, extra)
    if inp.startswith('XGATE '):
        o = dict(t.split('=', 1) for t in obs.split(' ') if '=' in t)
        if 'panic' in obs:
            return 'a gate panicked on an extension profile'
        v = o.get('v')
        if o.get('de') != 'ok':
            return None
        for g in ('dve', 'dvc', 'vec', 'dvj', 'set'):
            if g in o and o[g] != v:
                return 'gate %s of an extension profile says %s while the profile\'s Validate() says %s' % (g, o[g], v)
    return None


def _c17_oracle(inp, obs, extra):
    """C17 on the implementation: the concurrent run must equal the sequential run, nothing may panic"""
    if not inp.startswith('CONC'):
        return None
    o = obs.split(' ')
    if o[-1] != 'conc=same':
        return 'results of the concurrent run differ from the sequential run of the same programs (%s)' % o[-1]
    if 'panic' in o:
        return 'a call panicked in the concurrent run'
    return None


def _c18_oracle(inp, obs, extra):
    """C18 on the implementation's own observations: nothing changed, repeated calls agree"""
    f = inp.split(' ')
    if f[0] != 'PUR':
        return None
    ops = f[15:]
    o = obs.split(' ')[1:]
    seen = {}
    for op, res in zip(ops, o):
        if '/' not in res:
            continue
        val, st = res.rsplit('/', 1)
        if st != 'same':
            return 'the call %s changed an object (%s)' % (op, st)
        if val == 'panic':
            return 'the call %s panicked' % op
        if op in seen and seen[op] != val:
            return 'the call %s returned different results when repeated' % op
        seen[op] = val
    return None


def _c12_oracle(inp, obs, extra):
    """C12 evaluated on the implementation's own observations of an RTJ case"""
    f = inp.split(' ')
    # the implementation-level facts travel in the observation's own " ## " suffix
    obs, _, iextra = obs.partition(' ## ')
    if f[0] != 'RTJ' or not iextra:
        return None
    ex = dict(t.split('=', 1) for t in iextra.split(' ') if '=' in t)
    if ex.get('ev') == '0':
        return 'Evidence.MarshalJSON / repeated EncodeClaimsToJSON differ from EncodeClaimsToJSON'
    if ex.get('gate') == '0':
        return 'a validating JSON entry point disagrees with its non-validating twin followed by Validate'
    p1 = '5053415f494f545f50524f46494c455f31'
    p2 = '687474703a2f2f61726d2e636f6d2f7073612f322e302e30'
    if f[1] == '1' and f[13] != p1:
        return None
    if f[1] == '2' and (f[13] != p2 or f[2] != 's' + p2):
        return None
    orig = ex.get('orig', '').split('|')
    if not orig or orig[0] != 'ok':
        return None
    o = obs.split(' ')
    if o[0] == 'err':
        return 'a valid claims-set failed to encode to JSON'
    if len(o) < 2 or o[1] != 'ok':
        return 'the JSON encoding of a valid claims-set is rejected by DecodeClaimsFromJSON'
    if o[2:13] != orig:
        return 'getter results differ after the JSON round trip: %s vs %s' % (' '.join(o[2:13]), ' '.join(orig))
    cr = [t for t in o if t.startswith('cross=')]
    if cr and cr[0] != 'cross=same':
        return 'CBOR -> claims -> JSON -> claims -> CBOR does not reproduce the bytes (%s)' % cr[0]
    return None


def _c09_oracle(inp, obs, extra):
    """the property itself, evaluated on the implementation's observations of an RT case"""
    f = inp.split(' ')
    if f[0] != 'RT':
        return None
    o = obs.split(' ')
    if len(o) < 12:
        return None
    # domain: claims-sets of a built-in profile (canonical name = the profile's own; a profile-2 set declares profile 2)
    p1 = '5053415f494f545f50524f46494c455f31'
    p2 = '687474703a2f2f61726d2e636f6d2f7073612f322e302e30'
    if f[1] == '1' and f[13] != p1:
        return None
    if f[1] == '2' and (f[13] != p2 or f[2] != 's' + p2):
        return None
    orig, enc = o[:11], o[11]
    valid = orig[0] == 'ok'
    if enc == 'err':
        return 'a valid claims-set failed to encode' if valid else None
    if enc == 'panic':
        return 'encoder panicked'
    if len(o) < 13:
        return None
    if o[12] != 'ok':
        return 'the encoder emitted bytes that the decoder rejects (%s)' % o[12]
    dec_getters = o[12 + 1 + 13: 12 + 1 + 13 + 11]
    if dec_getters != orig:
        return 'getter results differ after decode(encode(c)): %s vs %s' % (' '.join(orig)[:200], ' '.join(dec_getters)[:200])
    if valid and o[-1] != enc:
        return 're-encoding a valid claims-set is not byte-stable'
    return None


def _c09_signature(v):
    f = v['input'].split(' ')
    if f[0] == 'RT' and len(f) >= 14 and not _claims_texts_utf8(f[1:14]) and 'rejects' in v.get('want', ''):
        return 'K2'
    return None


def _c04_oracle(inp, obs, extra):
    if not inp.startswith('DEC ') or 'lenient=1' not in extra:
        return None
    o = obs.split(' ')
    if o[0] == 'ok' and len(o) > 14 and o[14] == 'ok':
        return 'token accepted by decode-and-validate although a known key carries the wrong CBOR type (array for a byte string / simple value for an integer)'
    return None


def _c04_signature(v):
    if v.get('kind') == 'oracle' and 'wrong CBOR type' in v.get('want', ''):
        return 'K1'
    return None


WIRE_CONE = CLAIMS_CONE + ['theories/CborProofs.v', 'theories/WireProofs.v', 'theories/CodecProofs.v', 'theories/FormatProofs.v', 'ties/TieTags.v']
EV_CONE = WIRE_CONE + ['theories/EvidenceProofs.v']

COSE_CONE = ['theories/CborProofs.v', 'theories/CoseProofs.v', 'ties/TieTags.v', 'ties/TieConsts.v']

def _c05_oracle(inp, obs, extra):
    core = obs.partition(' ## ')[0]
    if core.startswith('panic') or ' panic' in core or '=P' in core or '/P' in core or 'PANIC' in core:
        return 'a decoding entry point (or a follow-up operation on what it returned) panicked: ' + ' '.join(t for t in core.split(' ') if 'P' in t or 'panic' in t)[:200]
    return None


def _c06_oracle(inp, obs, extra):
    import re
    m = re.search(r'## alloc=(\d+) len=(\d+)(?: ms=(\d+))?', obs)
    if not m:
        return None
    alloc, n, ms = int(m.group(1)), int(m.group(2)), int(m.group(3) or 0)
    if alloc > (1 << 20) + 1024 * n:
        return 'allocated %d bytes for an input of %d bytes (bound: 1 MiB + 1 KiB per byte)' % (alloc, n)
    if ms > 5000:
        return 'took %d ms (bound 5 s)' % ms
    return _c05_oracle(inp, obs, extra)


EMB_CONE = ['theories/CborProofs.v', 'theories/EmbeddedProofs.v']

REG_CONE = WIRE_CONE + ['theories/RegistryProofs.v']

PROPS = {
    'C07': dict(
        cone=REG_CONE + ['theories/JsonProofs.v', 'theories/JsonRoundtrip.v', 'theories/JsonCross.v'], level='proof', kernel_maxlen=2500,
        nontrivial=lambda i, o: 'err' in o, classify=lambda i, o: 'regs=%d' % sum(1 for t in i.split(' ') if t.startswith('r')),
        rule='every combination of the profile claim under key 265 / member eat-profile and under key -75000 / member psa-profile (absent, null, the two built-in names, three extension names, an unregistered URL, a non-normalised spelling of the profile-2 name, an integer) on complete valid profile-1 and profile-2 bodies, in CBOR and in JSON, under four register configurations (no extension, one, two, three extension profiles; profile-2-based ones sharing eat-profile, a profile-1-based one sharing psa-profile), plus NewClaims for every name, plus random histories; each history in its own process; observed: error or (dynamic type, GetProfile result, Validate result); JSON dispatch repeated 64 times per token; non-trivial = some step is an error',
    ),
    'C16': dict(
        cone=REG_CONE, level='proof', kernel_maxlen=2500,
        nontrivial=lambda i, o: 'err' in o, classify=lambda i, o: 'regs=%d' % sum(1 for t in i.split(' ') if t.startswith('r')),
        rule='random histories of 4..17 operations over {register extension profile (two profile-2-based sharing eat-profile, one profile-1-based sharing psa-profile, one without profile field, one re-using the profile-2 name), re-register, NewClaims(any name), DecodeClaimsFromCBOR / JSON of tokens with every kind of profile claim, mutate-the-first-instance-through-all-setters-and-re-read-the-others}; each history in its own process (registration is permanent); every JSON dispatch repeated 64 times (map iteration order); non-trivial = some step is an error',
        assumptions=['instance independence is a fact about the Go heap: observed (indep=1), not proved'],
    ),
    'C05': dict(
        cone=CLAIMS_CONE + ['theories/SetterProofs.v'] + EMB_CONE, level='proof', oracle=_c05_oracle, kernel=False, rlimit_as=8 << 30,
        nontrivial=lambda i, o: True, classify=lambda i, o: 'len<%d' % (1 << (len(i.split(' ')[1]) // 2).bit_length()),
        rule='every decoding entry point (DecodeEvidenceFromCOSE, DecodeAndValidate*, DecodeClaimsFromCBOR/JSON, P1Claims/P2Claims/SwComponents.UnmarshalCBOR/JSON on registry-made and zero structs, encoding.PopulateStructFromCBOR/JSON on five struct shapes) on the same bytes, and on whatever decodes: Validate, every getter, CBOR and JSON encoding (plain and validating), Verify with five keys, MarshalJSON, GetInstanceID/GetImplementationID, re-serialise; inputs: valid CBOR / JSON / COSE tokens of both profiles and struct-shaped maps with truncation at every (quick: ~120) offset, 22 substitutions of each of the first 24 bytes, random 1..3-byte edits, null / empty / duplicate / type-swapped members for every claim key and inside components (also wrapped in an envelope), hostile JSON (duplicate members, null members, wrong types), odd CBOR heads; observed per entry point: value / error / panic; distinct = distinct input',
        assumptions=['third-party decoders (fxamacker/cbor, encoding/json, go-cose, eat) never panic: assumed, exercised by this sweep'],
    ),
    'C06': dict(
        cone=EMB_CONE + ['theories/EmbeddedBound.v'], level='proof', oracle=_c06_oracle, kernel=False, rlimit_as=8 << 30,
        nontrivial=lambda i, o: True, classify=lambda i, o: i.split(' ')[0],
        rule='headers declaring 2^8..2^32-1 map / array / byte-string / text lengths (4- and 8-byte heads) followed by 0..16 bytes, bare, self-described-tagged, as a claim value, as a component list and inside a COSE envelope; nesting to depth 20 000 (CBOR arrays / maps / tags, JSON arrays / objects); 60 KB numbers and strings in JSON; valid tokens padded to 64 KiB; maps with thousands of entries; through every decoding entry point (ALL) and the hand-rolled reader (FROM); measured in a single-goroutine process under RLIMIT_AS 8 GiB: TotalAlloc delta against 1 MiB + 1 KiB per input byte, wall time against 5 s',
        assumptions=['allocation behaviour of fxamacker/cbor, encoding/json, go-cose behind their well-formedness pre-check: assumed, measured'],
    ),
    'C15': dict(
        cone=EMB_CONE + ['theories/EmbeddedRoundtrip.v', 'theories/EmbeddedFlat.v', 'theories/EmbeddedDeep.v'], level='proof', kernel_maxlen=3000,
        nontrivial=lambda i, o: True, classify=lambda i, o: ' '.join(i.split(' ')[:2]) if not i.startswith('FMAP') else 'FMAP',
        rule='entry counts 0..40, 250..260, 65530..65540, 70000 (thorough: step 97 in between) through the build-tagged hook (Add / ToCBOR / FromCBOR: header bytes, total length, round trip); seven struct shapes (flat with untagged and "-" fields, one and two levels of embedded struct, embedded interface holding a struct pointer or nil, duplicate key across levels, all-optional) x random values x random subsets of set fields through SerializeStructToCBOR (bytes compared with the model) and SerializeStructToJSON (stable output, populate round trip, same map as encoding/json and as the plain CBOR marshaller for the flat shape); PopulateStructFromCBOR on hand-assembled maps with missing / duplicate / unknown keys, wrong value types, indefinite length, tags, trailing bytes',
    ),
    'C02': dict(
        cone=COSE_CONE, level='proof', kernel_maxlen=2500,
        nontrivial=lambda i, o: i.split(' ')[3] != i.split(' ')[4], classify=lambda i, o: o,
        rule='tokens signed with five real keys (ES256 x2, ES384, EdDSA, PS256) for claims-sets of both profiles: every single-bit flip (quick: a third of the bytes plus the head region; thorough: all), truncation at ~60 offsets, every splice of payload / protected header / signature between any two tokens (verified with either key), signature replaced by random bytes / emptied, payload or protected header emptied or nil, random multi-byte edits, verification with each of the five keys; observed: DecodeEvidenceFromCOSE result and Verify result, compared with the model rule "verifies iff decodes and (protected, payload, signature) are the signed ones and the key is the signer\'s"; non-trivial = token differs from the original',
        assumptions=['unforgeability: the ideal-signature hypothesis sig_ideal is a premise of the theorems; Go crypto/* and go-cose verifiers are trusted'],
    ),
    'C20': dict(
        cone=COSE_CONE, level='proof', kernel_maxlen=3000,
        nontrivial=lambda i, o: not o.startswith('ok'), classify=lambda i, o: o.split(' ')[0],
        rule='envelopes assembled by an independent CBOR writer: every tag 0..30 and none, other tags, nested tags, non-preferred tag/array heads, indefinite array, array lengths 0..6, each of the four elements replaced by 24 other items (null, undefined, integers, empty / non-map byte strings, texts, arrays, maps, floats, tagged, indefinite, non-preferred, header maps with extra or text-valued parameters), payload wrapped / double-wrapped / tagged / with trailing byte / truncated / non-map / unknown profile, trailing bytes and second token appended, truncations, COSE_Mac0 / COSE_Sign / COSE_Mac shapes and the TF-M vectors of the repository, random single-byte substitutions; non-trivial = rejected',
    ),
    'C03': dict(
        cone=EV_CONE, level='proof', kernel_maxlen=9000,
        nontrivial=lambda i, o: True, classify=lambda i, o: 'key=%s P%s %s' % (i.split(' ')[1], i.split(' ')[2], o.split(' ')[0]),
        rule='valid claims-sets of both profiles (random optional-claim subsets, hash sizes, 1..4 components) x five real keys (ES256 x2, ES384, EdDSA, PS256): ValidateAndSign, envelope taken apart by an independent CBOR item splitter (protected-header content and payload compared byte for byte with the model), DecodeEvidenceFromCOSE, claims compared field by field, Verify with the matching key (fresh and signing Evidence) and with another key; plus invalid claims-sets (must fail); distinct = distinct input line',
        assumptions=['signatures idealised: SigBy k alg prot payload verifies exactly under key k / alg over that protected header and payload'],
    ),
    'C04': dict(
        cone=EV_CONE + ['theories/DecodeProofs.v', 'theories/DecodePerm.v', 'theories/DecodeExt.v'], level='proof', oracle=_c04_oracle, signature=_c04_signature, kernel_maxlen=6000,
        nontrivial=lambda i, o: not o.startswith('ok') or ' e' in o, classify=lambda i, o: o.split(' ')[0],
        rule='tokens assembled by an independent CBOR writer: per claim key every value class (absent, null, undefined, booleans, simple values, floats of all widths, integers at every width boundary incl. 2^31, 2^32, 2^63, 2^64-1 and negative counterparts, non-preferred heads, byte strings of 14 lengths, texts incl. invalid UTF-8, arrays / maps / nested, tagged forms, indefinite lengths) with the rest valid; the other profile\'s keys mixed in; permuted key order; unknown extra keys (int, text, huge uint, byte-string / array / bool / float keys); duplicates; trailing and truncated bytes; pairs of deviations; non-map top-level items; non-trivial = rejected or some getter failing',
    ),
    'C08': dict(
        cone=EV_CONE + ['theories/JsonProofs.v', 'theories/JsonRoundtrip.v', 'theories/JsonCross.v'], level='proof', kernel_maxlen=6000, oracle=_c08_oracle,
        nontrivial=lambda i, o: 'err' in o or ' e' in o, classify=lambda i, o: i.split(' ')[0] + ' ' + o.split(' ')[0][:3],
        rule='every C01 claims-set (valid and each kind of invalid) through ValidateAndEncodeClaimsToCBOR vs EncodeClaimsToCBOR, Evidence.SetClaims (result and whether anything was attached), ValidateAndSign (result, no token on failure, payload = plain encoding); every C04 token through DecodeAndValidateClaimsFromCBOR vs DecodeClaimsFromCBOR and DecodeAndValidateEvidenceFromCOSE vs DecodeEvidenceFromCOSE; every fifth C12 case through the JSON gates and the deprecated aliases; an extension profile with a rule of its own through every validating gate (XGATE); Evidence histories whose attached claims are changed in place between attach and sign; non-trivial = some gate refused',
    ),
    'C10': dict(
        cone=WIRE_CONE, level='proof', kernel_maxlen=6000,
        nontrivial=lambda i, o: True, classify=lambda i, o: i.split(' ')[0],
        rule='valid claims-sets of both profiles built directly, through randomly ordered setter histories (with rejected calls interleaved) and by decoding; the emitted bytes are compared byte for byte with the model encoder, whose output format is proved (single definite map, distinct specified keys, values of the specified types, no null for a valid set) and which is re-read by the Coq CBOR parser',
    ),
    'C19': dict(
        cone=EV_CONE, level='proof', kernel_maxlen=12000,
        nontrivial=lambda i, o: ' err ' in o, classify=lambda i, o: 'ops=%d' % ((len(i.split(' ')) - 41) // 10 * 10),
        rule='random histories of 2..31 operations on one Evidence over {SetClaims(valid|invalid), Sign, ValidateAndSign, UnmarshalCOSE(own token | token with substituted payload | token with another token\'s signature | undecodable payload | nil payload | empty protected header | garbage), Verify(5 keys)} with signer faults (error, empty signature, unknown algorithm id, algorithm that does not fit the key) and real ES256/ES384/EdDSA/PS256 keys; observed after every operation: result and the attached claims; non-trivial = some operation failed',
        assumptions=['signatures idealised (see C03)'],
    ),
    'C09': dict(
        cone=WIRE_CONE, level='proof', oracle=_c09_oracle, signature=_c09_signature, kernel_maxlen=9000,
        nontrivial=lambda i, o: not o.startswith('ok'), classify=lambda i, o: 'P%s valid=%s' % (i.split(' ')[1], o.split(' ')[0][:2]),
        rule='valid claims-sets of both profiles (generator of C03) and directly constructed invalid ones (1..2 deviations from the C01 alternatives, incl. invalid UTF-8 texts): EncodeClaimsToCBOR, DecodeClaimsFromCBOR of the result, all getters before and after, re-encode; the property is evaluated on the implementation (oracle) and every observation is compared with the model; non-trivial = the input claims-set is not valid',
    ),
    'C17': dict(
        cone=WIRE_CONE + ['theories/EvidenceProofs.v', 'theories/PurityProofs.v', 'theories/ConcProofs.v', 'ties/TieEffects.v'], level='proof', oracle=_c17_oracle,
        race=True, kernel_maxlen=9000,
        nontrivial=lambda i, o: True,
        classify=lambda i, o: 'P%s %s goroutines=%s' % (i.split(' ')[2], o.split(' ')[0], '16-31' if i.count('|') < 31 else ('32-47' if i.count('|') < 47 else '48-64')),
        rule='harness built with -race and run with GORACE=halt_on_error=1: per case one claims-set (both profiles, a fifth invalid in one claim, profile-1 sets with an empty component list), shared objects = that claims-set, the Evidence that signed it, the Evidence decoded from the token, its CBOR and JSON encodings; 16..64 goroutines released together, each first creating, signing (one of five real keys) and decoding objects of its own and then running 3..10 calls drawn from: every read-side call of C18 on the shared objects, the same calls on its own objects, NewClaims + setter + getter, DecodeClaimsFromJSON / DecodeClaimsFromCBOR of the shared encodings; the same programs are first run sequentially; observed: any race-detector report (process exit 66, attributed to the case being executed), concurrent results == sequential results, every result compared with the model run under the sequential schedule',
        assumptions=['call-granularity interleaving: each API call is one atomic step of the model; races inside a call are covered by the effect tables and the Go race detector, not by the theorem'],
    ),
    'C18': dict(
        cone=WIRE_CONE + ['theories/EvidenceProofs.v', 'theories/PurityProofs.v', 'ties/TieEffects.v'], level='proof', oracle=_c18_oracle, kernel_maxlen=4000,
        nontrivial=lambda i, o: True,
        classify=lambda i, o: 'P%s %s ops=%s' % (i.split(' ')[2], o.split(' ')[0], 'few' if len(i.split(' ')) < 23 else 'many'),
        rule='claims-sets of both profiles, valid and invalid in one claim (C01 alternatives), incl. profile-1 sets with an empty component list (the case the marshallers normalise): a fresh Evidence holding the claims-set is signed with one of five real keys, the token is decoded by DecodeEvidenceFromCOSE and the input buffer is then overwritten; random sequences of 2..30 read-side calls (Validate, all getters, EncodeClaimsToCBOR / JSON and the validating twins on the claims-set; Verify with the right or another key, MarshalJSON, getters on the signing Evidence; Verify, getters, Validate, encodings, MarshalJSON on the decoded Evidence), every fourth call repeated at once; before and after every call a reflect-based deep dump (following pointers and interfaces, unexported fields included, no addresses) of the claims-set and of both Evidence objects is compared; every result is compared with the model; distinct = distinct input line',
    ),
    'C12': dict(
        cone=WIRE_CONE + ['theories/JsonProofs.v', 'theories/JsonRoundtrip.v', 'theories/JsonCross.v'], level='proof', oracle=_c12_oracle, kernel_maxlen=5000,
        nontrivial=lambda i, o: ' e' in o or o.startswith('err') or '22' in i.split(' ')[12] or '5c' in i.split(' ')[12] or i.split(' ')[2] == '_',
        classify=lambda i, o: 'P%s profile=%s decode=%s' % (i.split(' ')[1], 'absent' if i.split(' ')[2] == '_' else 'set', (o.split(' ') + ['-'])[1][:3]),
        rule='valid claims-sets of both profiles (generator of C03: random optional subsets, hash sizes, 0..4 components, negative client ids, profile-1 sets with no profile claim) with verification-service / measurement-type / description texts drawn from non-ASCII, quote, backslash, control, HTML-special, emoji and DEL samples, plus sets with one claim replaced by a C01 alternative: EncodeClaimsToJSON (JSON tree compared member by member, in order, with the model), DecodeClaimsFromJSON of it (all getters compared with the model and, for valid sets, with the getters of the original), CBOR -> claims -> JSON -> claims -> CBOR byte equality, Evidence.MarshalJSON, ValidateAndEncodeClaimsToJSON, DecodeAndValidateClaimsFromJSON; non-trivial = something fails, or a text needs JSON escaping, or no explicit profile claim',
    ),
    'C11': dict(
        cone=CLAIMS_CONE + ['theories/SetterProofs.v'], level='proof',
        nontrivial=_hist_nontrivial, classify=_hist_class, kernel_maxlen=8000,
        rule='every setter of both profiles x value classes (byte lengths 0..80 exhaustively, lifecycle range edges, single-edit neighbourhood of certification references, component lists with one malformed entry at each position) on a fresh and on a fully populated claims-set; random histories of 1..40 setter calls (valid/invalid interleaved, with in-place mutation of a stored component through the retained pointer); setters on arbitrary preloaded claims-sets; after every call the error bits, Validate() and all ten getters are compared with the model; non-trivial = some call rejected or some getter failing; distinct = distinct input line',
    ),
    'C13': dict(
        cone=CLAIMS_CONE + ['theories/ErrorProofs.v', 'spec/SpecErrSites.v', 'ties/TieErrSites.v'], level='proof',
        nontrivial=lambda i, o: True, classify=_hist_class, kernel_maxlen=8000,
        rule='errors.Is bits (all five sentinels) of every getter and of Validate() on claims-sets wrong in one claim (exact class) and in several (class of the first offending claim in validation order), of every setter on every value class, and of FilterError on random error trees (fmt.Errorf with 1..3 %w, %v, errors.Join, custom Unwrap() error / []error, depth <= 4); distinct = distinct input line',
    ),
    'C01': dict(
        cone=CLAIMS_CONE, level='proof',
        nontrivial=_c01_nontrivial, classify=lambda i, o: _c01_class(i, o) if i.startswith('C01 ') else _hist_class(i, o),
        rule='per profile: every alternative (absent / boundary / just-outside / wrong shape; byte lengths 0..80 exhaustively; single-edit neighbourhood of both certification-reference formats; component lists of 1..4 with one malformed entry at every position; nil container / nil element / flag values) of every claim alone on valid bases, then random combinations of 1..3 deviations, then random valid sets, then fully populated claims-sets (through the setters) whose stored component is changed through the retained pointer; claims-sets are built directly as Go structs; observed: Validate() and all ten getters (value or errors.Is bits); non-trivial = not everything succeeds; distinct = distinct input line',
    ),
    'C14': dict(
        cone=['theories/LifecycleProofs.v', 'ties/TieConsts.v'],
        level='proof', exhaustive=True,
        nontrivial=_c14_nontrivial, classify=_c14_class,
        rule='all 65536 lifecycle values x {fresh claims-set, claims-set already holding that value} exhaustively, plus sampled other preloaded values, through LifeCycleToState/String/IsValid/ValidateSecurityLifeCycle and Set/GetSecurityLifeCycle of both profiles; non-trivial = value maps to the invalid state or the claims-set was preloaded; distinct = distinct input line',
    ),
}


def corpus_lines(verif, pid):
    d = os.path.join(verif, 'corpus', pid)
    out = []
    if os.path.isdir(d):
        for fn in sorted(os.listdir(d)):
            for l in open(os.path.join(d, fn)):
                l = l.rstrip('\n')
                if l.strip() and not l.startswith('#'):
                    out.append(l.split('\t')[0])
    return out


def tokens_match(obs, want):
    """want may contain '*' tokens (unspecified by the property) and
    'a|b' alternatives."""
    if obs == want or want == '*':
        return True
    a, b = obs.split(' '), want.split(' ')
    if len(a) != len(b):
        return False
    for x, y in zip(a, b):
        if x == y or y == '*':
            continue
        if '|' in y and x in y.split('|'):
            continue
        return False
    return True


def compare(pid, spec, cases_p, model_p, result, tier):
    nontriv = spec.get('nontrivial', lambda i, o: True)
    classify = spec.get('classify')
    seen = set()
    stats = result['stats']
    n = 0
    with open(cases_p) as fc, open(model_p) as fm:
        for cl, ml in zip(fc, fm):
            cl = cl.rstrip('\n')
            ml = ml.rstrip('\n')
            if '\t' not in cl:
                continue
            inp, obs = cl.split('\t', 1)
            gen, _, want = ml.partition('\t')
            gen = gen.partition(' ## ')[0]
            want, _, extra = want.partition(' ## ')
            n += 1
            oracle = spec.get('oracle')
            if oracle:
                why = oracle(inp, obs, extra)
                if why:
                    result['violations'].append(dict(input=inp, impl=obs, want=why, kind='oracle'))
                    continue
            obs_full = obs
            obs = obs.partition(' ## ')[0]
            if want == '?' or gen == '?':
                result['violations'].append(dict(input=inp, impl=obs, want='model could not parse this input (harness/model format drift)', kind='format'))
                continue
            if not tokens_match(obs, want):
                result['violations'].append(dict(input=inp, impl=obs, want=want, kind='spec'))
            elif not tokens_match(obs, gen):
                result['drift'].append(dict(input=inp, impl=obs, want=gen))
            if nontriv(inp, obs):
                h = hash(inp)
                if h not in seen:
                    seen.add(h)
                    if len(result['samples']) < 4 or (len(result['samples']) < 8 and n % 997 == 0):
                        result['samples'].append(dict(input=inp[:400], impl=obs[:400], model=want[:400]))
            if classify:
                k = classify(inp, obs)
                stats[k] = stats.get(k, 0) + 1
    result['evaluations'] += n
    result['distinct_nontrivial'] += len(seen)


def kernel_sample(pid, spec, cases_p, model_p, seed, limit=120):
    pairs = []
    with open(cases_p) as fc, open(model_p) as fm:
        rows = [(c.split('\t', 1)[0], m.rstrip('\n').partition('\t')[2]) for c, m in zip(fc, fm) if '\t' in c]
    if not rows:
        return []
    maxlen = spec.get('kernel_maxlen', 4000)
    rows = [r for r in rows if len(r[0]) + len(r[1]) <= maxlen]
    step = max(1, len(rows) // limit)
    off = seed % step if step > 1 else 0
    pairs = rows[off::step][:limit]
    return pairs


def match_known(pid, v, known):
    sig = PROPS[pid].get('signature')
    if not sig:
        return None
    s = sig(v)
    if not s:
        return None
    for k in known.get('findings', []):
        if k.get('status') == 'open' and k['id'] == s and pid in k.get('properties', [k.get('property')]):
            return k
    return None


def coqchk(coq, build, pid, spec, run):
    """Independent re-check of the compiled cone with coqchk (thorough tier);
    cached by the content hash of the .vo files."""
    mods = []
    h = hashlib.sha256()
    for f in spec['cone'] + ['props/%s.v' % pid]:
        vo = os.path.join(coq, f[:-2] + '.vo')
        if os.path.exists(vo):
            h.update(open(vo, 'rb').read())
        d, b = f[:-2].split('/')
        pref = {'theories': 'PSA', 'spec': 'PSA.Spec', 'gen': 'PSA.Gen', 'ties': 'PSA.Ties', 'props': 'PSA.Props'}[d]
        mods.append(pref + '.' + b)
    cache = os.path.join(build, 'coqchk_%s_%s.json' % (pid, h.hexdigest()[:16]))
    if os.path.exists(cache):
        return json.load(open(cache))
    t0 = time.time()
    r = run(['coqchk', '-silent', '-o', '-Q', 'theories', 'PSA', '-Q', 'spec', 'PSA.Spec', '-Q', 'gen', 'PSA.Gen',
             '-Q', 'ties', 'PSA.Ties', '-Q', 'props', 'PSA.Props'] + mods, cwd=coq, timeout=5400)
    res = dict(ok=r.returncode == 0, wall_s=round(time.time() - t0, 1), modules=mods, log=r.stdout[-3000:])
    json.dump(res, open(cache, 'w'))
    return res
