package main

import "strconv"

func init() {
	props["C09"] = &prop{gen: genC09}
	props["C10"] = &prop{gen: genC10}
}

// valid claims-sets built directly, through setters and by decoding; the
// emitted bytes are compared with the model's encoder (whose format is
// proved) and re-read by the Coq CBOR parser
// tokens from the independent writer whose components carry foreign material the decoder tolerates
// (unknown keys, null optional fields, permuted order): what the library re-emits must be the profile's format
func genReenc(r *rng, n int, emit func(string)) {
	for i := 0; i < n; i++ {
		kind := 1 + r.intn(2)
		t := validToken(kind, r)
		ncomp := 1 + r.intn(3)
		comps := make([]cv, ncomp)
		sizes := []int{32, 48, 64}
		for j := range comps {
			ps := []kvp{{cUint(2), cBytes(rb(sizes[r.intn(3)], byte(r.intn(256))))}, {cUint(5), cBytes(rb(sizes[r.intn(3)], byte(r.intn(256))))}}
			switch r.intn(6) {
			case 0:
				ps = append(ps, kvp{cUint(3), cUint(7)})
			case 1:
				ps = append(ps, kvp{cUint(4), cNull})
			case 2:
				ps = append(ps, kvp{cUint(1), cText("BL")}, kvp{cUint(99), cText("x")})
			case 3:
				ps = append(ps, kvp{cUint(6), cNull}, kvp{cUint(1), cNull})
			case 4:
				ps = append(ps, kvp{cUint(4), cText("")})
			}
			if r.intn(2) == 0 {
				ps[0], ps[len(ps)-1] = ps[len(ps)-1], ps[0]
			}
			comps[j] = cMap(ps...)
		}
		t["swc"] = cArray(comps...)
		var extra []kvp
		if r.intn(3) == 0 {
			extra = append(extra, kvp{cUint(9000 + uint64(r.intn(50))), cText("unknown")})
		}
		order := append([]string{}, claimOrder...)
		for j := len(order) - 1; j > 0; j-- {
			k := r.intn(j + 1)
			order[j], order[k] = order[k], order[j]
		}
		emit("REENC " + hexTok(assemble(kind, t, order, extra, false)))
	}
}

// an Evidence that decoded a token in a format the library accepts but never emits (one-element nonce array,
// unknown keys, permuted order), or whose claims were replaced, signs again: the new payload is the profile's format
func genResign(r *rng, n int, emit func(string)) {
	for i := 0; i < n; i++ {
		c := validClaims(2, r)
		t := validToken(2, r)
		if r.intn(2) == 0 {
			t["nonce"] = cArray(cBytes(rb(32, byte(r.intn(256)))))
		}
		order := append([]string{}, claimOrder...)
		for j := len(order) - 1; j > 0; j-- {
			k := r.intn(j + 1)
			order[j], order[k] = order[k], order[j]
		}
		foreign := assemble(2, t, order, []kvp{{cUint(99), cText("x")}}, false)
		k := strconv.Itoa(1 + r.intn(5))
		c2 := validClaims(1+r.intn(2), r)
		emit("EV 2 " + c.String() + " " + c2.String() + " set:0 vsign:g" + k + " dec:f0:" + hexTok(foreign) + " vsign:g" + k + " dec:t1 ver:" + k +
			" set:1 vsign:g" + k + " dec:t2 ver:" + k + " sign:g" + k)
	}
}

func genC10(tier string, seed uint64, emit func(string)) {
	r := &rng{s: seed}
	genResign(r, map[bool]int{false: 120, true: 3000}[tier == "thorough"], emit)
	genReenc(r, map[bool]int{false: 400, true: 8000}[tier == "thorough"], emit)
	n := 3000
	if tier == "thorough" {
		n = 36000
	}
	for kind := 1; kind <= 2; kind++ {
		for i := 0; i < n; i++ {
			c := validClaims(kind, r)
			emit("ENC " + c.String())
			if i%3 == 0 {
				emit("RT " + c.String())
			}
		}
		inits := []string{"new1", "new1np"}
		if kind == 2 {
			inits = []string{"new2"}
		}
		for i := 0; i < n/2; i++ {
			var ops []string
			names := append([]string{}, setterNames...)
			for j := len(names) - 1; j > 0; j-- {
				k := r.intn(j + 1)
				names[j], names[k] = names[k], names[j]
			}
			for _, nm := range names {
				if (nm == "sr" || nm == "sv" || (nm == "sb" && kind == 2)) && r.intn(2) == 0 {
					continue // optional claims
				}
				if r.intn(5) == 0 { // an invalid attempt first
					ops = append(ops, setterOps(kind, r)[nm][0])
				}
				ops = append(ops, validOp(kind, nm, r))
				if nm == "ss" && kind == 1 && r.intn(4) == 0 {
					ops = append(ops, "ss:_")
				}
			}
			emit("ENCH " + inits[r.intn(len(inits))] + " " + joinSp(ops))
		}
	}
	// profile 1 with BOTH the component list and the no-measurements flag (any flag value): not valid, nothing may be emitted
	for i := 0; i < n/10; i++ {
		c := validClaims(1, r)
		if c[tSwc] == "_" || c[tSwc] == "[]" {
			continue
		}
		c[tNosw] = []string{"0", "1", "2", "18446744073709551615"}[r.intn(4)]
		emit("GATE " + c.String())
	}
}

func joinSp(l []string) string {
	out := ""
	for i, s := range l {
		if i > 0 {
			out += " "
		}
		out += s
	}
	return out
}

// valid claims-sets (round trip, byte stability) and directly constructed
// invalid ones (encode / decode / re-encode)
func genC09(tier string, seed uint64, emit func(string)) {
	r := &rng{s: seed}
	n := 1600
	if tier == "thorough" {
		n = 20000
	}
	// extension profiles encode through the embedding-aware serialiser: its output for set-but-zero
	// optional claims is part of "decode(encode(x)) = x" for them
	genSerLines(r, n/40, false, emit)
	for kind := 1; kind <= 2; kind++ {
		for i := 0; i < n; i++ {
			emit("RT " + validClaims(kind, r).String())
		}
		alt := claimAlternatives(kind, r)
		for i := 0; i < n; i++ {
			c := validClaims(kind, r)
			k := 1 + r.intn(2)
			for j := 0; j < k; j++ {
				f := 1 + r.intn(nClaimTok-1)
				if len(alt[f]) > 0 {
					c[f] = alt[f][r.intn(len(alt[f]))]
				}
			}
			emit("RT " + c.String())
		}
	}
}
