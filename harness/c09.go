package main

func init() {
	props["C09"] = &prop{gen: genC09}
}

// valid claims-sets (round trip, byte stability) and directly constructed
// invalid ones (encode / decode / re-encode)
func genC09(tier string, seed uint64, emit func(string)) {
	r := &rng{s: seed}
	n := 4000
	if tier == "thorough" {
		n = 150000
	}
	for kind := 1; kind <= 2; kind++ {
		for i := 0; i < n; i++ {
			emit("RT " + validClaims(kind, r).String())
		}
		alt := claimAlternatives(kind, r)
		for i := 0; i < n; i++ {
			c := validClaims(kind, r)
			k := 1 + r.intn(2)
			for j := 0; j < k; j++ {
				f := 1 + r.intn(nClaimTok-1)
				if len(alt[f]) > 0 {
					c[f] = alt[f][r.intn(len(alt[f]))]
				}
			}
			emit("RT " + c.String())
		}
	}
}
