package main

import (
	"crypto/rand"
	"os"
	"path/filepath"
	"reflect"
	"strconv"
	"strings"
	"unsafe"

	cose "github.com/veraison/go-cose"
	"github.com/veraison/psatoken"
)

func init() {
	execs["COSE"] = execCose
	execs["TAMP"] = execTamp
	props["C20"] = &prop{gen: genC20}
	props["C02"] = &prop{gen: genC02}
}

// the unexported COSE message an Evidence holds
func evMessage(ev *psatoken.Evidence) *cose.Sign1Message {
	f := reflect.ValueOf(ev).Elem().FieldByName("message")
	if !f.IsValid() {
		panic("Evidence has no field 'message' any more: harness needs updating")
	}
	return reflect.NewAt(f.Type(), unsafe.Pointer(f.UnsafeAddr())).Elem().Interface().(*cose.Sign1Message)
}

func bstrContent(item []byte) []byte {
	if len(item) == 0 || item[0]>>5 != 2 {
		return nil
	}
	n := itemLen(item)
	return item[n-contentLen(item) : n]
}

func decodeEvGuard(b []byte) (ev *psatoken.Evidence, err error, panicked bool) {
	defer func() {
		if r := recover(); r != nil {
			panicked = true
		}
	}()
	ev, err = psatoken.DecodeEvidenceFromCOSE(b)
	return
}

func execCose(in string) string {
	f := fields(in)
	b := parseHexTok(f[1])
	ev, err, p := decodeEvGuard(append([]byte{}, b...))
	if p {
		return "panic"
	}
	if err != nil {
		return "err"
	}
	m := evMessage(ev)
	alg := "_"
	if a, err := m.Headers.Protected.Algorithm(); err == nil {
		alg = itoa(int64(a))
	}
	out := []string{"ok", hexTok(bstrContent(m.Headers.RawProtected)), alg, hexTok(m.Payload), hexTok(m.Signature)}
	out = append(out, printClaims(ev.Claims)...)
	return strings.Join(out, " ")
}

func execTamp(in string) string {
	f := fields(in)
	vk, _ := strconv.Atoi(f[2])
	tam := parseHexTok(f[4])
	ev, err, p := decodeEvGuard(append([]byte{}, tam...))
	if p {
		return "panic panic"
	}
	if err != nil {
		return "err err"
	}
	// verification must not depend on earlier verifications of the same Evidence: verify first with
	// another key (the signer's when vk is a different one, else the other key of the same algorithm)
	k, _ := strconv.Atoi(f[1])
	first := k
	if vk == k {
		first = map[int]int{1: 2, 2: 1, 3: 1, 4: 2, 5: 3}[k]
	}
	guard(func() string { return okErr(ev.Verify(theKeys()[first].pub)) })
	return "ok " + guard(func() string { return okErr(ev.Verify(theKeys()[vk].pub)) })
}

func envelope(parts ...cv) []byte {
	return cTag(18, cArray(parts...))
}

func genC20(tier string, seed uint64, emit func(string)) {
	r := &rng{s: seed}
	co := func(b []byte) { emit("COSE " + hexTok(b)) }
	// a valid claims payload of each profile, via the library encoder
	payloads := [][]byte{}
	for kind := 1; kind <= 2; kind++ {
		for i := 0; i < 3; i++ {
			c := parseClaims(func() []string { c := validClaims(kind, r); return c[:] }())
			b, err := psatoken.EncodeClaimsToCBOR(c)
			if err != nil {
				panic(err)
			}
			payloads = append(payloads, b)
		}
	}
	prot := cBytes(cMap(kvp{cUint(1), cNint(6)})) // {1: -7}
	unprot := cMap()
	sig := cBytes(rb(64, 0x5a))
	pl := func(i int) cv { return cBytes(payloads[i%len(payloads)]) }
	alts := []cv{cNull, cUndef, cUint(0), cNint(0), cBytes(nil), cBytes([]byte{1}), cText(""), cText("x"), cArray(), cArray(cUint(1)), cMap(), cMap(kvp{cUint(1), cNint(6)}),
		cTrue, cFloat64(1), cTag(24, cBytes([]byte{0xa0})), cIndefBytes([]byte{1}), cv(append(cHeadWide(2, 3, 1), 0xa1, 0x01, 0x26)),
		cBytes(cMap(kvp{cUint(1), cNint(6)}, kvp{cUint(4), cBytes([]byte{9})})), cBytes([]byte{0x01}), cBytes(cArray()), cBytes(cMap(kvp{cUint(1), cText("ES256")})),
		cBytes(cMap()), cMap(kvp{cUint(4), cBytes([]byte{1, 2})}), cMap(kvp{cUint(1), cNint(6)})}
	base := []cv{prot, unprot, pl(0), sig}
	// 1. every tag 0..30 and none, other tags, non-preferred tag / array heads
	for t := uint64(0); t <= 30; t++ {
		co(cTag(t, cArray(base...)))
	}
	for _, t := range []uint64{61, 96, 97, 98, 55799, 1 << 32} {
		co(cTag(t, cArray(base...)))
	}
	co(cArray(base...))
	co(cTag(55799, cTag(18, cArray(base...))))
	co(cTag(18, cTag(18, cArray(base...))))
	co(append([]byte{0xd8, 18}, cArray(base...)...))                     // tag 18 in a two-byte head
	co(append([]byte{0xd2, 0x98, 0x04}, cArray(base...)[1:]...))         // array length in a two-byte head
	co(append([]byte{0xd2, 0x9f}, append(cArray(base...)[1:], 0xff)...)) // indefinite-length array
	// 2. array lengths 0..6
	for n := 0; n <= 6; n++ {
		items := []cv{}
		for i := 0; i < n; i++ {
			if i < 4 {
				items = append(items, base[i])
			} else {
				items = append(items, cNull)
			}
		}
		co(envelope(items...))
	}
	// 3. each element replaced by every other kind
	for pos := 0; pos < 4; pos++ {
		for _, a := range alts {
			items := append([]cv{}, base...)
			items[pos] = a
			co(envelope(items...))
		}
	}
	// 4. payload variants: every profile, wrapped, double wrapped, non-map payloads, invalid claims
	for i := range payloads {
		co(envelope(prot, unprot, pl(i), sig))
		co(envelope(prot, unprot, cBytes(cBytes(payloads[i])), sig))
		co(envelope(prot, unprot, cBytes(cBytes(cBytes(payloads[i]))), sig))
		co(envelope(prot, unprot, cBytes(cTag(55799, cv(payloads[i]))), sig))
		co(envelope(prot, unprot, cBytes(append(append([]byte{}, payloads[i]...), 0)), sig))
		co(envelope(prot, unprot, cBytes(payloads[i][:len(payloads[i])-1]), sig))
	}
	for _, p := range []cv{cNull, cUndef, cTag(55799, cNull), cTag(1000, cUndef), cUint(1), cText("claims"), cArray(), cBytes(nil), cTrue, cFloat64(0), cMap(), cIndefMap(),
		cMap(kvp{cUint(265), cText("http://arm.com/psa/3.0.0")}), cMap(kvp{cUint(265), cBytes([]byte{0x2b, 6, 1})})} {
		co(envelope(prot, unprot, cBytes(p), sig))
	}
	// 4b. a good token wrapped in one more tag (CWT tag 61, self-described CBOR, ...)
	{
		good := envelope(prot, unprot, pl(1), sig)
		for _, tg := range []uint64{61, 55799, 18, 6, 24, 1000} {
			co(cTag(tg, cv(good)))
			co(cTag(tg, cTag(61, cv(good))))
		}
	}
	// 5. trailing bytes, truncation, a second token appended
	good := envelope(prot, unprot, pl(1), sig)
	for _, tr := range [][]byte{{0}, {0xf6}, {0xff}, good} {
		co(append(append([]byte{}, good...), tr...))
	}
	for cut := 1; cut < len(good); cut += 1 + len(good)/40 {
		co(good[:len(good)-cut])
	}
	// 6. COSE_Mac0 / COSE_Sign shapes and the TF-M vectors shipped with the repository
	co(cTag(17, cArray(prot, unprot, pl(0), cBytes(rb(32, 1)))))
	co(cTag(98, cArray(prot, unprot, pl(0), cArray(cArray(prot, unprot, sig)))))
	co(cTag(97, cArray(prot, unprot, pl(0), cBytes(rb(32, 1)), cArray())))
	if files, err := filepath.Glob("/repo/testvectors/tf-m/*"); err == nil {
		for _, fn := range files {
			if data, err := os.ReadFile(fn); err == nil && len(data) < 4096 {
				co(data)
			}
		}
	}
	// 7. random single-byte substitutions of a valid envelope's structural bytes
	n := 600
	if tier == "thorough" {
		n = 25000
	}
	for i := 0; i < n; i++ {
		g := envelope(prot, unprot, pl(i), sig)
		b := append([]byte{}, g...)
		pos := r.intn(len(b))
		if r.intn(2) == 0 {
			pos = r.intn(12) // the head region
		}
		b[pos] = byte(r.next())
		co(b)
	}
}

func genC02(tier string, seed uint64, emit func(string)) {
	r := &rng{s: seed}
	nsets := 1
	if tier == "thorough" {
		nsets = 4
	}
	type signed struct {
		k   int
		tok []byte
	}
	for s := 0; s < nsets; s++ {
		var toks []signed
		for kind := 1; kind <= 2; kind++ {
			for k := 1; k <= 5; k++ {
				c := parseClaims(func() []string { c := validClaims(kind, r); return c[:] }())
				ev := &psatoken.Evidence{Claims: c}
				tok, err := ev.ValidateAndSign(mkSigner("g" + strconv.Itoa(k)))
				if err != nil {
					panic(err)
				}
				toks = append(toks, signed{k, tok})
			}
		}
		tamp := func(t signed, vk int, b []byte) {
			emit("TAMP " + strconv.Itoa(t.k) + " " + strconv.Itoa(vk) + " " + hexTok(t.tok) + " " + hexTok(b))
		}
		for ti, t := range toks {
			// untouched, right and wrong keys
			for vk := 1; vk <= 5; vk++ {
				tamp(t, vk, t.tok)
			}
			// every single-bit flip (quick: every bit of every 3rd byte plus the whole head region)
			for i := 0; i < len(t.tok); i++ {
				if tier != "thorough" && i > 16 && i%3 != ti%3 {
					continue
				}
				for bit := 0; bit < 8; bit++ {
					b := append([]byte{}, t.tok...)
					b[i] ^= 1 << bit
					tamp(t, t.k, b)
				}
			}
			// truncations
			for cut := 1; cut <= len(t.tok); cut += 1 + len(t.tok)/60 {
				tamp(t, t.k, t.tok[:len(t.tok)-cut])
			}
			// splices with every other token: payload / protected / signature exchanged
			pa := splitSign1(t.tok)
			for _, o := range toks {
				pb := splitSign1(o.tok)
				for pos := 0; pos < 4; pos++ {
					if pos == 1 {
						continue
					}
					q := pa
					q[pos] = pb[pos]
					tamp(t, t.k, joinSign1(q))
					tamp(t, o.k, joinSign1(q))
				}
			}
			// the protected header re-encoded: same map, different bytes (non-preferred integer / key / map heads)
			if content := bstrContent(pa[0]); len(content) >= 3 && content[0] == 0xa1 && content[1] == 0x01 {
				algEnc := content[2:]
				var wideAlg []byte
				if len(algEnc) == 1 && algEnc[0]>>5 == 1 {
					wideAlg = []byte{0x38, algEnc[0] & 0x1f}
				} else if len(algEnc) == 2 && algEnc[0] == 0x38 {
					wideAlg = []byte{0x39, 0x00, algEnc[1]}
				}
				variants := [][]byte{append([]byte{0xa1, 0x18, 0x01}, algEnc...), append([]byte{0xb8, 0x01, 0x01}, algEnc...)}
				if wideAlg != nil {
					variants = append(variants, append([]byte{0xa1, 0x01}, wideAlg...))
				}
				for _, v := range variants {
					q := pa
					q[0] = cborBstr(v)
					tamp(t, t.k, joinSign1(q))
				}
				q := pa
				q[0] = append(cHeadWide(2, uint64(len(content)), 1), content...) // same content, wider bstr head
				if len(content) < 24 {
					tamp(t, t.k, joinSign1(q))
				}
			}
			// the algorithm moved out of the protected header: protected empty (h'' / h'a0'), unprotected {1: alg} (with or
			// without a kid), and a signature that IS valid over the resulting Sig_structure -- verification must still fail,
			// because the algorithm is not covered by the signature
			if content := bstrContent(pa[0]); len(content) >= 3 && content[0] == 0xa1 && content[1] == 0x01 {
				algEnc := content[2:]
				payload := bstrContent(pa[2])
				for _, prot := range [][]byte{{}, {0xa0}} {
					tbs := append([]byte{0x84, 0x6a}, []byte("Signature1")...)
					tbs = append(tbs, cborBstr(prot)...)
					tbs = append(tbs, 0x40)
					tbs = append(tbs, cborBstr(payload)...)
					sig, err := mkSigner("g"+strconv.Itoa(t.k)).Sign(rand.Reader, tbs)
					if err != nil {
						panic(err)
					}
					for _, unprot := range [][]byte{append([]byte{0xa1, 0x01}, algEnc...), append(append([]byte{0xa2, 0x01}, algEnc...), 0x04, 0x41, 0x01)} {
						q := pa
						q[0] = cborBstr(prot)
						q[1] = unprot
						q[3] = cborBstr(sig)
						tamp(t, t.k, joinSign1(q))
						tamp(t, 1+t.k%5, joinSign1(q))
					}
				}
			}
			// signature replaced by arbitrary bytes, emptied; payload / protected emptied or nil
			for _, sg := range [][]byte{cborBstr(r.bytes(64)), cborBstr(r.bytes(len(bstrContent(pa[3])))), cborBstr(nil), {0xf6}, cborBstr([]byte{0})} {
				q := pa
				q[3] = sg
				tamp(t, t.k, joinSign1(q))
			}
			for _, x := range [][]byte{cborBstr(nil), {0xf6}, {0xa0}} {
				q := pa
				q[0] = x
				tamp(t, t.k, joinSign1(q))
				q = pa
				q[2] = x
				tamp(t, t.k, joinSign1(q))
			}
			// random multi-byte edits
			for i := 0; i < 40; i++ {
				b := append([]byte{}, t.tok...)
				for j := 0; j < 1+r.intn(4); j++ {
					b[r.intn(len(b))] = byte(r.next())
				}
				tamp(t, t.k, b)
			}
		}
	}
}
