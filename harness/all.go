package main

import (
	"encoding/json"
	"runtime"
	"strconv"
	"strings"
	"time"

	"github.com/veraison/psatoken"
	"github.com/veraison/psatoken/encoding"
)

func init() {
	execs["ALL"] = execAll
	props["C05"] = &prop{gen: genC05}
	props["C06"] = &prop{gen: genC06}
}

// run f; "v" value, "e" error, "P" panic
func vep(f func() error) (out string) {
	defer func() {
		if r := recover(); r != nil {
			out = "P"
		}
	}()
	if err := f(); err != nil {
		return "e"
	}
	return "v"
}

// everything that may be done with a claims-set that decoded without error
func postClaims(c psatoken.IClaims) string {
	return vep(func() error {
		_ = c.Validate()
		_, _ = c.GetProfile()
		_, _ = c.GetClientID()
		_, _ = c.GetSecurityLifeCycle()
		_, _ = c.GetImplID()
		_, _ = c.GetBootSeed()
		_, _ = c.GetCertificationReference()
		_, _ = c.GetSoftwareComponents()
		_, _ = c.GetNonce()
		_, _ = c.GetInstID()
		_, _ = c.GetVSI()
		_, _ = psatoken.EncodeClaimsToCBOR(c)
		_, _ = psatoken.EncodeClaimsToJSON(c)
		_, _ = psatoken.ValidateAndEncodeClaimsToCBOR(c)
		_, _ = psatoken.ValidateAndEncodeClaimsToJSON(c)
		return nil
	})
}

// ALL <hex>: every decoding entry point on the same bytes, and on whatever
// decodes every follow-up operation.  One token per entry point:
// <entry>=<v|e|P>[/<post v|P>]
func execAll(in string) string {
	f := fields(in)
	b := parseHexTok(f[1])
	cp := func() []byte { return append([]byte{}, b...) }
	var ms1, ms2 runtime.MemStats
	runtime.ReadMemStats(&ms1)
	t0 := time.Now()
	var out []string
	add := func(name, res string) { out = append(out, name+"="+res) }

	var ev *psatoken.Evidence
	r := vep(func() (err error) { ev, err = psatoken.DecodeEvidenceFromCOSE(cp()); return })
	if r == "v" {
		r += "/" + vep(func() error {
			for k := 1; k <= 5; k++ {
				_ = ev.Verify(theKeys()[k].pub)
			}
			_, _ = ev.MarshalJSON()
			_ = ev.GetInstanceID()
			_ = ev.GetImplementationID()
			return nil
		})
		if ev.Claims != nil {
			r += postClaims(ev.Claims)
		}
	}
	add("cose", r)
	r = vep(func() (err error) { ev, err = psatoken.DecodeAndValidateEvidenceFromCOSE(cp()); return })
	add("vcose", r)

	var c psatoken.IClaims
	for _, e := range []struct {
		name string
		f    func() error
	}{
		{"cbor", func() (err error) { c, err = psatoken.DecodeClaimsFromCBOR(cp()); return }},
		{"vcbor", func() (err error) { c, err = psatoken.DecodeAndValidateClaimsFromCBOR(cp()); return }},
		{"json", func() (err error) { c, err = psatoken.DecodeClaimsFromJSON(cp()); return }},
		{"vjson", func() (err error) { c, err = psatoken.DecodeAndValidateClaimsFromJSON(cp()); return }},
	} {
		c = nil
		r := vep(e.f)
		if r == "v" && c != nil {
			r += "/" + postClaims(c)
		}
		add(e.name, r)
	}
	// per-type unmarshal methods
	for _, e := range []struct {
		name string
		mk   func() psatoken.IClaims
		json bool
	}{
		{"p1cbor", func() psatoken.IClaims { c, _ := psatoken.NewClaims(psatoken.Profile1Name); return c }, false},
		{"p1json", func() psatoken.IClaims { c, _ := psatoken.NewClaims(psatoken.Profile1Name); return c }, true},
		{"p2cbor", func() psatoken.IClaims { c, _ := psatoken.NewClaims(psatoken.Profile2Name); return c }, false},
		{"p2json", func() psatoken.IClaims { c, _ := psatoken.NewClaims(psatoken.Profile2Name); return c }, true},
		{"z1cbor", func() psatoken.IClaims { return &psatoken.P1Claims{} }, false},
		{"z2json", func() psatoken.IClaims { return &psatoken.P2Claims{} }, true},
	} {
		cl := e.mk()
		r := vep(func() error {
			if e.json {
				return cl.(json.Unmarshaler).UnmarshalJSON(cp())
			}
			return cl.(interface{ UnmarshalCBOR([]byte) error }).UnmarshalCBOR(cp())
		})
		if r == "v" {
			r += "/" + postClaims(cl)
		}
		add(e.name, r)
	}
	{
		s := &psatoken.SwComponents[*psatoken.SwComponent]{}
		r := vep(func() error { return s.UnmarshalCBOR(cp()) })
		if r == "v" {
			r += "/" + vep(func() error {
				_ = s.Validate()
				_, _ = s.Values()
				_, _ = s.MarshalCBOR()
				_, _ = s.MarshalJSON()
				_ = s.IsEmpty()
				return nil
			})
		}
		add("swcbor", r)
		s2 := &psatoken.SwComponents[*psatoken.SwComponent]{}
		r = vep(func() error { return s2.UnmarshalJSON(cp()) })
		if r == "v" {
			r += "/" + vep(func() error {
				_ = s2.Validate()
				_, _ = s2.Values()
				_, _ = s2.MarshalCBOR()
				_, _ = s2.MarshalJSON()
				return nil
			})
		}
		add("swjson", r)
	}
	// the embedding-aware populate helpers
	for _, name := range []string{"flat", "emb2", "iface", "ifacenil", "dup"} {
		s := newShape(name)
		r := vep(func() error { return encoding.PopulateStructFromCBOR(embDm, cp(), s) })
		if r == "v" {
			r += "/" + vep(func() error {
				_, _ = encoding.SerializeStructToCBOR(embEm, s)
				_, _ = encoding.SerializeStructToJSON(s)
				return nil
			})
		}
		add("pc:"+name, r)
		s2 := newShape(name)
		r = vep(func() error { return encoding.PopulateStructFromJSON(cp(), s2) })
		if r == "v" {
			r += "/" + vep(func() error {
				_, _ = encoding.SerializeStructToCBOR(embEm, s2)
				_, _ = encoding.SerializeStructToJSON(s2)
				return nil
			})
		}
		add("pj:"+name, r)
	}
	el := time.Since(t0)
	runtime.ReadMemStats(&ms2)
	return strings.Join(out, " ") + " ## alloc=" + strconv.FormatUint(ms2.TotalAlloc-ms1.TotalAlloc, 10) + " len=" + strconv.Itoa(len(b)) + " ms=" + strconv.FormatInt(el.Milliseconds(), 10)
}

// seeds: valid tokens in every serialisation
func seedInputs(r *rng) [][]byte {
	var seeds [][]byte
	for kind := 1; kind <= 2; kind++ {
		for i := 0; i < 2; i++ {
			c := parseClaims(func() []string { c := validClaims(kind, r); return c[:] }())
			cb, err := psatoken.EncodeClaimsToCBOR(c)
			if err != nil {
				panic(err)
			}
			js, err := psatoken.EncodeClaimsToJSON(c)
			if err != nil {
				panic(err)
			}
			ev := &psatoken.Evidence{Claims: c}
			tok, err := ev.Sign(mkSigner("g" + strconv.Itoa(1+i)))
			if err != nil {
				panic(err)
			}
			seeds = append(seeds, cb, js, tok)
		}
	}
	// struct-shaped maps for the populate helpers
	seeds = append(seeds, cMap(kvp{cUint(1), cUint(5)}, kvp{cUint(2), cText("b")}, kvp{cNint(2), cBytes([]byte{1})}),
		cMap(kvp{cUint(10), cUint(1)}, kvp{cUint(20), cUint(2)}, kvp{cUint(21), cBytes(nil)}, kvp{cUint(30), cUint(3)}, kvp{cUint(31), cText("h")}),
		[]byte(`{"a":1,"b":"x","c":"AQI=","p":2,"d":3,"e":"","g":4,"h":"s"}`),
		[]byte(`[{"measurement-value":"AAAAAAAAAAAAAAAAAAAAAAAAAAAAAAAAAAAAAAAAAAA=","signer-id":"AAAAAAAAAAAAAAAAAAAAAAAAAAAAAAAAAAAAAAAAAAA="}]`),
		cArray(cMap(kvp{cUint(2), cBytes(rb(32, 1))}, kvp{cUint(5), cBytes(rb(32, 2))})))
	return seeds
}

func genC05(tier string, seed uint64, emit func(string)) {
	r := &rng{s: seed}
	all := func(b []byte) { emit("ALL " + hexTok(b)) }
	seeds := seedInputs(r)
	budget := 25
	if tier == "thorough" {
		budget = 400
	}
	for _, s := range seeds {
		all(s)
		// truncation at every offset (quick: strided)
		step := 1
		if tier != "thorough" && len(s) > 120 {
			step = len(s) / 120
		}
		for i := 0; i < len(s); i += step {
			all(s[:i])
		}
		// every single-byte substitution of the head region, random ones elsewhere
		for i := 0; i < len(s) && i < 24; i++ {
			for _, v := range []byte{0x00, 0x40, 0x60, 0x80, 0xa0, 0xc0, 0xe0, 0xf6, 0xff, 0x5f, 0x7f, 0x9f, 0xbf, 0x1b, 0x3b, 0x5b, 0x9b, 0xbb, '{', '[', '"', 'n'} {
				b := append([]byte{}, s...)
				b[i] = v
				all(b)
			}
		}
		for i := 0; i < budget*8; i++ {
			b := append([]byte{}, s...)
			for j := 0; j < 1+r.intn(3); j++ {
				b[r.intn(len(b))] = byte(r.next())
			}
			all(b)
		}
	}
	// structure-aware: null / empty / duplicate / type-swapped members at every depth
	nulls := []cv{cNull, cUndef, cArray(), cArray(cNull), cArray(cNull, cNull), cMap(), cBytes(nil), cText(""), cUint(0), cTag(0, cNull), cArray(cMap(kvp{cNull, cNull}))}
	for kind := 1; kind <= 2; kind++ {
		keys := p1Keys
		if kind == 2 {
			keys = p2Keys
		}
		for name := range keys {
			for _, v := range nulls {
				t := validToken(kind, r)
				t[name] = v
				b := assemble(kind, t, claimOrder, nil, false)
				all(b)
				all(envelope(cBytes(cMap(kvp{cUint(1), cNint(6)})), cMap(), cBytes(b), cBytes(rb(64, 1))))
			}
		}
		for _, comp := range []cv{cNull, cMap(), cMap(kvp{cUint(2), cNull}, kvp{cUint(5), cNull}), cMap(kvp{cUint(2), cArray(cNull)}), cArray(), cMap(kvp{cNull, cNull}), cMap(kvp{cUint(1), cNull}, kvp{cUint(1), cNull})} {
			t := validToken(kind, r)
			t["swc"] = cArray(comp, comp)
			all(assemble(kind, t, claimOrder, nil, false))
		}
	}
	// JSON: null / duplicate / type-swapped members
	for _, j := range []string{`null`, `{}`, `[]`, `""`, `0`, `{"psa-software-components":[null]}`, `{"psa-software-components":null,"psa-no-software-measurements":1}`,
		`{"eat-profile":"http://arm.com/psa/2.0.0","psa-software-components":[null,{}]}`, `{"eat-profile":"http://arm.com/psa/2.0.0","psa-nonce":[null]}`, `{"eat-profile":"http://arm.com/psa/2.0.0","psa-nonce":null,"psa-instance-id":null}`,
		`{"a":1,"a":2}`, `{"a":1,"a":2,"a":3}`, `{"a":1,"x":0,"a":2}`, `{"x":0,"a":1,"a":2}`, `{"p":1,"p":2,"d":1,"d":2}`, `{"a":null}`, `{"a":[]}`, `{"a":{}}`, `{"a":"s"}`, `{"a":1e400}`, `{"h":null,"p":null,"d":null}`,
		`{"psa-profile":"PSA_IOT_PROFILE_1","psa-profile":null}`, `{"eat-profile":42}`, `{"eat-profile":null}`, `{"eat-profile":["x"]}`, `{"psa-profile":"PSA_IOT_PROFILE_1","eat-profile":"http://arm.com/psa/2.0.0"}`,
		`{"psa-client-id":1e99}`, `{"psa-client-id":"x"}`, `{"psa-security-lifecycle":-1}`, `{"psa-implementation-id":"***"}`, `{"psa-implementation-id":5}`, `{"psa-nonce":{}}`} {
		all([]byte(j))
	}
	// odd CBOR heads
	for _, b := range [][]byte{{}, {0xc0}, {0xc0, 0xc0}, {0xd8}, {0xd9, 0xd9}, {0xdb, 0, 0, 0, 0, 0, 0, 0}, {0xa0}, {0xbf}, {0xbf, 0xff}, {0xff}, {0xf6}, {0xf7}, {0xd2}, {0xd2, 0x84}, {0xd2, 0x84, 0x40, 0xa0, 0xf6, 0x41, 0x00},
		{0xd2, 0x84, 0xf6, 0xa0, 0x40, 0x41, 0x00}, {0xd2, 0x84, 0x40, 0xa0, 0x41, 0xf6, 0x41, 0x00}, {0xd2, 0x84, 0x40, 0xa0, 0x41, 0xf7, 0x41, 0x00}, {0xa1, 0x19, 0x01, 0x09, 0xf6}, {0x81, 0xf6}, {0x82, 0xf6, 0xf6}} {
		all(b)
	}
}

func genC06(tier string, seed uint64, emit func(string)) {
	r := &rng{s: seed}
	all := func(b []byte) { emit("ALL " + hexTok(b)) }
	from := func(b []byte) { emit("FROM " + hexTok(b)) }
	// headers declaring large lengths with little or nothing behind them
	lens := []uint64{1 << 8, 1 << 12, 1 << 16, 1<<16 + 1, 1 << 20, 1 << 24, 1 << 28, 1<<31 - 1, 1 << 31, 1<<31 + 1, 1<<32 - 1}
	tails := [][]byte{{}, {0x00}, {0x01, 0x00}, {0x01, 0x00, 0x02, 0x00}, rb(16, 0x00)}
	for _, major := range []byte{2, 3, 4, 5} {
		for _, n := range lens {
			for _, width := range []int{4, 8} {
				if width == 4 && n >= 1<<32 {
					continue
				}
				head := cHeadWide(major, n, width)
				for _, tail := range tails {
					b := append(append([]byte{}, head...), tail...)
					all(b)
					from(b)
					from(append([]byte{0xd9, 0xd9, 0xf7}, b...))
					// inside a claims map, inside an envelope payload, as a component list
					all(append([]byte{0xa1, 0x19, 0x09, 0x5c}, b...))
					all(append([]byte{0xa1, 0x3a, 0x00, 0x01, 0x24, 0xfd}, b...))
					all(append([]byte{0xd2, 0x84, 0x40, 0xa0}, b...))
					all(append([]byte{0xd2, 0x84}, b...))
				}
			}
		}
	}
	// rejected profile claims first: whatever they leave behind (a lock, a half-written register) shows in every later case
	for _, j := range []string{`{"eat-profile":"http://example.com/not-registered"}`, `{"psa-profile":42}`, `{"eat-profile":["x"]}`, `{"psa-profile":"PSA_IOT_PROFILE_9"}`} {
		all([]byte(j))
	}
	// JSON with absurd numbers / long runs
	for _, j := range []string{`{"psa-client-id":` + strings.Repeat("9", 4000) + `}`, `[` + strings.Repeat("0,", 30000) + `0]`, `"` + strings.Repeat("A", 60000) + `"`} {
		all([]byte(j))
	}
	// objects with thousands of distinct member names, every one repeated (de-duplication must not cost quadratic memory)
	for _, cnt := range []int{500, 2500} {
		var sb strings.Builder
		sb.WriteString("{")
		for rep := 0; rep < 2; rep++ {
			for i := 0; i < cnt; i++ {
				if rep+i > 0 {
					sb.WriteString(",")
				}
				sb.WriteString(`"k` + strconv.Itoa(i) + `":0`)
			}
		}
		sb.WriteString("}")
		all([]byte(sb.String()))
		all([]byte(strings.Replace(sb.String(), `"k0":0`, `"psa-client-id":1`, 1)))
	}
	// deep nesting
	depths := []int{40, 200, 2000, 20000}
	for _, d := range depths {
		all(append(bytes81(d), 0x80))
		all(append(bytesRep(d, 0xa1, 0x01), 0x00))
		all(append(bytesRep(d, 0xc1), 0x00))
		all([]byte(strings.Repeat("[", d) + strings.Repeat("]", d)))
		all([]byte(strings.Repeat(`{"a":`, d) + "1" + strings.Repeat("}", d)))
		from(append(append([]byte{0xa1, 0x01}, bytes81(d)...), 0x80))
	}
	// valid tokens padded towards 64 KiB with an unknown key
	for _, pad := range []int{1000, 16000, 60000} {
		for kind := 1; kind <= 2; kind++ {
			t := validToken(kind, r)
			b := assemble(kind, t, claimOrder, []kvp{{cUint(9999), cBytes(rb(pad, 0x55))}}, false)
			all(b)
			all(envelope(cBytes(cMap(kvp{cUint(1), cNint(6)})), cMap(), cBytes(b), cBytes(rb(64, 1))))
			from(b)
		}
	}
	// many small entries
	n := 4000
	if tier == "thorough" {
		n = 30000
	}
	var ps []kvp
	for i := 0; i < n; i++ {
		ps = append(ps, kvp{cUint(uint64(10000 + i)), cUint(1)})
	}
	all(cMap(ps...))
	from(cMap(ps...))
}

func bytes81(d int) []byte { return bytesRep(d, 0x81) }
func bytesRep(d int, pat ...byte) []byte {
	out := make([]byte, 0, d*len(pat))
	for i := 0; i < d; i++ {
		out = append(out, pat...)
	}
	return out
}
