package main

import (
	"encoding/hex"
	"errors"
	"fmt"
	"reflect"
	"strconv"
	"strings"
	"unsafe"

	"github.com/veraison/eat"
	"github.com/veraison/psatoken"
)

// The 13 tokens of a claims-set in a case line:
// kind profile client lc impl boot cert swc nosw nonce inst vsi canon
const nClaimTok = 13

const (
	tKind = iota
	tProfile
	tClient
	tLc
	tImpl
	tBoot
	tCert
	tSwc
	tNosw
	tNonce
	tInst
	tVsi
	tCanon
)

func hx(s string) string { return hexTok([]byte(s)) }

func parseSwc(tok string) *psatoken.SwComponent {
	if tok == "nil" {
		return nil
	}
	f := strings.Split(tok, ",")
	if len(f) != 5 {
		panic("bad component token " + tok)
	}
	str := func(s string) *string {
		if s == "_" {
			return nil
		}
		v := string(parseHexTok(s))
		return &v
	}
	return &psatoken.SwComponent{
		MeasurementType: str(f[0]), MeasurementValue: parseOptHexTok(f[1]), Version: str(f[2]),
		SignerID: parseOptHexTok(f[3]), MeasurementDesc: str(f[4]),
	}
}

func unbracket(tok string) []string {
	if len(tok) < 2 || tok[0] != '[' || tok[len(tok)-1] != ']' {
		panic("bad list token " + tok)
	}
	body := tok[1 : len(tok)-1]
	if body == "" {
		return nil
	}
	return strings.Split(body, ";")
}

// a SwComponents container holding exactly vals (no validation)
func mkSwcs(vals []*psatoken.SwComponent) psatoken.ISwComponents {
	s := &psatoken.SwComponents[*psatoken.SwComponent]{}
	f := reflect.ValueOf(s).Elem().FieldByName("values")
	if !f.IsValid() {
		panic("SwComponents has no field 'values' any more: harness needs updating")
	}
	if vals == nil {
		vals = []*psatoken.SwComponent{}
	}
	reflect.NewAt(f.Type(), unsafe.Pointer(f.UnsafeAddr())).Elem().Set(reflect.ValueOf(vals))
	return s
}

func parseSwcs(tok string) psatoken.ISwComponents {
	if tok == "_" {
		return nil
	}
	var vals []*psatoken.SwComponent
	for _, it := range unbracket(tok) {
		vals = append(vals, parseSwc(it))
	}
	return mkSwcs(vals)
}

// minimal CBOR heads written by hand (independent of fxamacker)
func cborHead(major byte, n uint64) []byte {
	m := major << 5
	switch {
	case n < 24:
		return []byte{m | byte(n)}
	case n < 1<<8:
		return []byte{m | 24, byte(n)}
	case n < 1<<16:
		return []byte{m | 25, byte(n >> 8), byte(n)}
	case n < 1<<32:
		return []byte{m | 26, byte(n >> 24), byte(n >> 16), byte(n >> 8), byte(n)}
	}
	return []byte{m | 27, byte(n >> 56), byte(n >> 48), byte(n >> 40), byte(n >> 32), byte(n >> 24), byte(n >> 16), byte(n >> 8), byte(n)}
}

func cborBstr(b []byte) []byte { return append(cborHead(2, uint64(len(b))), b...) }

func mkNonce(items [][]byte) *eat.Nonce {
	var enc []byte
	if len(items) == 1 {
		enc = cborBstr(items[0])
	} else {
		enc = cborHead(4, uint64(len(items)))
		for _, it := range items {
			enc = append(enc, cborBstr(it)...)
		}
	}
	n := eat.Nonce{}
	if err := n.UnmarshalCBOR(enc); err != nil {
		panic("cannot build eat.Nonce: " + err.Error())
	}
	if n.Len() != len(items) {
		panic("eat.Nonce has unexpected length")
	}
	return &n
}

func parseClaims(t []string) psatoken.IClaims {
	if len(t) < nClaimTok {
		panic("short claims token list")
	}
	var clientV, lcV int64
	var client *int32
	if t[tClient] != "_" {
		v, err := strconv.ParseInt(t[tClient], 10, 32)
		if err != nil {
			panic(err)
		}
		w := int32(v)
		client = &w
		clientV = int64(v)
	}
	var lc *uint16
	if t[tLc] != "_" {
		v, err := strconv.ParseUint(t[tLc], 10, 16)
		if err != nil {
			panic(err)
		}
		w := uint16(v)
		lc = &w
		lcV = int64(v)
	}
	str := func(s string) *string {
		if s == "_" {
			return nil
		}
		v := string(parseHexTok(s))
		return &v
	}
	canon := string(parseHexTok(t[tCanon]))
	var nonces [][]byte
	hasNonce := t[tNonce] != "_"
	if hasNonce {
		for _, it := range unbracket(t[tNonce]) {
			nonces = append(nonces, parseHexTok(it))
		}
	}
	switch t[tKind] {
	case "1":
		c := &psatoken.P1Claims{ImplID: parseOptHexTok(t[tImpl]), BootSeed: parseOptHexTok(t[tBoot]),
			CertificationReference: str(t[tCert]), SwComponents: parseSwcs(t[tSwc]), InstID: parseOptHexTok(t[tInst]), VSI: str(t[tVsi]), CanonicalProfile: canon}
		setIntPtrField(c, "ClientID", client != nil, clientV)
		setIntPtrField(c, "SecurityLifeCycle", lc != nil, lcV)
		switch {
		case t[tProfile] == "_":
		case t[tProfile][0] == 's':
			c.Profile = str(t[tProfile][1:])
		default:
			panic("profile token not representable for P1: " + t[tProfile])
		}
		if t[tNosw] != "_" {
			v, _ := strconv.ParseUint(t[tNosw], 10, 64)
			setIntPtrField(c, "NoSwMeasurements", true, int64(v))
		}
		if hasNonce {
			if len(nonces) != 1 {
				panic("P1 nonce must have exactly one entry")
			}
			c.Nonce = &nonces[0]
		}
		return c
	case "2":
		c := &psatoken.P2Claims{ImplID: parseOptHexTok(t[tImpl]), BootSeed: parseOptHexTok(t[tBoot]),
			CertificationReference: str(t[tCert]), SwComponents: parseSwcs(t[tSwc]), VSI: str(t[tVsi]), CanonicalProfile: canon}
		setIntPtrField(c, "ClientID", client != nil, clientV)
		setIntPtrField(c, "SecurityLifeCycle", lc != nil, lcV)
		switch {
		case t[tProfile] == "_":
		case t[tProfile] == "z":
			c.Profile = &eat.Profile{}
		case t[tProfile] == "o":
			p, err := eat.NewProfile("1.2.3.4")
			if err != nil {
				panic(err)
			}
			c.Profile = p
		case t[tProfile][0] == 's':
			name := string(parseHexTok(t[tProfile][1:]))
			p, err := eat.NewProfile(name)
			if err != nil {
				panic("profile name not representable as eat.Profile: " + name)
			}
			if got, _ := p.Get(); got != name {
				panic("profile name is not in URL-normal form: " + name)
			}
			c.Profile = p
		}
		if t[tNosw] != "_" {
			panic("P2 has no no-measurements flag")
		}
		if hasNonce {
			c.Nonce = mkNonce(nonces)
		}
		if t[tInst] != "_" {
			u := eat.UEID(parseHexTok(t[tInst]))
			c.InstID = &u
		}
		return c
	}
	panic("bad kind " + t[tKind])
}

func optStrTok(s *string) string {
	if s == nil {
		return "_"
	}
	return hexTok([]byte(*s))
}

func printSwc(sc psatoken.ISwComponent) string {
	p, ok := sc.(*psatoken.SwComponent)
	if !ok {
		return fmt.Sprintf("foreign:%T", sc)
	}
	if p == nil {
		return "nil"
	}
	// the optional text fields are read through their getters as well: a getter that disagrees with
	// the stored field (value vs missing-optional) shows up in the printed component
	viaGetter := func(field *string, get func() (string, error)) string {
		want := optStrTok(field)
		v, err := get()
		got := ""
		switch {
		case err == nil:
			got = hexTok([]byte(v))
		case errors.Is(err, psatoken.ErrOptionalFieldMissing):
			got = "_"
		default:
			got = errTok(err)
		}
		if got != want {
			return "getter!" + got + "!field!" + want
		}
		return want
	}
	return strings.Join([]string{viaGetter(p.MeasurementType, p.GetMeasurementType), optHexTok(p.MeasurementValue), viaGetter(p.Version, p.GetVersion),
		optHexTok(p.SignerID), viaGetter(p.MeasurementDesc, p.GetMeasurementDesc)}, ",")
}

func resSwcs(v []psatoken.ISwComponent, err error) string {
	if err != nil {
		return errTok(err)
	}
	items := make([]string, len(v))
	for i, sc := range v {
		items[i] = printSwc(sc)
	}
	return "ok:[" + strings.Join(items, ";") + "]"
}

// validation verdict and all ten getter results of a claims-set
func obsGetters(c psatoken.IClaims) []string {
	return []string{
		guard(func() string { return errTok(c.Validate()) }),
		guard(func() string { return resStr(c.GetProfile()) }),
		guard(func() string {
			v, err := c.GetClientID()
			if err != nil {
				return errTok(err)
			}
			return "ok:" + itoa(int64(v))
		}),
		guard(func() string {
			v, err := c.GetSecurityLifeCycle()
			if err != nil {
				return errTok(err)
			}
			return "ok:" + utoa(uint64(v))
		}),
		guard(func() string { return resBytes(c.GetImplID()) }),
		guard(func() string { return resBytes(c.GetBootSeed()) }),
		guard(func() string { return resStr(c.GetCertificationReference()) }),
		guard(func() string { return resSwcs(c.GetSoftwareComponents()) }),
		guard(func() string { return resBytes(c.GetNonce()) }),
		guard(func() string { return resBytes(c.GetInstID()) }),
		guard(func() string { return resStr(c.GetVSI()) }),
	}
}

// ---- token-level construction of claims-sets for the generators

type ctoks [nClaimTok]string

func (c ctoks) String() string { return strings.Join(c[:], " ") }

func rep(n int, b byte) string {
	if n == 0 {
		return "."
	}
	return strings.Repeat(hex.EncodeToString([]byte{b}), n)
}

func validSwcTok(r *rng) string {
	sizes := []int{32, 48, 64}
	opt := func(s string) string {
		if r.intn(2) == 0 {
			return "_"
		}
		return hx(s)
	}
	return strings.Join([]string{opt("BL"), rep(sizes[r.intn(3)], byte(0x10+r.intn(200))), opt("1.2.3"),
		rep(sizes[r.intn(3)], byte(0x20+r.intn(200))), opt("sha-256")}, ",")
}

const p1Name = "PSA_IOT_PROFILE_1"
const p2Name = "http://arm.com/psa/2.0.0"

// a valid claims-set of the given kind; optional claims drawn at random
func validClaims(kind int, r *rng) ctoks {
	sizes := []int{32, 48, 64}
	var c ctoks
	c[tClient] = itoa(int64(int32(r.next())))
	if r.intn(4) == 0 {
		c[tClient] = []string{"0", "-1", "2147483647", "-2147483648", "1"}[r.intn(5)]
	}
	c[tLc] = utoa(uint64(r.intn(7)*0x1000 + r.intn(256)))
	c[tImpl] = rep(32, byte(r.intn(256)))
	c[tNonce] = "[" + rep(sizes[r.intn(3)], byte(r.intn(256))) + "]"
	c[tInst] = "01" + rep(32, byte(r.intn(256)))
	c[tVsi] = "_"
	if r.intn(2) == 0 {
		c[tVsi] = hx([]string{"https://veraison.example/v1", "a", "vsi with space", "é世"}[r.intn(4)])
	}
	ncomp := 1 + r.intn(4)
	comps := make([]string, ncomp)
	for i := range comps {
		comps[i] = validSwcTok(r)
	}
	c[tSwc] = "[" + strings.Join(comps, ";") + "]"
	c[tNosw] = "_"
	if kind == 1 {
		c[tKind] = "1"
		c[tCanon] = hx(p1Name)
		c[tProfile] = "_"
		if r.intn(2) == 0 {
			c[tProfile] = "s" + hx(p1Name)
		}
		c[tBoot] = rep(32, byte(r.intn(256)))
		c[tCert] = "_"
		switch r.intn(3) {
		case 0:
			c[tCert] = hx("1234567890123")
		case 1:
			c[tCert] = hx("1234567890123-12345")
		}
		if r.intn(4) == 0 {
			c[tSwc] = []string{"_", "[]"}[r.intn(2)]
			c[tNosw] = "1"
		}
	} else {
		c[tKind] = "2"
		c[tCanon] = hx(p2Name)
		c[tProfile] = "s" + hx(p2Name)
		c[tBoot] = "_"
		if r.intn(2) == 0 {
			c[tBoot] = rep(8+r.intn(25), byte(r.intn(256)))
		}
		c[tCert] = "_"
		if r.intn(2) == 0 {
			c[tCert] = hx("0604565272829-10010")
		}
	}
	return c
}

// raw contents of a SwComponents container (no validation)
func rawValues(s *psatoken.SwComponents[*psatoken.SwComponent]) []*psatoken.SwComponent {
	f := reflect.ValueOf(s).Elem().FieldByName("values")
	if !f.IsValid() {
		panic("SwComponents has no field 'values' any more: harness needs updating")
	}
	return reflect.NewAt(f.Type(), unsafe.Pointer(f.UnsafeAddr())).Elem().Interface().([]*psatoken.SwComponent)
}
