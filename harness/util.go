package main

import (
	"encoding/hex"
	"errors"
	"reflect"
	"strconv"
	"strings"

	"github.com/veraison/psatoken"
)

// splitmix64: the one PRNG all random choices derive from
type rng struct{ s uint64 }

func (r *rng) next() uint64 {
	r.s += 0x9e3779b97f4a7c15
	z := r.s
	z = (z ^ (z >> 30)) * 0xbf58476d1ce4e5b9
	z = (z ^ (z >> 27)) * 0x94d049bb133111eb
	return z ^ (z >> 31)
}
func (r *rng) intn(n int) int { return int(r.next() % uint64(n)) }
func (r *rng) bytes(n int) []byte {
	b := make([]byte, n)
	for i := range b {
		b[i] = byte(r.next())
	}
	return b
}

func hexTok(b []byte) string {
	if len(b) == 0 {
		return "."
	}
	return hex.EncodeToString(b)
}

func optHexTok(b *[]byte) string {
	if b == nil {
		return "_"
	}
	return hexTok(*b)
}

func parseHexTok(s string) []byte {
	if s == "." {
		return []byte{}
	}
	b, err := hex.DecodeString(s)
	if err != nil {
		panic("bad hex token " + s)
	}
	return b
}

// "_" => nil
func parseOptHexTok(s string) *[]byte {
	if s == "_" {
		return nil
	}
	b := parseHexTok(s)
	return &b
}

func bit(b bool) string {
	if b {
		return "1"
	}
	return "0"
}

func errBits(err error) string {
	return bit(errors.Is(err, psatoken.ErrMissingOptional)) + bit(errors.Is(err, psatoken.ErrMissingMandatory)) +
		bit(errors.Is(err, psatoken.ErrNotInProfile)) + bit(errors.Is(err, psatoken.ErrWrongProfile)) +
		bit(errors.Is(err, psatoken.ErrWrongSyntax))
}

func errTok(err error) string {
	if err == nil {
		return "ok"
	}
	return "e" + errBits(err)
}

// run f, mapping a panic to the token "panic"
func guard(f func() string) (out string) {
	defer func() {
		if r := recover(); r != nil {
			out = "panic"
		}
	}()
	return f()
}

func resBytes(v []byte, err error) string {
	if err != nil {
		return errTok(err)
	}
	return "ok:" + hexTok(v)
}

func resStr(v string, err error) string {
	if err != nil {
		return errTok(err)
	}
	return "ok:" + hexTok([]byte(v))
}

func utoa(v uint64) string { return strconv.FormatUint(v, 10) }
func itoa(v int64) string  { return strconv.FormatInt(v, 10) }

func fields(s string) []string { return strings.Split(s, " ") }

// integer pointer fields of the claims structs are written and read through reflection,
// so that the harness still builds (and can exhibit the failing input) when a field's
// integer type is changed in the library
func setIntPtrField(obj interface{}, name string, has bool, v int64) {
	f := reflect.ValueOf(obj).Elem().FieldByName(name)
	if !f.IsValid() {
		panic("no field " + name)
	}
	if !has {
		f.Set(reflect.Zero(f.Type()))
		return
	}
	p := reflect.New(f.Type().Elem())
	switch p.Elem().Kind() {
	case reflect.Int, reflect.Int8, reflect.Int16, reflect.Int32, reflect.Int64:
		p.Elem().SetInt(v)
	case reflect.Uint, reflect.Uint8, reflect.Uint16, reflect.Uint32, reflect.Uint64:
		p.Elem().SetUint(uint64(v))
	default:
		panic("field " + name + " is not an integer pointer")
	}
	f.Set(p)
}

func intPtrFieldTok(obj interface{}, name string) string {
	f := reflect.ValueOf(obj).Elem().FieldByName(name)
	if !f.IsValid() {
		panic("no field " + name)
	}
	if f.IsNil() {
		return "_"
	}
	switch f.Elem().Kind() {
	case reflect.Int, reflect.Int8, reflect.Int16, reflect.Int32, reflect.Int64:
		return itoa(f.Elem().Int())
	default:
		return utoa(f.Elem().Uint())
	}
}
