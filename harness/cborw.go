package main

import (
	"encoding/binary"
	"math"
)

// cw: a small CBOR writer, independent of fxamacker/cbor.  Values are
// represented as already-encoded byte strings so that malformed or
// non-preferred encodings can be produced on purpose.
type cv []byte

func cUint(n uint64) cv { return cv(cborHead(0, n)) }
func cNint(n uint64) cv { return cv(cborHead(1, n)) } // the integer -1-n
func cInt(z int64) cv {
	if z >= 0 {
		return cUint(uint64(z))
	}
	return cNint(uint64(-1 - z))
}
func cBytes(b []byte) cv { return cv(cborBstr(b)) }
func cText(s string) cv  { return append(cv(cborHead(3, uint64(len(s)))), s...) }
func cArray(items ...cv) cv {
	out := cv(cborHead(4, uint64(len(items))))
	for _, it := range items {
		out = append(out, it...)
	}
	return out
}

type kvp struct{ k, v cv }

func cMap(pairs ...kvp) cv {
	out := cv(cborHead(5, uint64(len(pairs))))
	for _, p := range pairs {
		out = append(out, p.k...)
		out = append(out, p.v...)
	}
	return out
}
func cTag(t uint64, v cv) cv { return append(cv(cborHead(6, t)), v...) }
func cSimple(n byte) cv {
	if n < 24 {
		return cv{0xe0 | n}
	}
	return cv{0xf8, n}
}

var cNull = cv{0xf6}
var cUndef = cv{0xf7}
var cTrue = cv{0xf5}
var cFalse = cv{0xf4}

func cFloat64(f float64) cv {
	b := make([]byte, 9)
	b[0] = 0xfb
	binary.BigEndian.PutUint64(b[1:], math.Float64bits(f))
	return b
}
func cFloat32(f float32) cv {
	b := make([]byte, 5)
	b[0] = 0xfa
	binary.BigEndian.PutUint32(b[1:], math.Float32bits(f))
	return b
}
func cFloat16bits(bits uint16) cv { return cv{0xf9, byte(bits >> 8), byte(bits)} }

// a head with a longer-than-necessary argument (non-preferred serialisation)
func cHeadWide(major byte, n uint64, width int) cv {
	m := major << 5
	switch width {
	case 1:
		return cv{m | 24, byte(n)}
	case 2:
		return cv{m | 25, byte(n >> 8), byte(n)}
	case 4:
		return cv{m | 26, byte(n >> 24), byte(n >> 16), byte(n >> 8), byte(n)}
	}
	return cv{m | 27, byte(n >> 56), byte(n >> 48), byte(n >> 40), byte(n >> 32), byte(n >> 24), byte(n >> 16), byte(n >> 8), byte(n)}
}

// indefinite-length forms
func cIndefBytes(chunks ...[]byte) cv {
	out := cv{0x5f}
	for _, c := range chunks {
		out = append(out, cborBstr(c)...)
	}
	return append(out, 0xff)
}
func cIndefArray(items ...cv) cv {
	out := cv{0x9f}
	for _, it := range items {
		out = append(out, it...)
	}
	return append(out, 0xff)
}
func cIndefMap(pairs ...kvp) cv {
	out := cv{0xbf}
	for _, p := range pairs {
		out = append(out, p.k...)
		out = append(out, p.v...)
	}
	return append(out, 0xff)
}
