package main

import (
	"strconv"
	"strings"
)

func init() {
	props["C01"] = &prop{gen: genC01}
	execs["C01"] = execC01
}

func execC01(in string) string {
	f := fields(in)
	c := parseClaims(f[1:])
	return strings.Join(obsGetters(c), " ")
}

// single-edit neighbourhood of a reference string over a hostile alphabet
func editNeighbourhood(ref string) []string {
	alpha := []string{"0", "9", "5", "-", "a", "\n", "０", "\xff", " ", "/", ":"}
	seen := map[string]bool{}
	var out []string
	add := func(s string) {
		if !seen[s] {
			seen[s] = true
			out = append(out, s)
		}
	}
	add(ref)
	for i := 0; i < len(ref); i++ {
		add(ref[:i] + ref[i+1:]) // delete
		for _, a := range alpha {
			add(ref[:i] + a + ref[i+1:]) // substitute
		}
	}
	for i := 0; i <= len(ref); i++ {
		for _, a := range alpha {
			add(ref[:i] + a + ref[i:]) // insert
		}
	}
	return out
}

// alternatives (mostly invalid or boundary) for each claim token
func claimAlternatives(kind int, r *rng) map[int][]string {
	alt := map[int][]string{}
	var lens []string
	for n := 0; n <= 80; n++ {
		lens = append(lens, rep(n, 0x5a))
	}
	alt[tImpl] = append([]string{"_"}, lens...)
	alt[tBoot] = append([]string{"_"}, lens...)
	alt[tInst] = []string{"_"}
	for n := 0; n <= 80; n++ {
		for _, first := range []string{"01", "00", "02", "ff"} {
			if n == 0 {
				alt[tInst] = append(alt[tInst], ".")
				break
			}
			tok := first
			if n > 1 {
				tok += rep(n-1, 0x77)
			}
			alt[tInst] = append(alt[tInst], tok)
		}
	}
	alt[tNonce] = []string{"_"}
	for n := 0; n <= 80; n++ {
		alt[tNonce] = append(alt[tNonce], "["+rep(n, 0x33)+"]")
	}
	if kind == 2 {
		alt[tNonce] = append(alt[tNonce], "[]", "["+rep(32, 1)+";"+rep(32, 2)+"]", "["+rep(32, 1)+";"+rep(7, 2)+"]", "["+rep(32, 1)+";"+rep(32, 2)+";"+rep(48, 3)+"]")
	}
	alt[tClient] = []string{"_", "0", "-1", "1", "2147483647", "-2147483648"}
	alt[tLc] = []string{"_"}
	for p := 0; p < 8; p++ {
		for _, d := range []int{-1, 0, 1, 0xff, 0x100, 0x7f} {
			v := p*0x1000 + d
			if v >= 0 && v < 65536 {
				alt[tLc] = append(alt[tLc], utoa(uint64(v)))
			}
		}
	}
	alt[tLc] = append(alt[tLc], "65535", "32768", "28672", "2048", "4607")
	alt[tVsi] = []string{"_", ".", hx("x"), hx("\xff\xfe"), hx(" ")}
	for _, ref := range []string{"1234567890123", "1234567890123-12345"} {
		for _, s := range editNeighbourhood(ref) {
			alt[tCert] = append(alt[tCert], hx(s))
		}
	}
	alt[tCert] = append(alt[tCert], "_", hx("x1234567890123"), hx("1234567890123\n"), hx("1234567890123-12345\n"), hx("1234567890123-12345-12345"), hx("12345678901234567890123"))
	// software components
	good := func() string { return validSwcTok(r) }
	bad := []string{
		"nil",
		"_,_,_,_,_",
		"_," + rep(32, 1) + ",_,_,_",
		"_,_,_," + rep(32, 1) + ",_",
		"_," + rep(31, 1) + ",_," + rep(32, 2) + ",_",
		"_," + rep(32, 1) + ",_," + rep(33, 2) + ",_",
		"_," + rep(65, 1) + ",_," + rep(64, 2) + ",_",
		"_,.,_," + rep(64, 2) + ",_",
		".," + rep(32, 1) + ",.," + rep(48, 2) + ",.",
		hx("\xff") + "," + rep(48, 1) + "," + hx("v") + "," + rep(64, 2) + "," + hx("md5"),
	}
	alt[tSwc] = []string{"_", "[]"}
	for n := 1; n <= 4; n++ {
		for pos := 0; pos < n; pos++ {
			for _, b := range bad {
				items := make([]string, n)
				for i := range items {
					items[i] = good()
				}
				items[pos] = b
				alt[tSwc] = append(alt[tSwc], "["+strings.Join(items, ";")+"]")
			}
		}
	}
	for n := 0; n <= 80; n++ { // hash lengths of the two mandatory component fields, exhaustively
		alt[tSwc] = append(alt[tSwc], "[_,"+rep(n, 9)+",_,"+rep(32, 8)+",_]", "[_,"+rep(48, 9)+",_,"+rep(n, 8)+",_]")
	}
	if kind == 1 {
		alt[tNosw] = []string{"_", "0", "1", "2", "18446744073709551615"}
		alt[tProfile] = []string{"_", "s" + hx(p1Name), "s" + hx(p2Name), "s.", "s" + hx("PSA_IOT_PROFILE_2"), "s" + hx(p1Name+" ")}
		alt[tCanon] = []string{hx(p1Name), hx(p2Name), ".", hx("http://example.com/derived/1.0")}
	} else {
		alt[tProfile] = []string{"_", "s" + hx(p2Name), "s" + hx("http://arm.com/psa/3.0.0"), "s" + hx("http://arm.com/psa/2.0.0/"), "o", "z", "s" + hx("https://arm.com/psa/2.0.0")}
		alt[tCanon] = []string{hx(p2Name), hx(p1Name), ".", hx("http://arm.com/psa/3.0.0")}
	}
	return alt
}

func genC01(tier string, seed uint64, emit func(string)) {
	r := &rng{s: seed}
	for kind := 1; kind <= 2; kind++ {
		alt := claimAlternatives(kind, r)
		// 1. every alternative of every claim, alone, on a few valid bases (exhaustive single deviations)
		for b := 0; b < 2; b++ {
			base := validClaims(kind, r)
			emit("C01 " + base.String())
			for f := 0; f < nClaimTok; f++ {
				for _, a := range alt[f] {
					c := base
					c[f] = a
					emit("C01 " + c.String())
					// P1: with and without the flag interplay
					if kind == 1 && f == tSwc && b == 0 {
						c[tNosw] = "1"
						emit("C01 " + c.String())
					}
				}
			}
		}
		// 2. random combinations of deviations (masking)
		n := 6000
		if tier == "thorough" {
			n = 90000
		}
		for i := 0; i < n; i++ {
			c := validClaims(kind, r)
			k := 1 + r.intn(3)
			for j := 0; j < k; j++ {
				f := 1 + r.intn(nClaimTok-1)
				if len(alt[f]) > 0 {
					c[f] = alt[f][r.intn(len(alt[f]))]
				}
			}
			emit("C01 " + c.String())
		}
		// 3. purely valid claims-sets (all optional-claim subsets arise at random)
		for i := 0; i < n/6; i++ {
			emit("C01 " + validClaims(kind, r).String())
		}
		// 4. the verdict depends on the claims-set as it is NOW: a fully populated claims-set whose stored
		// component is then changed (made malformed, or replaced by another well-formed one) through the
		// pointer the caller retained; Validate() and all getters are observed after every step
		init := []string{"new1", "new2"}[kind-1]
		for i := 0; i < n/40; i++ {
			var seq []string
			for _, nm := range setterNames {
				seq = append(seq, validOp(kind, nm, r))
			}
			ss := seq[len(seq)-1]
			if !strings.HasPrefix(ss, "ss:[") || !isValidSS(ss) || strings.Contains(ss[4:], "_,_,_") {
				continue
			}
			cnt := strings.Count(ss, ";") + 1
			for k := 0; k < 1+r.intn(3); k++ {
				newc := []string{validSwcTok(r), "_," + rep(31, 1) + ",_," + rep(32, 2) + ",_", "_,_,_," + rep(32, 2) + ",_", validSwcTok(r)}[r.intn(4)]
				seq = append(seq, "mc:"+strconv.Itoa(r.intn(cnt))+":"+newc)
			}
			emit("HIST " + init + " " + strings.Join(seq, " "))
		}
	}
}
