package main

import (
	"strconv"
	"strings"

	"github.com/veraison/psatoken"
)

func init() {
	execs["SRT"] = execSrt
	props["C03"] = &prop{gen: genC03}
}

func execSrt(in string) string {
	f := fields(in)
	k, _ := strconv.Atoi(f[1])
	c := parseClaims(f[2:])
	ev := &psatoken.Evidence{Claims: c}
	tok, err := ev.ValidateAndSign(mkSigner("g" + f[1]))
	if err != nil {
		return "err"
	}
	// unrelated work in between: encoding and signing another claims-set must not disturb this Evidence or its token
	{
		r := &rng{s: 7}
		oc := parseClaims(func() []string { c := validClaims(1+k%2, r); return c[:] }())
		_, _ = psatoken.EncodeClaimsToCBOR(oc)
		ev3 := &psatoken.Evidence{Claims: oc}
		_, _ = ev3.Sign(mkSigner("g1"))
		// the validating encoder and signer too, a few times (pooled or cached buffers get reused)
		for i := 0; i < 4; i++ {
			oc2 := parseClaims(func() []string { c := validClaims(1+(k+i)%2, r); return c[:] }())
			_, _ = psatoken.ValidateAndEncodeClaimsToCBOR(oc2)
			_, _ = psatoken.ValidateAndEncodeClaimsToJSON(oc2)
			_, _ = (&psatoken.Evidence{Claims: oc2}).ValidateAndSign(mkSigner("g2"))
		}
	}
	parts := splitSign1(tok)
	// protected header: a byte string; unprotected: the empty map; payload: a byte string
	if parts[0][0]>>5 != 2 || len(parts[1]) != 1 || parts[1][0] != 0xa0 || parts[2][0]>>5 != 2 || len(tok) != 2+len(parts[0])+len(parts[1])+len(parts[2])+len(parts[3]) {
		return "bad-envelope"
	}
	bstrContent := func(item []byte) []byte {
		n := itemLen(item)
		hl := n - contentLen(item)
		return item[hl:n]
	}
	out := []string{"ok", hexTok(bstrContent(parts[0])), hexTok(bstrContent(parts[2]))}
	ev2, err := psatoken.DecodeEvidenceFromCOSE(append([]byte{}, tok...))
	if err != nil {
		return strings.Join(append(out, "err", "nil", "err", "err", "err"), " ")
	}
	out = append(out, "ok", claimsSummary(ev2.Claims))
	keys := theKeys()
	other := k%5 + 1
	out = append(out, okErr(ev2.Verify(keys[k].pub)), okErr(ev.Verify(keys[k].pub)), okErr(ev2.Verify(keys[other].pub)))
	return strings.Join(out, " ")
}

// number of content bytes of a definite-length string item
func contentLen(item []byte) int {
	ai := item[0] & 0x1f
	switch {
	case ai < 24:
		return int(ai)
	case ai == 24:
		return int(item[1])
	case ai == 25:
		return int(item[1])<<8 | int(item[2])
	case ai == 26:
		return int(item[1])<<24 | int(item[2])<<16 | int(item[3])<<8 | int(item[4])
	}
	panic("contentLen")
}

func genC03(tier string, seed uint64, emit func(string)) {
	r := &rng{s: seed}
	n := 60
	if tier == "thorough" {
		n = 800
	}
	for kind := 1; kind <= 2; kind++ {
		for i := 0; i < n; i++ {
			c := validClaims(kind, r)
			// valid UTF-8 texts only (the invalid-UTF-8 finding K2 is exercised and reported under C09)
			for k := 1; k <= 5; k++ {
				emit("SRT " + strconv.Itoa(k) + " " + c.String())
			}
		}
		// re-signing a decoded Evidence with another key / algorithm, and signing twice
		for i := 0; i < n/2; i++ {
			c := validClaims(kind, r)
			k1, k2 := 1+r.intn(5), 1+r.intn(5)
			emit("EV 1 " + c.String() + " set:0 vsign:g" + strconv.Itoa(k1) + " dec:t0 ver:" + strconv.Itoa(k1) +
				" vsign:g" + strconv.Itoa(k2) + " ver:" + strconv.Itoa(k2) + " dec:t1 ver:" + strconv.Itoa(k2) + " ver:" + strconv.Itoa(k1) + " dec:t0 ver:" + strconv.Itoa(k1))
		}
		// the claims change between two signings -- through the attached object (in place), by a new SetClaims, or by
		// decoding another token into the same Evidence: every token must carry the claims attached when it was signed
		for i := 0; i < n/2; i++ {
			c1, c2 := validClaims(kind, r), validClaims(kind, r)
			k1, k2 := strconv.Itoa(1+r.intn(5)), strconv.Itoa(1+r.intn(5))
			sg := []string{"vsign", "sign"}[r.intn(2)]
			change := []string{"mut:1", "set:1", "mut:1 mut:0 mut:1"}[r.intn(3)]
			emit("EV 2 " + c1.String() + " " + c2.String() + " set:0 vsign:g" + k1 + " " + change + " " + sg + ":g" + k2 +
				" dec:t1 ver:" + k2 + " dec:t0 ver:" + k1 + " " + sg + ":g" + k2 + " dec:t2 ver:" + k2)
		}
		// a few invalid ones: must fail
		alt := claimAlternatives(kind, r)
		for i := 0; i < n/2; i++ {
			c := validClaims(kind, r)
			fld := 1 + r.intn(nClaimTok-1)
			if len(alt[fld]) > 0 {
				c[fld] = alt[fld][r.intn(len(alt[fld]))]
			}
			if c[tVsi] == hx("\xff\xfe") || strings.Contains(c[tSwc], hx("\xff")+",") {
				continue
			}
			emit("SRT " + strconv.Itoa(1+r.intn(5)) + " " + c.String())
		}
	}
}
