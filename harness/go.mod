module harness

go 1.21

require (
	github.com/fxamacker/cbor/v2 v2.5.0
	github.com/veraison/eat v0.0.0-20210331113810-3da8a4dd42ff
	github.com/veraison/go-cose v1.3.0-rc.1
	github.com/veraison/psatoken v0.0.0
)

require (
	github.com/davecgh/go-spew v1.1.1 // indirect
	github.com/lestrrat-go/blackmagic v1.0.1 // indirect
	github.com/lestrrat-go/httpcc v1.0.1 // indirect
	github.com/lestrrat-go/httprc v1.0.4 // indirect
	github.com/lestrrat-go/iter v1.0.2 // indirect
	github.com/lestrrat-go/jwx/v2 v2.0.8 // indirect
	github.com/lestrrat-go/option v1.0.0 // indirect
	github.com/pmezard/go-difflib v1.0.0 // indirect
	github.com/stretchr/testify v1.8.1 // indirect
	github.com/x448/float16 v0.8.4 // indirect
	golang.org/x/crypto v0.0.0-20220427172511-eb4f295cb31f // indirect
	gopkg.in/yaml.v3 v3.0.1 // indirect
)

replace github.com/veraison/psatoken => /repo
