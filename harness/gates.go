package main

import (
	"bytes"
	"strings"

	"github.com/veraison/psatoken"
)

func init() {
	execs["GATE"] = execGate
	execs["DECV"] = execDecv
	props["C08"] = &prop{gen: genC08}
}

func optEnc(b []byte, err error) string {
	if err != nil {
		if len(b) != 0 {
			return "err-with-bytes"
		}
		return "err"
	}
	return "ok:" + hexTok(b)
}

func execGate(in string) string {
	f := fields(in)
	mk := func() psatoken.IClaims { return parseClaims(f[1:]) }
	c := mk()
	out := []string{guard(func() string { return errTok(c.Validate()) })}
	out = append(out, guard(func() string { return optEnc(psatoken.ValidateAndEncodeClaimsToCBOR(mk())) }))
	out = append(out, guard(func() string { return optEnc(psatoken.EncodeClaimsToCBOR(mk())) }))
	ev := &psatoken.Evidence{}
	out = append(out, guard(func() string {
		if err := ev.SetClaims(mk()); err != nil {
			return "err"
		}
		return "ok"
	}))
	if ev.Claims != nil {
		out = append(out, "1")
	} else {
		out = append(out, "0")
	}
	out = append(out, guard(func() string {
		c2 := mk()
		ev2 := &psatoken.Evidence{Claims: c2}
		tok, err := ev2.ValidateAndSign(mkSigner("g1"))
		if err != nil {
			if len(tok) != 0 {
				return "err-with-token"
			}
			return "err"
		}
		// the token's payload must be the plain encoding
		plain, err2 := psatoken.EncodeClaimsToCBOR(c2)
		parts := splitSign1(tok)
		if err2 != nil || !bytes.Equal(parts[2], cborBstr(plain)) {
			return "ok-but-payload-differs"
		}
		return "ok"
	}))
	return strings.Join(out, " ")
}

func okErr(err error) string {
	if err != nil {
		return "err"
	}
	return "ok"
}

func execDecv(in string) string {
	f := fields(in)
	b := parseHexTok(f[1])
	out := []string{
		guard(func() string {
			_, err := psatoken.DecodeAndValidateClaimsFromCBOR(append([]byte{}, b...))
			return okErr(err)
		}),
		guard(func() string { _, err := psatoken.DecodeClaimsFromCBOR(append([]byte{}, b...)); return okErr(err) }),
	}
	env := append([]byte{0xd2, 0x84, 0x43, 0xa1, 0x01, 0x26, 0xa0}, cborBstr(b)...)
	env = append(env, 0x41, 0x00)
	out = append(out,
		guard(func() string {
			_, err := psatoken.DecodeAndValidateEvidenceFromCOSE(append([]byte{}, env...))
			return okErr(err)
		}),
		guard(func() string { _, err := psatoken.DecodeEvidenceFromCOSE(append([]byte{}, env...)); return okErr(err) }))
	return strings.Join(out, " ")
}

func genC08(tier string, seed uint64, emit func(string)) {
	// every C01 claims-set through the encoding / attaching / signing gates
	genC01(tier, seed, func(line string) {
		if strings.HasPrefix(line, "C01 ") {
			emit("GATE " + line[4:])
		}
	})
	// the claims object changes after it was attached (no second SetClaims): validate-and-sign must notice
	r := &rng{s: seed ^ 0x5bd1e995}
	for i := 0; i < 300; i++ {
		kind := 1 + r.intn(2)
		good := validClaims(kind, r)
		bad := validClaims(kind, r)
		alt := claimAlternatives(kind, r)
		for {
			fld := 1 + r.intn(nClaimTok-1)
			if len(alt[fld]) > 0 {
				bad[fld] = alt[fld][r.intn(len(alt[fld]))]
				break
			}
		}
		if strings.Contains(bad[tSwc], "nil") || bad[tVsi] == hx("\xff\xfe") || strings.Contains(bad[tSwc], hx("\xff")+",") || bad[tProfile] == "o" || bad[tProfile] == "z" {
			continue
		}
		emit("EV 2 " + good.String() + " " + bad.String() + " set:0 mut:1 vsign:g1 ver:1 set:1 sign:g1 set:0 vsign:g2 mut:1 vsign:g2")
	}
	// JSON gates: ValidateAndEncodeClaimsToJSON / DecodeAndValidateClaimsFromJSON against their twins (texts that need escaping included)
	nj := 0
	genC12(tier, seed, func(line string) {
		if nj%5 == 0 || tier == "thorough" {
			emit(line)
		}
		nj++
	})
	// the gates of an extension profile that has a rule of its own
	for i := 0; i < 120; i++ {
		c := validClaims(2, r)
		extra := []string{"_", "-1", "0", "5", "-70000", "9"}[r.intn(6)]
		if r.intn(4) == 0 {
			c[tNonce] = "[" + rep(31, 7) + "]"
		}
		emit("XGATE " + extra + " " + c.String())
	}
	// decoding gates: the C04 tokens
	genC04(tier, seed, func(line string) {
		if strings.HasPrefix(line, "DEC ") {
			emit("DECV " + line[4:])
		}
	})
}
