package main

import (
	"strconv"
	"strings"

	"github.com/veraison/psatoken"
)

func init() {
	props["C14"] = &prop{gen: genC14}
	execs["C14"] = execC14
}

func genC14(tier string, seed uint64, emit func(string)) {
	// exhaustive over all 2^16 values: fresh claims-set, and a claims-set
	// that already stores the very value being set
	for v := 0; v < 65536; v++ {
		emit("C14 " + strconv.Itoa(v) + " _")
		emit("C14 " + strconv.Itoa(v) + " " + strconv.Itoa(v))
	}
	// sampled: other preloaded values (a valid and an invalid one)
	r := &rng{s: seed}
	n := 4096
	if tier == "thorough" {
		n = 65536
	}
	for i := 0; i < n; i++ {
		v := r.intn(65536)
		if tier == "thorough" {
			v = i
		}
		pre := []int{0x3000, 0xffff, 0x00ff, 0x6100}[r.intn(4)]
		emit("C14 " + strconv.Itoa(v) + " " + strconv.Itoa(pre))
	}
}

func execC14(in string) string {
	f := fields(in)
	v64, _ := strconv.ParseUint(f[1], 10, 16)
	v := uint16(v64)
	var pre *uint16
	if f[2] != "_" {
		p64, _ := strconv.ParseUint(f[2], 10, 16)
		p := uint16(p64)
		pre = &p
	}
	st := psatoken.LifeCycleToState(v)
	out := []string{
		utoa(uint64(st)), hexTok([]byte(st.String())), bit(st.IsValid()),
		errTok(psatoken.ValidateSecurityLifeCycle(v)),
	}
	mk := func(name string) psatoken.IClaims {
		c, err := psatoken.NewClaims(name)
		if err != nil {
			panic(err)
		}
		return c
	}
	for _, name := range []string{psatoken.Profile1Name, psatoken.Profile2Name} {
		c := mk(name)
		if pre != nil {
			setIntPtrField(c, "SecurityLifeCycle", true, int64(*pre))
		}
		out = append(out, guard(func() string { return errTok(c.SetSecurityLifeCycle(v)) }))
		out = append(out, intPtrFieldTok(c, "SecurityLifeCycle"))
		c2 := mk(name)
		setIntPtrField(c2, "SecurityLifeCycle", true, int64(v))
		out = append(out, guard(func() string {
			g, err := c2.GetSecurityLifeCycle()
			if err != nil {
				return errTok(err)
			}
			return "ok:" + utoa(uint64(g))
		}))
	}
	return strings.Join(out, " ")
}
