package main

import (
	"errors"
	"strconv"
	"sync"

	"github.com/veraison/eat"
	"github.com/veraison/psatoken"
	"github.com/veraison/psatoken/encoding"
)

// XGATE <extra> <13 claims tokens (profile 2)>: an extension profile with a rule of its own (the extra claim
// must be present and non-negative) through the validating decoders: they must agree with the profile's Validate()
type GateExtClaims struct {
	psatoken.P2Claims
	Extra *int64 `cbor:"-70007,keyasint,omitempty" json:"gate-extra,omitempty"`
}

func (o *GateExtClaims) Validate() error {
	if err := psatoken.ValidateClaims(o); err != nil {
		return err
	}
	if o.Extra == nil || *o.Extra < 0 {
		return errors.New("gate-extra must be present and non-negative")
	}
	return nil
}
func (o GateExtClaims) MarshalCBOR() ([]byte, error) {
	return encoding.SerializeStructToCBOR(embEm, &o)
}
func (o *GateExtClaims) UnmarshalCBOR(d []byte) error {
	return encoding.PopulateStructFromCBOR(embDm, d, o)
}
func (o GateExtClaims) MarshalJSON() ([]byte, error)  { return encoding.SerializeStructToJSON(&o) }
func (o *GateExtClaims) UnmarshalJSON(d []byte) error { return encoding.PopulateStructFromJSON(d, o) }

const gateExtName = "http://example.com/gate/7"

var gateOnce sync.Once

func mkGateExt() psatoken.IClaims {
	p := eat.Profile{}
	if err := p.Set(gateExtName); err != nil {
		panic(err)
	}
	return &GateExtClaims{P2Claims: psatoken.P2Claims{Profile: &p, SwComponents: &psatoken.SwComponents[*psatoken.SwComponent]{}, CanonicalProfile: gateExtName}}
}

func init() {
	execs["XGATE"] = execXGate
}

func execXGate(in string) string {
	gateOnce.Do(func() {
		if err := psatoken.RegisterProfile(extProfile{gateExtName, mkGateExt}); err != nil {
			panic(err)
		}
	})
	f := fields(in)
	base, ok := parseClaims(f[2 : 2+nClaimTok]).(*psatoken.P2Claims)
	if !ok {
		panic("XGATE needs profile-2 claims")
	}
	c := mkGateExt().(*GateExtClaims)
	prof := c.Profile
	c.P2Claims = *base
	c.Profile = prof
	c.CanonicalProfile = gateExtName
	if f[1] != "_" {
		v, _ := strconv.ParseInt(f[1], 10, 64)
		c.Extra = &v
	}
	bit := func(err error) string {
		if err != nil {
			return "err"
		}
		return "ok"
	}
	out := "v=" + bit(c.Validate())
	ev := &psatoken.Evidence{Claims: c}
	tok, err := ev.Sign(mkSigner("g1"))
	if err != nil {
		return out + " nosig"
	}
	_, e1 := psatoken.DecodeEvidenceFromCOSE(append([]byte{}, tok...))
	_, e2 := psatoken.DecodeAndValidateEvidenceFromCOSE(append([]byte{}, tok...))
	payload := bstrContent(splitSign1(tok)[2])
	_, e3 := psatoken.DecodeAndValidateClaimsFromCBOR(append([]byte{}, payload...))
	_, e4 := psatoken.ValidateAndEncodeClaimsToCBOR(c)
	j, jerr := psatoken.EncodeClaimsToJSON(c)
	e5 := jerr
	if jerr == nil {
		_, e5 = psatoken.DecodeAndValidateClaimsFromJSON(j)
	}
	return out + " de=" + bit(e1) + " dve=" + bit(e2) + " dvc=" + bit(e3) + " vec=" + bit(e4) + " dvj=" + bit(e5) + " set=" + bit((&psatoken.Evidence{}).SetClaims(c))
}
