// harness: drives the real psatoken library on generated cases and prints
// one "<input>\t<observation>" line per case.  The same input lines are
// evaluated by the Coq model (extracted to OCaml, and a subset inside coqc).
//
//	harness gen  <prop> <tier> <seed>   generate cases, execute them, print lines
//	harness exec <prop>                 read input lines on stdin, execute, print lines
package main

import (
	"bufio"
	"fmt"
	"os"
	"strings"
	"sync/atomic"
	"time"
)

type prop struct {
	gen func(tier string, seed uint64, emit func(string))
}

var props = map[string]*prop{}

// executors by case kind (first token of an input line)
var execs = map[string]func(input string) string{}

func main() {
	if len(os.Args) == 3 && os.Args[1] == "regchild" {
		fmt.Println(runRegChild(fields(os.Args[2])[1:]))
		return
	}
	if len(os.Args) < 3 {
		fmt.Fprintln(os.Stderr, "usage: harness gen|exec <prop> [tier seed]")
		os.Exit(2)
	}
	p, ok := props[os.Args[2]]
	if !ok {
		fmt.Fprintln(os.Stderr, "unknown property", os.Args[2])
		os.Exit(2)
	}
	w := bufio.NewWriterSize(os.Stdout, 1<<20)
	defer w.Flush()
	// HARNESS_FLUSH: log the input before executing it, so that a fatal runtime error
	// (out of memory, stack exhaustion) is attributed to the input that caused it
	flush := os.Getenv("HARNESS_FLUSH") != ""
	// watchdog: a case that does not return (a lock never released, an endless loop) ends the process
	// with exit code 70; with HARNESS_FLUSH the input that hangs is the last line written
	var caseStart atomic.Int64
	go func() {
		for {
			time.Sleep(time.Second)
			if st := caseStart.Load(); st != 0 && time.Since(time.Unix(0, st)) > 60*time.Second {
				fmt.Fprintln(os.Stderr, "watchdog: the case did not return within 60 s (hang)")
				os.Exit(70)
			}
		}
	}()
	run := func(in string) {
		caseStart.Store(time.Now().UnixNano())
		defer caseStart.Store(0)
		if flush {
			w.WriteString(in)
			w.WriteByte('\t')
			w.Flush()
			w.WriteString(safeExec(p, in))
			w.WriteByte('\n')
			w.Flush()
			return
		}
		obs := safeExec(p, in)
		w.WriteString(in)
		w.WriteByte('\t')
		w.WriteString(obs)
		w.WriteByte('\n')
	}
	switch os.Args[1] {
	case "gen":
		tier, seed := "quick", uint64(1)
		if len(os.Args) > 3 {
			tier = os.Args[3]
		}
		if len(os.Args) > 4 {
			fmt.Sscan(os.Args[4], &seed)
		}
		p.gen(tier, seed, run)
	case "exec":
		sc := bufio.NewScanner(os.Stdin)
		sc.Buffer(make([]byte, 1<<20), 1<<26)
		for sc.Scan() {
			line := sc.Text()
			if i := strings.IndexByte(line, '\t'); i >= 0 {
				line = line[:i]
			}
			if line == "" {
				continue
			}
			run(line)
		}
	}
}

func safeExec(p *prop, in string) (obs string) {
	defer func() {
		if r := recover(); r != nil {
			obs = "PANIC-IN-HARNESS " + strings.ReplaceAll(fmt.Sprint(r), "\n", " ")
		}
	}()
	kind := in
	if i := strings.IndexByte(in, ' '); i >= 0 {
		kind = in[:i]
	}
	ex, ok := execs[kind]
	if !ok {
		return "PANIC-IN-HARNESS unknown case kind " + kind
	}
	return ex(in)
}
