package main

import (
	"bytes"
	"encoding/json"
	"fmt"
	"os"
	"os/exec"
	"strconv"
	"strings"

	"github.com/veraison/eat"
	"github.com/veraison/psatoken"
	"github.com/veraison/psatoken/encoding"
)

func init() {
	execs["REG"] = execRegParent
	props["C16"] = &prop{gen: genC16}
	props["C07"] = &prop{gen: genC07}
}

// ---- extension profiles

type Ext2Claims struct {
	psatoken.P2Claims
	Extra *int64 `cbor:"-70000,keyasint,omitempty" json:"ext-extra,omitempty"`
}

func (o *Ext2Claims) Validate() error             { return psatoken.ValidateClaims(o) }
func (o Ext2Claims) MarshalCBOR() ([]byte, error) { return encoding.SerializeStructToCBOR(embEm, &o) }
func (o *Ext2Claims) UnmarshalCBOR(d []byte) error {
	return encoding.PopulateStructFromCBOR(embDm, d, o)
}
func (o Ext2Claims) MarshalJSON() ([]byte, error)  { return encoding.SerializeStructToJSON(&o) }
func (o *Ext2Claims) UnmarshalJSON(d []byte) error { return encoding.PopulateStructFromJSON(d, o) }

type Ext1Claims struct {
	psatoken.P1Claims
	Extra *int64 `cbor:"-70001,keyasint,omitempty" json:"ext-extra,omitempty"`
}

func (o *Ext1Claims) Validate() error             { return psatoken.ValidateClaims(o) }
func (o Ext1Claims) MarshalCBOR() ([]byte, error) { return encoding.SerializeStructToCBOR(embEm, &o) }
func (o *Ext1Claims) UnmarshalCBOR(d []byte) error {
	return encoding.PopulateStructFromCBOR(embDm, d, o)
}
func (o Ext1Claims) MarshalJSON() ([]byte, error)  { return encoding.SerializeStructToJSON(&o) }
func (o *Ext1Claims) UnmarshalJSON(d []byte) error { return encoding.PopulateStructFromJSON(d, o) }

// a claims type without any profile field
type NoProfClaims struct {
	psatoken.IClaims `cbor:"-" json:"-"`
	A                *int64 `cbor:"1,keyasint" json:"a"`
}

type extProfile struct {
	name string
	mk   func() psatoken.IClaims
}

func (p extProfile) GetName() string             { return p.name }
func (p extProfile) GetClaims() psatoken.IClaims { return p.mk() }

func extName(i int) string { return "http://example.com/ext/" + strconv.Itoa(i) }

func mkExt(i int) extProfile {
	switch i {
	case 1, 2:
		name := extName(i)
		return extProfile{name, func() psatoken.IClaims {
			p := eat.Profile{}
			if err := p.Set(name); err != nil {
				panic(err)
			}
			return &Ext2Claims{P2Claims: psatoken.P2Claims{Profile: &p, SwComponents: &psatoken.SwComponents[*psatoken.SwComponent]{}, CanonicalProfile: name}}
		}}
	case 3:
		name := extName(3)
		return extProfile{name, func() psatoken.IClaims {
			n := name
			return &Ext1Claims{P1Claims: psatoken.P1Claims{Profile: &n, SwComponents: &psatoken.SwComponents[*psatoken.SwComponent]{}, CanonicalProfile: name}}
		}}
	case 5:
		return extProfile{extName(5), func() psatoken.IClaims { return &NoProfClaims{} }}
	case 6:
		return extProfile{psatoken.Profile2Name, func() psatoken.IClaims {
			c, _ := psatoken.NewClaims(psatoken.Profile2Name)
			return c
		}}
	}
	panic("unknown extension " + strconv.Itoa(i))
}

func typeID(c psatoken.IClaims) string {
	switch t := c.(type) {
	case *psatoken.P1Claims:
		return "1"
	case *psatoken.P2Claims:
		return "2"
	case *Ext2Claims:
		if t.CanonicalProfile == extName(1) {
			return "11"
		}
		return "12"
	case *Ext1Claims:
		return "13"
	}
	return fmt.Sprintf("%T", c)
}

func pvString(c byte) (kind string, val string) {
	switch c {
	case '-':
		return "absent", ""
	case 'n':
		return "null", ""
	case '1':
		return "text", psatoken.Profile1Name
	case '2':
		return "text", psatoken.Profile2Name
	case 'a':
		return "text", extName(1)
	case 'b':
		return "text", extName(2)
	case 'c':
		return "text", extName(3)
	case 'e':
		return "text", extName(5)
	case 'u':
		return "text", "http://example.com/unknown"
	case 'N':
		return "text", "HTTP://arm.com/psa/2.0.0"
	case 'i':
		return "int", ""
	}
	panic("bad profile value " + string(c))
}

// complete valid bodies (no profile claim)
func bodyCBOR(kind byte) []kvp {
	if kind == '1' {
		return []kvp{{cInt(-75001), cInt(1)}, {cInt(-75002), cUint(0x3000)}, {cInt(-75003), cBytes(rb(32, 1))}, {cInt(-75004), cBytes(rb(32, 2))},
			{cInt(-75006), cArray(cMap(kvp{cUint(2), cBytes(rb(32, 3))}, kvp{cUint(5), cBytes(rb(32, 4))}))}, {cInt(-75008), cBytes(rb(32, 5))}, {cInt(-75009), cBytes(append([]byte{1}, rb(32, 6)...))}}
	}
	return []kvp{{cUint(2394), cInt(1)}, {cUint(2395), cUint(0x3000)}, {cUint(2396), cBytes(rb(32, 1))},
		{cUint(2399), cArray(cMap(kvp{cUint(2), cBytes(rb(32, 3))}, kvp{cUint(5), cBytes(rb(32, 4))}))}, {cUint(10), cBytes(rb(32, 5))}, {cUint(256), cBytes(append([]byte{1}, rb(32, 6)...))}}
}

func bodyJSON(kind byte) map[string]any {
	b64 := func(b []byte) string { j, _ := json.Marshal(b); return strings.Trim(string(j), `"`) }
	comp := []any{map[string]any{"measurement-value": b64(rb(32, 3)), "signer-id": b64(rb(32, 4))}}
	m := map[string]any{"psa-client-id": 1, "psa-security-lifecycle": 12288, "psa-implementation-id": b64(rb(32, 1)),
		"psa-software-components": comp, "psa-nonce": b64(rb(32, 5)), "psa-instance-id": b64(append([]byte{1}, rb(32, 6)...))}
	if kind == '1' {
		m["psa-boot-seed"] = b64(rb(32, 2))
	}
	return m
}

func profTok(c psatoken.IClaims) string {
	return guard(func() string { return resStr(c.GetProfile()) })
}

func decodeObs(c psatoken.IClaims, err error) string {
	if err != nil {
		return "err"
	}
	return "ok:" + typeID(c) + ":" + profTok(c) + ":" + guard(func() string { return okErr(c.Validate()) })
}

// the child: runs one history against a fresh process-wide register
func runRegChild(ops []string) string {
	var out []string
	var instances []psatoken.IClaims
	for _, op := range ops {
		switch {
		case op == "m":
			out = append(out, "indep="+bit(checkIndependence(instances)))
		case op[0] == 'r':
			i, _ := strconv.Atoi(op[1:])
			out = append(out, guard(func() string { return okErr(psatoken.RegisterProfile(mkExt(i))) }))
		case op[0] == 'n':
			kind, val := pvString(op[2])
			if kind != "text" && kind != "absent" {
				out = append(out, "err")
				continue
			}
			c, err := psatoken.NewClaims(val)
			if err != nil {
				out = append(out, "err")
				continue
			}
			instances = append(instances, c)
			out = append(out, "ok:"+typeID(c)+":"+profTok(c))
		case op[0] == 'c':
			ps := bodyCBOR(op[2])
			add := func(key int64, c byte) {
				switch kind, val := pvString(c); kind {
				case "null":
					ps = append(ps, kvp{cInt(key), cNull})
				case "text":
					ps = append(ps, kvp{cInt(key), cText(val)})
				case "int":
					ps = append(ps, kvp{cInt(key), cUint(42)})
				}
			}
			add(265, op[3])
			add(-75000, op[4])
			b := cMap(ps...)
			c, err := psatoken.DecodeClaimsFromCBOR(b)
			if err == nil {
				instances = append(instances, c)
			}
			out = append(out, decodeObs(c, err))
		case op[0] == 'j':
			m := bodyJSON(op[2])
			add := func(name string, c byte) {
				switch kind, val := pvString(c); kind {
				case "null":
					m[name] = nil
				case "text":
					m[name] = val
				case "int":
					m[name] = 42
				}
			}
			add("eat-profile", op[3])
			add("psa-profile", op[4])
			b, _ := json.Marshal(m)
			// repeated: the outcome must not depend on the iteration order of the register
			first := ""
			stable := true
			for i := 0; i < 64; i++ {
				c, err := psatoken.DecodeClaimsFromJSON(b)
				o := decodeObs(c, err)
				if i == 0 {
					first = o
					if err == nil {
						instances = append(instances, c)
					}
				} else if o != first {
					stable = false
				}
			}
			if !stable {
				first = "unstable"
			}
			out = append(out, first)
		default:
			panic("bad REG op " + op)
		}
	}
	return strings.Join(out, " ")
}

// mutate the first instance through every setter; every other instance must keep its getter results and encodings
func checkIndependence(instances []psatoken.IClaims) bool {
	if len(instances) < 2 {
		return true
	}
	snap := func(c psatoken.IClaims) string {
		b, _ := psatoken.EncodeClaimsToCBOR(c)
		return strings.Join(obsGetters(c), " ") + " " + hexTok(b)
	}
	before := make([]string, len(instances))
	for i, c := range instances {
		before[i] = snap(c)
	}
	// the profile claim is an object of its own: changing it in one instance must not reach the others
	for i, x := range instances {
		if t, ok := x.(*psatoken.P2Claims); ok && t.Profile != nil {
			_ = t.Profile.Set("http://example.com/mutated-in-place")
			for j := range instances {
				if j != i && snap(instances[j]) != before[j] {
					return false
				}
			}
			before[i] = snap(x)
			break
		}
	}
	c := instances[0]
	_ = c.SetClientID(-99)
	_ = c.SetSecurityLifeCycle(0x6001)
	_ = c.SetImplID(rb(32, 0xee))
	_ = c.SetBootSeed(rb(32, 0xee))
	_ = c.SetNonce(rb(64, 0xee))
	_ = c.SetInstID(append([]byte{1}, rb(32, 0xee)...))
	_ = c.SetVSI("changed")
	_ = c.SetCertificationReference("9999999999999-99999")
	_ = c.SetSoftwareComponents([]psatoken.ISwComponent{&psatoken.SwComponent{MeasurementValue: ptrB(rb(48, 0xee)), SignerID: ptrB(rb(48, 0xee))}})
	for i := 1; i < len(instances); i++ {
		if snap(instances[i]) != before[i] {
			return false
		}
	}
	return true
}

func ptrB(b []byte) *[]byte { return &b }

func execRegParent(in string) string {
	exe, err := os.Executable()
	if err != nil {
		panic(err)
	}
	cmd := exec.Command(exe, "regchild", in)
	var stdout, stderr bytes.Buffer
	cmd.Stdout = &stdout
	cmd.Stderr = &stderr
	if err := cmd.Run(); err != nil {
		return "child-died " + strings.ReplaceAll(strings.TrimSpace(stderr.String()), "\n", " | ")[:200]
	}
	return strings.TrimSpace(stdout.String())
}

func regOps(r *rng, n int, withRegs bool) []string {
	vals := "-n12abceuNi"
	var ops []string
	for i := 0; i < n; i++ {
		switch x := r.intn(10); {
		case x < 2 && withRegs:
			ops = append(ops, "r"+[]string{"1", "2", "3", "5", "6", "1", "3"}[r.intn(7)])
		case x < 3:
			ops = append(ops, "n:"+string("-12abceu"[r.intn(8)]))
		case x < 6:
			ops = append(ops, "c:"+string("12"[r.intn(2)])+string(vals[r.intn(len(vals))])+string(vals[r.intn(len(vals))]))
		case x < 9:
			ops = append(ops, "j:"+string("12"[r.intn(2)])+string(vals[r.intn(len(vals))])+string(vals[r.intn(len(vals))]))
		default:
			ops = append(ops, "m")
		}
	}
	return ops
}

func genC16(tier string, seed uint64, emit func(string)) {
	r := &rng{s: seed}
	n := 250
	if tier == "thorough" {
		n = 5000
	}
	for i := 0; i < n; i++ {
		emit("REG " + strings.Join(regOps(r, 4+r.intn(14), true), " "))
	}
}

func genC07(tier string, seed uint64, emit func(string)) {
	r := &rng{s: seed}
	vals := "-n12abcuNi"
	// every profile-claim combination in both serialisations, under four register configurations
	for _, regs := range [][]string{{}, {"r1"}, {"r1", "r3"}, {"r1", "r2", "r3"}} {
		for _, ser := range []string{"c", "j"} {
			var ops []string
			for _, b := range "12" {
				for _, p := range vals {
					for _, q := range vals {
						ops = append(ops, ser+":"+string(b)+string(p)+string(q))
					}
				}
			}
			// in chunks, each with the registrations first
			for i := 0; i < len(ops); i += 25 {
				end := i + 25
				if end > len(ops) {
					end = len(ops)
				}
				line := append(append([]string{}, regs...), ops[i:end]...)
				line = append(line, "n:-", "n:1", "n:2", "n:a", "n:c", "n:u")
				emit("REG " + strings.Join(line, " "))
			}
		}
	}
	n := 40
	if tier == "thorough" {
		n = 2000
	}
	for i := 0; i < n; i++ {
		emit("REG " + strings.Join(regOps(r, 6+r.intn(10), true), " "))
	}
	// dispatch must not depend on what the Evidence held before: tokens of both profiles decoded alternately into one Evidence
	for i := 0; i < n; i++ {
		c1, c2 := validClaims(1, r), validClaims(2, r)
		k1, k2 := strconv.Itoa(1+r.intn(5)), strconv.Itoa(1+r.intn(5))
		first := []string{"set:0", "set:1"}[r.intn(2)]
		emit("EV 2 " + c1.String() + " " + c2.String() + " set:0 vsign:g" + k1 + " set:1 vsign:g" + k2 + " " + first +
			" dec:t0 ver:" + k1 + " dec:t1 ver:" + k2 + " dec:t0 dec:t1 dec:t1 dec:t0 ver:" + k1)
	}
}
