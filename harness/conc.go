package main

import (
	"reflect"
	"runtime"

	"github.com/veraison/psatoken/encoding"
	"strconv"
	"strings"
	"sync"

	"github.com/veraison/psatoken"
)

// CONC <ks> <13 claims tokens> T<k> <op>* | T<k> <op>* | ...
// One goroutine per thread.  Shared: the claims-set c, the Evidence e that signed
// it with key ks, the Evidence d decoded from that token, and the encodings of c.
// Each thread builds objects of its own from the same tokens (create, sign with
// key k, decode) and then performs its calls:
//
//	s<rop>   a read-side call (see PUR) on the shared objects
//	p<rop>   the same call on the thread's own objects
//	n        NewClaims(<profile of c>), SetClientID(1), GetClientID
//	J / C    DecodeClaimsFromJSON / DecodeClaimsFromCBOR of the shared encodings, all getters
//
// The programs run twice: sequentially, then concurrently on fresh objects; the
// observation is the concurrent results (long values abbreviated) and whether
// they equal the sequential ones.
var concCase int

func init() {
	execs["CONC"] = execConc
	props["C17"] = &prop{gen: genC17}
}

type purObjs struct {
	c     psatoken.IClaims
	e, d  *psatoken.Evidence
	haveE bool
	pre   string
}

func buildObjs(ctok []string, k int) *purObjs {
	o := &purObjs{}
	o.c = parseClaims(ctok)
	o.e = &psatoken.Evidence{}
	o.e.Claims = o.c
	o.pre = guard(func() string {
		tok, err := o.e.Sign(mkSigner("g" + strconv.Itoa(k)))
		if err != nil {
			return "nosig"
		}
		o.haveE = true
		buf := append([]byte{}, tok...)
		dd, err := psatoken.DecodeEvidenceFromCOSE(buf)
		for i := range buf {
			buf[i] = 0xff
		}
		if err != nil {
			return "sig,nodec"
		}
		o.d = dd
		return "sig,dec"
	})
	return o
}

func (o *purObjs) call(op string) string {
	getters := func(x psatoken.IClaims) string { return strings.Join(obsGetters(x), ",") }
	encC := func(x psatoken.IClaims, validating bool) string {
		var b []byte
		var err error
		if validating {
			b, err = psatoken.ValidateAndEncodeClaimsToCBOR(x)
		} else {
			b, err = psatoken.EncodeClaimsToCBOR(x)
		}
		if err != nil {
			return "err"
		}
		return "ok:" + hexTok(b)
	}
	encJ := func(x psatoken.IClaims, validating bool) string {
		var b []byte
		var err error
		if validating {
			b, err = psatoken.ValidateAndEncodeClaimsToJSON(x)
		} else {
			b, err = psatoken.EncodeClaimsToJSON(x)
		}
		if err != nil {
			return "err"
		}
		return "ok:" + jsonTreeTok(b)
	}
	verify := func(x *psatoken.Evidence, key string) string {
		kk, _ := strconv.Atoi(key)
		if err := x.Verify(theKeys()[kk].pub); err != nil {
			return "err"
		}
		return "ok"
	}
	return guard(func() string {
		switch {
		case op == "v":
			return errTok(o.c.Validate())
		case op == "g":
			return getters(o.c)
		case op == "c":
			return encC(o.c, false)
		case op == "j":
			return encJ(o.c, false)
		case op == "vc":
			return encC(o.c, true)
		case op == "vj":
			return encJ(o.c, true)
		}
		if op[0] == 'e' {
			if !o.haveE {
				return "na"
			}
			switch {
			case op[1] == 'V':
				return verify(o.e, op[2:])
			case op == "ej":
				b, err := o.e.MarshalJSON()
				if err != nil {
					return "err"
				}
				return "ok:" + jsonTreeTok(b)
			case op == "eg":
				return getters(o.e.Claims)
			}
		}
		if op[0] == 'd' {
			if o.d == nil {
				return "na"
			}
			switch {
			case op[1] == 'V':
				return verify(o.d, op[2:])
			case op == "dg":
				return getters(o.d.Claims)
			case op == "dv":
				return errTok(o.d.Claims.Validate())
			case op == "dc":
				return encC(o.d.Claims, false)
			case op == "dj":
				return encJ(o.d.Claims, false)
			case op == "dm":
				b, err := o.d.MarshalJSON()
				if err != nil {
					return "err"
				}
				return "ok:" + jsonTreeTok(b)
			}
		}
		panic("bad op " + op)
	})
}

// abbreviate long result values (the model does the same)
func compact(s string) string {
	if len(s) <= 40 {
		return s
	}
	return strconv.Itoa(len(s)) + ":" + s[:24] + ".." + s[len(s)-8:]
}

type concShared struct {
	objs     *purObjs
	cborEnc  []byte
	jsonEnc  []byte
	profName string
}

func mkShared(ctok []string, ks int) *concShared {
	sh := &concShared{objs: buildObjs(ctok, ks)}
	sh.cborEnc, _ = psatoken.EncodeClaimsToCBOR(sh.objs.c)
	sh.jsonEnc, _ = psatoken.EncodeClaimsToJSON(sh.objs.c)
	sh.profName = p1Name
	if ctok[tKind] == "2" {
		sh.profName = p2Name
	}
	return sh
}

func runThread(sh *concShared, ctok []string, prog []string) []string {
	k, _ := strconv.Atoi(prog[0][1:])
	own := buildObjs(ctok, k)
	out := []string{own.pre}
	for _, op := range prog[1:] {
		var r string
		switch {
		case op == "n":
			r = guard(func() string {
				c, err := psatoken.NewClaims(sh.profName)
				if err != nil {
					return "err"
				}
				if err := c.SetClientID(1); err != nil {
					return "err"
				}
				v, err := c.GetClientID()
				if err != nil {
					return "err"
				}
				return "ok:" + itoa(int64(v))
			})
		case op == "x":
			r = guard(func() string {
				// a struct type no earlier case has used: per-type caches are cold
				t := reflect.StructOf([]reflect.StructField{
					{Name: "A", Type: reflect.TypeOf((*int64)(nil)), Tag: `cbor:"1,keyasint" json:"a"`},
					{Name: "B" + strconv.Itoa(concCase), Type: reflect.TypeOf((*int64)(nil)), Tag: `cbor:"2,keyasint,omitempty" json:"b,omitempty"`},
				})
				v1, v2 := int64(len(prog)), int64(k)
				st := reflect.New(t)
				st.Elem().Field(0).Set(reflect.ValueOf(&v1))
				st.Elem().Field(1).Set(reflect.ValueOf(&v2))
				j, err := encoding.SerializeStructToJSON(st.Interface())
				if err != nil {
					return "err"
				}
				cb, err := encoding.SerializeStructToCBOR(embEm, st.Interface())
				if err != nil {
					return "err"
				}
				// keep the results alive across a scheduling point before looking at them
				runtime.Gosched()
				return "ok:" + string(j) + ":" + hexTok(cb)
			})
		case op == "D":
			r = guard(func() string {
				if sh.jsonEnc == nil {
					return "na"
				}
				// the deprecated aliases
				c1, err1 := psatoken.DecodeJSONClaims(sh.jsonEnc)
				c2, err2 := psatoken.DecodeUnvalidatedJSONClaims(sh.jsonEnc)
				res := ""
				if err1 != nil {
					res += "err"
				} else {
					res += strings.Join(obsGetters(c1), ",")
				}
				if err2 != nil {
					res += "|err"
				} else {
					res += "|" + strings.Join(obsGetters(c2), ",")
				}
				return res
			})
		case op == "J":
			r = guard(func() string {
				if sh.jsonEnc == nil {
					return "na"
				}
				c, err := psatoken.DecodeClaimsFromJSON(sh.jsonEnc)
				if err != nil {
					return "err"
				}
				return strings.Join(obsGetters(c), ",")
			})
		case op == "C":
			r = guard(func() string {
				if sh.cborEnc == nil {
					return "na"
				}
				c, err := psatoken.DecodeClaimsFromCBOR(sh.cborEnc)
				if err != nil {
					return "err"
				}
				return strings.Join(obsGetters(c), ",")
			})
		case op[0] == 's':
			r = sh.objs.call(op[1:])
		case op[0] == 'p':
			r = own.call(op[1:])
		default:
			panic("bad thread op " + op)
		}
		out = append(out, r)
	}
	return out
}

func execConc(in string) string {
	f := fields(in)
	ks, _ := strconv.Atoi(f[1])
	ctok := f[2 : 2+nClaimTok]
	var progs [][]string
	cur := []string{}
	for _, t := range f[2+nClaimTok:] {
		if t == "|" {
			progs = append(progs, cur)
			cur = []string{}
			continue
		}
		cur = append(cur, t)
	}
	progs = append(progs, cur)

	concCase++
	// the concurrent run comes FIRST, on fresh objects: lazily initialised package state (caches, once-only flags)
	// must be safe for the first callers, not only after a sequential warm-up
	sh := mkShared(ctok, ks)
	conc := make([][]string, len(progs))
	var wg sync.WaitGroup
	start := make(chan struct{})
	for i := range progs {
		wg.Add(1)
		go func(i int) {
			defer wg.Done()
			<-start
			conc[i] = runThread(sh, ctok, progs[i])
		}(i)
	}
	close(start)
	wg.Wait()
	// sequential reference
	shSeq := mkShared(ctok, ks)
	seq := make([][]string, len(progs))
	for i, p := range progs {
		seq[i] = runThread(shSeq, ctok, p)
	}

	same := "conc=same"
	var parts []string
	for i := range progs {
		if strings.Join(seq[i], " ") != strings.Join(conc[i], " ") {
			same = "conc=differs:" + strconv.Itoa(i)
		}
		cs := make([]string, len(conc[i]))
		for j, r := range conc[i] {
			cs[j] = compact(r)
		}
		parts = append(parts, strings.Join(cs, " "))
	}
	return sh.objs.pre + " " + strings.Join(parts, " | ") + " " + same
}

func genC17(tier string, seed uint64, emit func(string)) {
	r := &rng{s: seed}
	n := 32
	if tier == "thorough" {
		n = 350
	}
	sops := []string{"sv", "sg", "sc", "sj", "svc", "svj", "seV", "seV", "sej", "seg", "sdV", "sdV", "sdg", "sdv", "sdc", "sdj", "sdm"}
	pops := []string{"pv", "pg", "pc", "pj", "peV", "pej", "pdV", "pdg", "pdc", "pdj", "n", "J", "C", "x", "x", "D"}
	for kind := 1; kind <= 2; kind++ {
		alt := claimAlternatives(kind, r)
		for i := 0; i < n; i++ {
			c := validClaims(kind, r)
			if r.intn(5) == 0 {
				for {
					fld := 1 + r.intn(nClaimTok-1)
					if len(alt[fld]) > 0 {
						c[fld] = alt[fld][r.intn(len(alt[fld]))]
						break
					}
				}
				if !claimsTextsUTF8(c) {
					continue
				}
			}
			if kind == 1 && r.intn(4) == 0 {
				c[tSwc] = "[]"
				c[tNosw] = "1"
			}
			ks := 1 + r.intn(5)
			g := 16 + r.intn(49)
			var progs []string
			for t := 0; t < g; t++ {
				prog := []string{"T" + strconv.Itoa(1+r.intn(5))}
				if i < 2 {
					prog = append(prog, "D", "x")
				}
				nops := 3 + r.intn(8)
				for j := 0; j < nops; j++ {
					var op string
					if r.intn(3) > 0 {
						op = sops[r.intn(len(sops))]
					} else {
						op = pops[r.intn(len(pops))]
					}
					if strings.HasSuffix(op, "V") {
						op += strconv.Itoa(1 + r.intn(5))
					}
					prog = append(prog, op)
				}
				progs = append(progs, strings.Join(prog, " "))
			}
			emit("CONC " + strconv.Itoa(ks) + " " + c.String() + " " + strings.Join(progs, " | "))
		}
	}
}
