package main

import (
	"bytes"
	"crypto"
	"crypto/x509"
	"encoding/pem"
	"errors"
	"io"
	"strconv"
	"strings"
	"sync"

	cose "github.com/veraison/go-cose"
	"github.com/veraison/psatoken"
)

func init() {
	execs["EV"] = execEv
	props["C19"] = &prop{gen: genC19}
}

type keyPair struct {
	alg  cose.Algorithm
	priv crypto.Signer
	pub  crypto.PublicKey
}

var (
	keysOnce sync.Once
	keys     map[int]*keyPair
)

func theKeys() map[int]*keyPair {
	keysOnce.Do(func() {
		keys = map[int]*keyPair{}
		algs := map[int]cose.Algorithm{1: cose.AlgorithmES256, 2: cose.AlgorithmES256, 3: cose.AlgorithmES384, 4: cose.AlgorithmEdDSA, 5: cose.AlgorithmPS256}
		for k, pemText := range fixedKeysPEM {
			blk, _ := pem.Decode([]byte(pemText))
			if blk == nil {
				panic("bad fixed key PEM")
			}
			key, err := x509.ParsePKCS8PrivateKey(blk.Bytes)
			if err != nil {
				panic(err)
			}
			sg, ok := key.(crypto.Signer)
			if !ok {
				panic("fixed key is not a crypto.Signer")
			}
			keys[k] = &keyPair{algs[k], sg, sg.Public()}
		}
	})
	return keys
}

// a signer with injected faults
type faultSigner struct {
	inner cose.Signer
	mode  byte
}

func (s *faultSigner) Algorithm() cose.Algorithm {
	switch s.mode {
	case 'u':
		return cose.Algorithm(-999)
	case 'm':
		return cose.AlgorithmES512
	}
	return s.inner.Algorithm()
}

func (s *faultSigner) Sign(r io.Reader, content []byte) ([]byte, error) {
	switch s.mode {
	case 'f':
		return nil, errors.New("injected signer failure")
	case 'e':
		return []byte{}, nil
	}
	return s.inner.Sign(r, content)
}

func mkSigner(tok string) cose.Signer {
	k, _ := strconv.Atoi(tok[1:])
	kp := theKeys()[k]
	inner, err := cose.NewSigner(kp.alg, kp.priv)
	if err != nil {
		panic(err)
	}
	if tok[0] == 'g' {
		return inner
	}
	return &faultSigner{inner, tok[0]}
}

// split a tagged COSE_Sign1 into its four encoded elements (own minimal item skipper)
func itemLen(b []byte) int {
	if len(b) == 0 {
		panic("itemLen: empty")
	}
	major, ai := b[0]>>5, b[0]&0x1f
	hl := 1
	var arg uint64
	switch {
	case ai < 24:
		arg = uint64(ai)
	case ai == 24:
		arg, hl = uint64(b[1]), 2
	case ai == 25:
		arg, hl = uint64(b[1])<<8|uint64(b[2]), 3
	case ai == 26:
		arg, hl = uint64(b[1])<<24|uint64(b[2])<<16|uint64(b[3])<<8|uint64(b[4]), 5
	default:
		panic("itemLen: unsupported head")
	}
	switch major {
	case 0, 1, 7:
		return hl
	case 2, 3:
		return hl + int(arg)
	case 4:
		n := hl
		for i := uint64(0); i < arg; i++ {
			n += itemLen(b[n:])
		}
		return n
	case 5:
		n := hl
		for i := uint64(0); i < 2*arg; i++ {
			n += itemLen(b[n:])
		}
		return n
	case 6:
		return hl + itemLen(b[hl:])
	}
	panic("itemLen")
}

func splitSign1(tok []byte) [4][]byte {
	if len(tok) < 2 || tok[0] != 0xd2 || tok[1] != 0x84 {
		panic("not a tagged COSE_Sign1 produced by the library")
	}
	var out [4][]byte
	rest := tok[2:]
	for i := 0; i < 4; i++ {
		n := itemLen(rest)
		out[i] = rest[:n]
		rest = rest[n:]
	}
	return out
}

func joinSign1(parts [4][]byte) []byte {
	out := []byte{0xd2, 0x84}
	for _, p := range parts {
		out = append(out, p...)
	}
	return out
}

var garbageToken = []byte{0xd2, 0x84, 0x01}

var mistypedPayload = append(append([]byte{0xa2, 0x19, 0x01, 0x09, 0x78, 0x18}, []byte(psatoken.Profile2Name)...), 0x19, 0x09, 0x5a, 0x61, 0x78)

func resolveRef(ref string, pool [][]string, toks [][]byte) []byte {
	if ref == "g" {
		return garbageToken
	}
	args := strings.Split(ref[1:], ":")
	if len(toks) == 0 {
		return garbageToken
	}
	i, _ := strconv.Atoi(args[0])
	base := toks[i%len(toks)]
	parts := splitSign1(base)
	switch ref[0] {
	case 't':
	case 'x':
		parts[2] = cborBstr([]byte{0x01})
	case 'n':
		parts[2] = []byte{0xf6}
	case 'f':
		// payload given in the case line (a token in a format the library accepts but never emits)
		parts[2] = cborBstr(parseHexTok(args[1]))
	case 'y':
		// a profile-2 map whose client id is a text string: the selector reads it, the full decode fails
		parts[2] = cborBstr(mistypedPayload)
	case 'a':
		parts[0] = []byte{0x40}
	case 'p':
		j, _ := strconv.Atoi(args[1])
		c := parseClaims(pool[j%len(pool)])
		if b, err := psatoken.EncodeClaimsToCBOR(c); err == nil {
			parts[2] = cborBstr(b)
		}
	case 's':
		j, _ := strconv.Atoi(args[1])
		parts[3] = splitSign1(toks[j%len(toks)])[3]
	default:
		panic("bad token ref " + ref)
	}
	return joinSign1(parts)
}

func claimsSummary(c psatoken.IClaims) string {
	if c == nil {
		return "nil"
	}
	return strings.Join(printClaims(c), "|")
}

func execEv(in string) string {
	f := fields(in)
	n, _ := strconv.Atoi(f[1])
	pool := make([][]string, n)
	pos := 2
	for i := 0; i < n; i++ {
		pool[i] = f[pos : pos+nClaimTok]
		pos += nClaimTok
	}
	ops := f[pos:]
	ev := &psatoken.Evidence{}
	var toks [][]byte
	var out []string
	for _, op := range ops {
		parts := strings.SplitN(op, ":", 2)
		res := guard(func() string {
			switch parts[0] {
			case "set":
				i, _ := strconv.Atoi(parts[1])
				c := parseClaims(pool[i%len(pool)])
				if err := ev.SetClaims(c); err != nil {
					return "err"
				}
				return "ok"
			case "mut":
				i, _ := strconv.Atoi(parts[1])
				c := parseClaims(pool[i%len(pool)])
				// overwrite the attached object in place when the types agree, else swap the exported field
				switch dst := ev.Claims.(type) {
				case *psatoken.P1Claims:
					if src, ok := c.(*psatoken.P1Claims); ok {
						*dst = *src
						return "ok"
					}
				case *psatoken.P2Claims:
					if src, ok := c.(*psatoken.P2Claims); ok {
						*dst = *src
						return "ok"
					}
				}
				ev.Claims = c
				return "ok"
			case "sign", "vsign":
				if ev.Claims == nil {
					return "skip"
				}
				var tok []byte
				var err error
				if parts[0] == "sign" {
					tok, err = ev.Sign(mkSigner(parts[1]))
				} else {
					tok, err = ev.ValidateAndSign(mkSigner(parts[1]))
				}
				if err != nil {
					if len(tok) != 0 {
						return "err-with-token"
					}
					return "err"
				}
				toks = append(toks, tok)
				if want, eerr := psatoken.EncodeClaimsToCBOR(ev.Claims); eerr != nil || !bytes.Equal(bstrContent(splitSign1(tok)[2]), want) {
					return "ok-but-payload-is-not-the-encoding-of-the-attached-claims"
				}
				return "ok"
			case "dec":
				b := resolveRef(parts[1], pool, toks)
				if err := ev.UnmarshalCOSE(append([]byte{}, b...)); err != nil {
					return "err"
				}
				return "ok"
			case "ver":
				k, _ := strconv.Atoi(parts[1])
				if err := ev.Verify(theKeys()[k].pub); err != nil {
					return "err"
				}
				return "ok"
			}
			panic("bad op " + op)
		})
		out = append(out, res, claimsSummary(ev.Claims))
	}
	return strings.Join(out, " ")
}

func genC19(tier string, seed uint64, emit func(string)) {
	r := &rng{s: seed}
	n := 800
	if tier == "thorough" {
		n = 10000
	}
	signers := []string{"g1", "g2", "g3", "g4", "g5", "f1", "e2", "u1", "m1", "f3", "e4", "g1", "g2"}
	for i := 0; i < n; i++ {
		// pool: two valid claims-sets (one of each profile or same), one invalid
		pool := []ctoks{validClaims(1+r.intn(2), r), validClaims(1+r.intn(2), r), validClaims(1+r.intn(2), r)}
		bad := 2
		alt := claimAlternatives(1, r)
		if pool[bad][tKind] == "2" {
			alt = claimAlternatives(2, r)
		}
		for {
			fld := 1 + r.intn(nClaimTok-1)
			if len(alt[fld]) > 0 {
				pool[bad][fld] = alt[fld][r.intn(len(alt[fld]))]
				break
			}
		}
		if strings.Contains(pool[bad][tSwc], "nil") {
			pool[bad][tSwc] = "[]"
		}
		// keep every text valid UTF-8 (K2 is exercised under C09)
		for p := range pool {
			if pool[p][tVsi] == hx("\xff\xfe") {
				pool[p][tVsi] = hx("v")
			}
			pool[p][tSwc] = strings.ReplaceAll(pool[p][tSwc], hx("\xff")+",", hx("t")+",")
			if strings.Contains(pool[p][tCert], "ff") && pool[p][tCert] != "_" {
				pool[p][tCert] = hx("1234567890123-1234x")
			}
		}
		var ops []string
		ops = append(ops, "set:"+strconv.Itoa(r.intn(2)))
		nops := 1 + r.intn(30)
		for j := 0; j < nops; j++ {
			switch r.intn(11) {
			case 10:
				ops = append(ops, "mut:"+strconv.Itoa(r.intn(3)))
			case 0:
				ops = append(ops, "set:"+strconv.Itoa(r.intn(3)))
			case 1, 2:
				ops = append(ops, "sign:"+signers[r.intn(len(signers))])
			case 3, 4:
				ops = append(ops, "vsign:"+signers[r.intn(len(signers))])
			case 5, 6:
				kinds := []string{"t", "t", "x", "n", "a", "g", "y", "y"}
				k := kinds[r.intn(len(kinds))]
				switch {
				case k == "g":
					ops = append(ops, "dec:g")
				case r.intn(4) == 0:
					ops = append(ops, "dec:p"+strconv.Itoa(r.intn(8))+":"+strconv.Itoa(r.intn(3)))
				case r.intn(4) == 0:
					ops = append(ops, "dec:s"+strconv.Itoa(r.intn(8))+":"+strconv.Itoa(r.intn(8)))
				default:
					ops = append(ops, "dec:"+k+strconv.Itoa(r.intn(8)))
				}
			default:
				ops = append(ops, "ver:"+strconv.Itoa(1+r.intn(5)))
			}
		}
		line := "EV 3"
		for _, p := range pool {
			line += " " + p.String()
		}
		emit(line + " " + strings.Join(ops, " "))
	}
}
