package main

import (
	"strings"

	"github.com/veraison/eat"
	"github.com/veraison/psatoken"
)

func init() {
	execs["ENC"] = execEnc
	execs["DEC"] = execDec
	execs["REENC"] = execReenc
	execs["RT"] = execRT
	execs["ENCH"] = execEnch
}

func optU16(p *uint16) string {
	if p == nil {
		return "_"
	}
	return utoa(uint64(*p))
}

func optI32(p *int32) string {
	if p == nil {
		return "_"
	}
	return itoa(int64(*p))
}

func swcsTok(c psatoken.ISwComponents) string {
	if c == nil {
		return "_"
	}
	s, ok := c.(*psatoken.SwComponents[*psatoken.SwComponent])
	if !ok {
		return "foreign"
	}
	if s == nil {
		return "_"
	}
	raw := rawValues(s)
	items := make([]string, len(raw))
	for i, p := range raw {
		if p == nil {
			items[i] = "nil"
		} else {
			items[i] = printSwc(p)
		}
	}
	return "[" + strings.Join(items, ";") + "]"
}

// the 13 case-line tokens of a real claims-set (raw field contents, no validation)
func printClaims(c psatoken.IClaims) []string {
	switch t := c.(type) {
	case *psatoken.P1Claims:
		prof := "_"
		if t.Profile != nil {
			prof = "s" + hexTok([]byte(*t.Profile))
		}
		nosw := "_"
		nosw = intPtrFieldTok(t, "NoSwMeasurements")
		nonce := "_"
		if t.Nonce != nil {
			nonce = "[" + hexTok(*t.Nonce) + "]"
		}
		return []string{"1", prof, intPtrFieldTok(t, "ClientID"), intPtrFieldTok(t, "SecurityLifeCycle"), optHexTok(t.ImplID), optHexTok(t.BootSeed),
			optStrTok(t.CertificationReference), swcsTok(t.SwComponents), nosw, nonce, optHexTok(t.InstID), optStrTok(t.VSI), hexTok([]byte(t.CanonicalProfile))}
	case *psatoken.P2Claims:
		prof := "_"
		if t.Profile != nil {
			s, err := t.Profile.Get()
			switch {
			case err != nil:
				prof = "z"
			case t.Profile.IsOID():
				prof = "o"
			default:
				prof = "s" + hexTok([]byte(s))
			}
		}
		nonce := "_"
		if t.Nonce != nil {
			items := make([]string, t.Nonce.Len())
			for i := range items {
				items[i] = hexTok(t.Nonce.GetI(i))
			}
			nonce = "[" + strings.Join(items, ";") + "]"
		}
		inst := "_"
		if t.InstID != nil {
			inst = hexTok([]byte(*t.InstID))
		}
		return []string{"2", prof, intPtrFieldTok(t, "ClientID"), intPtrFieldTok(t, "SecurityLifeCycle"), optHexTok(t.ImplID), optHexTok(t.BootSeed),
			optStrTok(t.CertificationReference), swcsTok(t.SwComponents), "_", nonce, inst, optStrTok(t.VSI), hexTok([]byte(t.CanonicalProfile))}
	}
	return []string{"foreign-claims-type"}
}

var _ = eat.UEID{}

func encTok(c psatoken.IClaims) string {
	return guard(func() string {
		b, err := psatoken.EncodeClaimsToCBOR(c)
		if err != nil {
			return "err"
		}
		return "ok:" + hexTok(b)
	})
}

func execEnc(in string) string {
	f := fields(in)
	return encTok(parseClaims(f[1:]))
}

func obsDecoded(c psatoken.IClaims, err error) []string {
	if err != nil {
		return []string{"err"}
	}
	out := append([]string{"ok"}, printClaims(c)...)
	return append(out, obsGetters(c)...)
}

func decodeGuard(b []byte) (c psatoken.IClaims, err error, panicked bool) {
	defer func() {
		if r := recover(); r != nil {
			panicked = true
		}
	}()
	c, err = psatoken.DecodeClaimsFromCBOR(b)
	return
}

func execDec(in string) string {
	f := fields(in)
	b := parseHexTok(f[1])
	orig := append([]byte{}, b...)
	c, err, p := decodeGuard(b)
	if p {
		return "panic"
	}
	_ = orig
	return strings.Join(obsDecoded(c, err), " ")
}

func execRT(in string) string {
	f := fields(in)
	c := parseClaims(f[1:])
	out := obsGetters(c)
	b, err := psatoken.EncodeClaimsToCBOR(c)
	if err != nil {
		return strings.Join(append(out, "err"), " ")
	}
	out = append(out, "ok:"+hexTok(b))
	c2, err, p := decodeGuard(b)
	if p {
		return strings.Join(append(out, "panic"), " ")
	}
	out = append(out, obsDecoded(c2, err)...)
	if err == nil {
		out = append(out, encTok(c2))
	} else {
		out = append(out, "-")
	}
	return strings.Join(out, " ")
}

func execEnch(in string) string {
	f := fields(in)
	var st histState
	switch f[1] {
	case "new1":
		c, _ := psatoken.NewClaims(psatoken.Profile1Name)
		st.c = c
	case "new1np":
		st.c = newP1NoProfile()
	case "new2":
		c, _ := psatoken.NewClaims(psatoken.Profile2Name)
		st.c = c
	default:
		panic("bad init " + f[1])
	}
	for _, op := range f[2:] {
		applyOp(&st, op)
	}
	return guard(func() string { return errTok(st.c.Validate()) }) + " " + encTok(st.c)
}

// REENC <hex>: DecodeClaimsFromCBOR, then EncodeClaimsToCBOR of the result
func execReenc(in string) string {
	f := fields(in)
	c, err := psatoken.DecodeClaimsFromCBOR(parseHexTok(f[1]))
	if err != nil {
		return "err"
	}
	b, err := psatoken.EncodeClaimsToCBOR(c)
	if err != nil {
		return "encerr"
	}
	return "ok:" + hexTok(b)
}
