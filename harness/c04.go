package main

import (
	"bytes"
	"sort"
)

func init() {
	props["C04"] = &prop{gen: genC04}
}

type tokSpec struct {
	kind  int
	pairs []kvp
}

func rb(n int, b byte) []byte { return bytes.Repeat([]byte{b}, n) }

func validComp(r *rng) cv {
	sizes := []int{32, 48, 64}
	ps := []kvp{}
	if r.intn(2) == 0 {
		ps = append(ps, kvp{cUint(1), cText("BL")})
	}
	ps = append(ps, kvp{cUint(2), cBytes(rb(sizes[r.intn(3)], byte(r.intn(256))))})
	if r.intn(2) == 0 {
		ps = append(ps, kvp{cUint(4), cText("3.1.4")})
	}
	ps = append(ps, kvp{cUint(5), cBytes(rb(sizes[r.intn(3)], byte(r.intn(256))))})
	if r.intn(2) == 0 {
		ps = append(ps, kvp{cUint(6), cText("sha-256")})
	}
	return cMap(ps...)
}

var p1Keys = map[string]int64{"profile": -75000, "client": -75001, "lc": -75002, "impl": -75003, "boot": -75004, "cert": -75005, "swc": -75006, "nosw": -75007, "nonce": -75008, "inst": -75009, "vsi": -75010}
var p2Keys = map[string]int64{"profile": 265, "client": 2394, "lc": 2395, "impl": 2396, "boot": 2397, "cert": 2398, "swc": 2399, "nonce": 10, "inst": 256, "vsi": 2400}

var claimOrder = []string{"profile", "client", "lc", "impl", "boot", "cert", "swc", "nosw", "nonce", "inst", "vsi"}

// a valid token as an ordered list of (claim name, value)
func validToken(kind int, r *rng) map[string]cv {
	sizes := []int{32, 48, 64}
	t := map[string]cv{}
	t["client"] = cInt(int64(int32(r.next())))
	t["lc"] = cUint(uint64(r.intn(7)*0x1000 + r.intn(256)))
	t["impl"] = cBytes(rb(32, byte(r.intn(256))))
	t["nonce"] = cBytes(rb(sizes[r.intn(3)], byte(r.intn(256))))
	t["inst"] = cBytes(append([]byte{1}, rb(32, byte(r.intn(256)))...))
	n := 1 + r.intn(3)
	comps := make([]cv, n)
	for i := range comps {
		comps[i] = validComp(r)
	}
	t["swc"] = cArray(comps...)
	if r.intn(2) == 0 {
		t["vsi"] = cText("https://veraison.example/v1")
	}
	if kind == 1 {
		t["boot"] = cBytes(rb(32, byte(r.intn(256))))
		if r.intn(2) == 0 {
			t["profile"] = cText(p1Name)
		}
		switch r.intn(3) {
		case 0:
			t["cert"] = cText("1234567890123")
		case 1:
			t["cert"] = cText("1234567890123-12345")
		}
		if r.intn(4) == 0 {
			delete(t, "swc")
			t["nosw"] = cUint(1)
		}
	} else {
		t["profile"] = cText(p2Name)
		if r.intn(2) == 0 {
			t["boot"] = cBytes(rb(8+r.intn(25), byte(r.intn(256))))
		}
		if r.intn(2) == 0 {
			t["cert"] = cText("0604565272829-10010")
		}
	}
	return t
}

func assemble(kind int, t map[string]cv, order []string, extra []kvp, indef bool) []byte {
	keys := p1Keys
	if kind == 2 {
		keys = p2Keys
	}
	var ps []kvp
	for _, name := range order {
		if v, ok := t[name]; ok {
			if k, ok := keys[name]; ok {
				ps = append(ps, kvp{cInt(k), v})
			}
		}
	}
	ps = append(ps, extra...)
	if indef {
		return cIndefMap(ps...)
	}
	return cMap(ps...)
}

// value classes, by the wire type the claim should have
func valueClasses(typ string, r *rng) []cv {
	common := []cv{cNull, cUndef, cTrue, cFalse, cSimple(5), cSimple(32), cSimple(255), cFloat64(1.0), cFloat32(2.0), cFloat16bits(0x3c00),
		cMap(), cMap(kvp{cUint(1), cUint(2)}), cArray(), cArray(cArray(cArray()))}
	ints := []cv{cUint(0), cUint(1), cUint(23), cUint(24), cUint(255), cUint(256), cUint(32767), cUint(32768), cUint(65535), cUint(65536),
		cUint(1<<31 - 1), cUint(1 << 31), cUint(1<<32 - 1), cUint(1 << 32), cUint(1<<63 - 1), cUint(1 << 63), cUint(1<<64 - 1),
		cNint(0), cNint(1<<31 - 1), cNint(1 << 31), cNint(1<<63 - 1), cNint(1 << 63), cNint(1<<64 - 1),
		cv(cHeadWide(0, 5, 8)), cv(cHeadWide(0, 0x3000, 4)), cv(cHeadWide(1, 3, 2))}
	var bstrs []cv
	for _, n := range []int{0, 1, 7, 8, 31, 32, 33, 34, 47, 48, 49, 63, 64, 65} {
		bstrs = append(bstrs, cBytes(rb(n, 0x6b)))
	}
	bstrs = append(bstrs, cBytes(append([]byte{1}, rb(32, 0x22)...)), cBytes(append([]byte{0}, rb(32, 0x22)...)), cBytes(append([]byte{2}, rb(32, 0x22)...)),
		cv(append(cHeadWide(2, 32, 2), rb(32, 0x44)...)), cIndefBytes(rb(16, 1), rb(16, 2)))
	texts := []cv{cText(""), cText("x"), cText("1234567890123"), cText("1234567890123-12345"), cText("123456789012"), cText("1234567890123-1234"), cText("12345678901234"),
		cText("\xff\xfe"), cText("é世"), cText(p1Name), cText(p2Name), cText("http://arm.com/psa/3.0.0"), cText("HTTP://arm.com/psa/2.0.0"), cText("http://arm.com/psa/2.0.0#")}
	u8arr := func(n int, v uint64) cv {
		items := make([]cv, n)
		for i := range items {
			items[i] = cUint(v)
		}
		return cArray(items...)
	}
	arrays := []cv{u8arr(32, 7), u8arr(33, 1), u8arr(8, 255), u8arr(32, 256), cArray(cBytes(rb(32, 1))), cArray(cBytes(rb(32, 1)), cBytes(rb(32, 2))),
		cArray(cBytes(rb(32, 1)), cBytes(rb(7, 2))), cArray(cText("x")), cArray(cNull), cArray(validComp(r)), cArray(validComp(r), validComp(r)),
		cArray(cMap()), cArray(cMap(kvp{cUint(2), cBytes(rb(32, 1))})), cArray(cMap(kvp{cUint(2), cBytes(rb(31, 1))}, kvp{cUint(5), cBytes(rb(32, 1))})),
		cArray(cMap(kvp{cUint(2), cText("x")}, kvp{cUint(5), cBytes(rb(32, 1))})), cArray(cMap(kvp{cUint(2), cBytes(rb(32, 1))}, kvp{cUint(5), cBytes(rb(32, 1))}, kvp{cUint(1), cUint(3)})),
		cArray(cMap(kvp{cUint(2), cBytes(rb(32, 1))}, kvp{cUint(5), cBytes(rb(32, 1))}, kvp{cUint(9), cText("unknown")})),
		cArray(validComp(r), cNull), cArray(validComp(r), cUint(1)), cIndefArray(validComp(r)),
		cArray(cMap(kvp{cUint(2), cBytes(rb(32, 1))}, kvp{cUint(5), cBytes(rb(32, 1))}, kvp{cUint(2), cBytes(rb(31, 9))})),
		cArray(cMap(kvp{cUint(2), u8arr(32, 3)}, kvp{cUint(5), cBytes(rb(32, 1))}))}
	tags := []cv{cTag(55799, cBytes(rb(32, 1))), cTag(2, cBytes(rb(4, 1))), cTag(1, cUint(5)), cTag(0, cText("2020-01-01T00:00:00Z")), cTag(100, cUint(0x3000)), cTag(3, cBytes([]byte{1}))}
	out := append([]cv{}, common...)
	out = append(out, ints...)
	out = append(out, bstrs...)
	out = append(out, texts...)
	out = append(out, arrays...)
	out = append(out, tags...)
	_ = typ
	return out
}

func extraKeyClasses() [][]kvp {
	return [][]kvp{
		{{cUint(9000), cText("vendor")}},
		{{cNint(0), cArray(cUint(1), cUint(2))}},
		{{cText("foo"), cUint(1)}},
		{{cUint(1<<64 - 75001), cUint(7)}}, // an unknown (huge) unsigned key
		{{cUint(9000), cArray(cArray(cArray(cArray(cUint(1)))))}},
		{{cUint(9001), cMap(kvp{cUint(1), cArray(cMap(kvp{cUint(2), cUint(3)}))})}},
		{{cUint(9002), cTag(42, cText("tagged unknown"))}},
		{{cBytes([]byte{1}), cUint(1)}}, // byte-string key
		{{cArray(), cUint(1)}},          // array key
		{{cTrue, cUint(1)}},             // boolean key
		{{cFloat64(1.5), cUint(1)}},     // float key
		{{cText("\xff"), cUint(1)}},     // invalid UTF-8 text key
		{{cNint(1 << 63), cUint(1)}},    // negative key below int64
		{{cUint(9000), cUint(1)}, {cUint(9001), cUint(2)}, {cUint(9002), cUint(3)}, {cUint(9003), cUint(4)}, {cUint(9004), cUint(5)}, {cUint(9005), cUint(6)}, {cUint(9006), cUint(7)}, {cUint(9007), cUint(8)}},
	}
}

func genC04(tier string, seed uint64, emit func(string)) {
	r := &rng{s: seed}
	dec := func(b []byte) { emit("DEC " + hexTok(b)) }
	for kind := 1; kind <= 2; kind++ {
		keys := p1Keys
		if kind == 2 {
			keys = p2Keys
		}
		names := make([]string, 0, len(keys))
		for _, n := range claimOrder {
			if _, ok := keys[n]; ok {
				names = append(names, n)
			}
		}
		classes := valueClasses("", r)
		// 1. every key x every value class (and absent) with the rest valid
		for _, name := range names {
			base := validToken(kind, r)
			{
				t := cloneTok(base)
				delete(t, name)
				dec(assemble(kind, t, claimOrder, nil, false))
			}
			for _, v := range classes {
				t := cloneTok(base)
				t[name] = v
				dec(assemble(kind, t, claimOrder, nil, false))
			}
		}
		// 1b. every component field x value classes (empty / short texts, null, wrong types, byte-string sizes), in second position
		for _, ck := range []uint64{1, 2, 4, 5, 6} {
			for _, v := range []cv{cText(""), cText("x"), cNull, cBytes(rb(32, 1)), cBytes(rb(31, 1)), cBytes(nil), cUint(1), cText("\xff"), cArray(cUint(1)), cTrue} {
				base := validToken(kind, r)
				ps := []kvp{}
				for _, k := range []uint64{1, 2, 4, 5, 6} {
					switch {
					case k == ck:
						ps = append(ps, kvp{cUint(k), v})
					case k == 2 || k == 5:
						ps = append(ps, kvp{cUint(k), cBytes(rb(32, byte(k)))})
					case r.intn(2) == 0:
						ps = append(ps, kvp{cUint(k), cText([]string{"", "t"}[r.intn(2)])})
					}
				}
				base["swc"] = cArray(validComp(r), cMap(ps...))
				dec(assemble(kind, base, claimOrder, nil, false))
			}
		}
		// the other profile's keys mixed in
		other := p1Keys
		if kind == 1 {
			other = p2Keys
		}
		for name, k := range other {
			base := validToken(kind, r)
			for _, v := range []cv{cUint(1), cBytes(rb(32, 1)), cText(p1Name), cText(p2Name), cText("http://arm.com/psa/3.0.0"), cNull, cBytes([]byte{0x2b, 6, 1})} {
				_ = name
				dec(assemble(kind, base, claimOrder, []kvp{{cInt(k), v}}, false))
			}
		}
		// 2. valid tokens: permuted key order, extra unknown keys, indefinite length, duplicates
		n := 1500
		if tier == "thorough" {
			n = 18000
		}
		extras := extraKeyClasses()
		for i := 0; i < n; i++ {
			t := validToken(kind, r)
			order := append([]string{}, claimOrder...)
			if r.intn(2) == 0 {
				for j := len(order) - 1; j > 0; j-- {
					k := r.intn(j + 1)
					order[j], order[k] = order[k], order[j]
				}
			}
			var extra []kvp
			if r.intn(3) == 0 {
				extra = extras[r.intn(len(extras))]
			}
			if r.intn(12) == 0 { // duplicate of a known key, second occurrence differs
				name := names[r.intn(len(names))]
				extra = append(extra, kvp{cInt(keys[name]), classes[r.intn(len(classes))]})
			}
			b := assemble(kind, t, order, extra, r.intn(15) == 0)
			if r.intn(25) == 0 {
				b = append(b, 0x00) // trailing byte
			}
			if r.intn(25) == 0 && len(b) > 2 {
				b = b[:len(b)-1-r.intn(len(b)/2)] // truncated
			}
			dec(b)
		}
		// 3. random pairs of deviations
		for i := 0; i < n; i++ {
			t := validToken(kind, r)
			for j := 0; j < 1+r.intn(2); j++ {
				t[names[r.intn(len(names))]] = classes[r.intn(len(classes))]
			}
			dec(assemble(kind, t, claimOrder, nil, false))
		}
	}
	// 4. top-level items that are not maps
	for _, v := range []cv{cNull, cUndef, cUint(1), cText("x"), cBytes(nil), cArray(), cTag(55799, cMap()), cTag(55799, cNull), cMap(), cIndefMap(), cTrue, cFloat64(0)} {
		dec(v)
	}
	dec([]byte{})
}

func cloneTok(t map[string]cv) map[string]cv {
	out := map[string]cv{}
	for k, v := range t {
		out[k] = v
	}
	return out
}

var _ = sort.Strings
