package main

import (
	"bytes"
	"encoding/json"
	"fmt"
	"reflect"
	"runtime"
	"sort"
	"strconv"
	"strings"

	cbor "github.com/fxamacker/cbor/v2"
	"github.com/veraison/psatoken/encoding"
)

func init() {
	execs["FMAP"] = execFmap
	execs["FROM"] = execFrom
	execs["SER"] = execSer
	execs["POP"] = execPop
	execs["SERJ"] = execSerJ
	props["C15"] = &prop{gen: genC15}
}

var (
	embEm = func() cbor.EncMode {
		m, err := cbor.EncOptions{IndefLength: cbor.IndefLengthForbidden, TimeTag: cbor.EncTagRequired}.EncMode()
		if err != nil {
			panic(err)
		}
		return m
	}()
	embDm = func() cbor.DecMode {
		m, err := cbor.DecOptions{IndefLength: cbor.IndefLengthForbidden}.DecMode()
		if err != nil {
			panic(err)
		}
		return m
	}()
)

func synthKey(k int) int {
	if k%3 == 2 {
		return -k - 1
	}
	return k
}

func execFmap(in string) string {
	f := fields(in)
	n, _ := strconv.Atoi(f[1])
	m := encoding.VerifNewFieldsCBOR()
	for k := 0; k < n; k++ {
		if err := m.Add(synthKey(k), cborHead(0, uint64(k%97))); err != nil {
			return "add-err"
		}
	}
	b, err := m.ToCBOR(embEm)
	if err != nil {
		return "tocbor-err"
	}
	head := b
	if len(head) > 6 {
		head = head[:6]
	}
	out := []string{hexTok(head), strconv.Itoa(len(b))}
	back := encoding.VerifNewFieldsCBOR()
	res := guard(func() string {
		if err := back.FromCBOR(embDm, b); err != nil {
			return "rt=err"
		}
		keys := back.Keys()
		if len(keys) != n {
			return "rt=differs"
		}
		for k := 0; k < n; k++ {
			v, ok := back.Get(synthKey(k))
			if keys[k] != synthKey(k) || !ok || !bytes.Equal(v, cborHead(0, uint64(k%97))) {
				return "rt=differs"
			}
		}
		return "rt=ok"
	})
	return strings.Join(append(out, res), " ")
}

func execFrom(in string) string {
	f := fields(in)
	b := parseHexTok(f[1])
	var ms1, ms2 runtime.MemStats
	m := encoding.VerifNewFieldsCBOR()
	runtime.ReadMemStats(&ms1)
	res := guard(func() string {
		if err := m.FromCBOR(embDm, b); err != nil {
			return "err"
		}
		keys := m.Keys()
		if len(keys) == 0 {
			return "ok {}"
		}
		items := make([]string, len(keys))
		for i, k := range keys {
			v, _ := m.Get(k)
			items[i] = strconv.Itoa(k) + ":" + hexTok(v)
		}
		return "ok " + strings.Join(items, ",")
	})
	runtime.ReadMemStats(&ms2)
	return res + " ## alloc=" + strconv.FormatUint(ms2.TotalAlloc-ms1.TotalAlloc, 10) + " len=" + strconv.Itoa(len(b))
}

// ---- the struct shapes (mirrored in coq/theories/RunEmb.v)

type Inner2 struct {
	G *int64  `cbor:"30,keyasint,omitempty" json:"g,omitempty"`
	H *string `cbor:"31,keyasint" json:"h"`
}

type Inner1 struct {
	D *int64  `cbor:"20,keyasint" json:"d"`
	E *[]byte `cbor:"21,keyasint,omitempty" json:"e,omitempty"`
	Inner2
}

type Flat struct {
	A *int64  `cbor:"1,keyasint" json:"a"`
	B *string `cbor:"2,keyasint,omitempty" json:"b,omitempty"`
	C *[]byte `cbor:"-3,keyasint,omitempty" json:"c,omitempty"`
	X *int64  `cbor:"-" json:"-"`
	Y *string
}

type Emb1 struct {
	P *int64  `cbor:"10,keyasint" json:"p"`
	Q *string `cbor:"11,keyasint,omitempty" json:"q,omitempty"`
	Inner2
}

type Emb2 struct {
	P *int64 `cbor:"10,keyasint" json:"p"`
	Inner1
}

type IExt interface{ isExt() }

func (*Inner2) isExt() {}

type Iface struct {
	P *int64 `cbor:"10,keyasint,omitempty" json:"p,omitempty"`
	IExt
}

type DupInner struct {
	P2 *int64  `cbor:"10,keyasint,omitempty" json:"p,omitempty"`
	R  *string `cbor:"12,keyasint,omitempty" json:"r,omitempty"`
}

type Dup struct {
	P *int64 `cbor:"10,keyasint" json:"p"`
	DupInner
}

type AllOptInner struct {
	C *[]byte `cbor:"3,keyasint,omitempty" json:"c,omitempty"`
}

type AllOpt struct {
	A *int64  `cbor:"1,keyasint,omitempty" json:"a,omitempty"`
	B *string `cbor:"2,keyasint,omitempty" json:"b,omitempty"`
	AllOptInner
}

func newShape(name string) any {
	switch name {
	case "flat":
		return &Flat{}
	case "emb1":
		return &Emb1{}
	case "emb2":
		return &Emb2{}
	case "iface":
		return &Iface{IExt: &Inner2{}}
	case "ifacenil":
		return &Iface{}
	case "dup":
		return &Dup{}
	case "allopt":
		return &AllOpt{}
	}
	panic("unknown shape " + name)
}

// pointers to the leaf fields in declaration order, depth first
func leaves(v reflect.Value, out *[]reflect.Value) {
	if v.Kind() == reflect.Pointer || v.Kind() == reflect.Interface {
		if v.IsNil() {
			return
		}
		leaves(v.Elem(), out)
		return
	}
	if v.Kind() != reflect.Struct {
		return
	}
	for i := 0; i < v.NumField(); i++ {
		f := v.Field(i)
		ft := v.Type().Field(i)
		if ft.Anonymous {
			leaves(f, out)
			continue
		}
		*out = append(*out, f)
	}
}

func setLeaf(f reflect.Value, tok string) {
	switch {
	case tok == "_":
		f.Set(reflect.Zero(f.Type()))
	case tok[0] == 'i':
		z, _ := strconv.ParseInt(tok[1:], 10, 64)
		f.Set(reflect.ValueOf(&z))
	case tok[0] == 's':
		s := string(parseHexTok(tok[1:]))
		f.Set(reflect.ValueOf(&s))
	case tok[0] == 'b':
		b := parseHexTok(tok[1:])
		f.Set(reflect.ValueOf(&b))
	}
}

func leafTok(f reflect.Value) string {
	if f.IsNil() {
		return "_"
	}
	switch p := f.Interface().(type) {
	case *int64:
		return "i" + itoa(*p)
	case *string:
		return "s" + hexTok([]byte(*p))
	case *[]byte:
		return "b" + hexTok(*p)
	}
	return "?"
}

func fillShape(name string, vals []string) any {
	s := newShape(name)
	var ls []reflect.Value
	leaves(reflect.ValueOf(s), &ls)
	if len(ls) != len(vals) {
		panic(fmt.Sprintf("shape %s has %d leaves, line gives %d values", name, len(ls), len(vals)))
	}
	for i, f := range ls {
		// kind check: the token kind must fit the field type
		setLeaf(f, vals[i])
	}
	return s
}

func execSer(in string) string {
	f := fields(in)
	s := fillShape(f[1], f[2:])
	return guard(func() string {
		b, err := encoding.SerializeStructToCBOR(embEm, s)
		if err != nil {
			return "err"
		}
		return "ok:" + hexTok(b)
	})
}

func execPop(in string) string {
	f := fields(in)
	s := newShape(f[1])
	b := parseHexTok(f[2])
	return guard(func() string {
		if err := encoding.PopulateStructFromCBOR(embDm, b, s); err != nil {
			return "err"
		}
		var ls []reflect.Value
		leaves(reflect.ValueOf(s), &ls)
		out := []string{"ok"}
		for _, l := range ls {
			out = append(out, leafTok(l))
		}
		return strings.Join(out, " ")
	})
}

// SERJ: JSON side, evaluated by implementation-level oracles:
//
//	rt      populating a blank struct from the output reproduces the values
//	plain   (flat shapes) the output decodes to the same map as encoding/json's own marshaller
//	stable  serialising twice gives identical bytes
//	cplain  (flat shapes) the CBOR output decodes to the same map as the plain CBOR marshaller
func execSerJ(in string) string {
	f := fields(in)
	name := f[1]
	s := fillShape(name, f[2:])
	return guard(func() string {
		j1, err := encoding.SerializeStructToJSON(s)
		if err != nil {
			return "err"
		}
		keep := string(j1)
		// other serialisations in between: a returned document must not be backed by a reused buffer
		for _, other := range []string{"allopt", "emb1", "flat"} {
			_, _ = encoding.SerializeStructToJSON(newShape(other))
		}
		j2, _ := encoding.SerializeStructToJSON(s)
		out := []string{"ok"}
		out = append(out, "stable="+bit(bytes.Equal(j1, j2) && string(j1) == keep))
		blank := newShape(name)
		rt := "0"
		if err := encoding.PopulateStructFromJSON(j1, blank); err == nil {
			var a, b []reflect.Value
			leaves(reflect.ValueOf(s), &a)
			leaves(reflect.ValueOf(blank), &b)
			same := len(a) == len(b)
			for i := range a {
				tagged := true
				if name == "flat" && i >= 3 {
					tagged = false // untagged / "-" fields are not serialised
				}
				if same && tagged && leafTok(a[i]) != leafTok(b[i]) {
					same = false
				}
			}
			if same {
				rt = "1"
			}
		}
		out = append(out, "rt="+rt)
		plain, cplain := "*", "*"
		if name == "flat" || name == "allopt" && false {
			pj, _ := json.Marshal(s)
			var m1, m2 map[string]any
			_ = json.Unmarshal(j1, &m1)
			_ = json.Unmarshal(pj, &m2)
			delete(m2, "Y") // the plain marshaller also emits the untagged exported field
			plain = bit(reflect.DeepEqual(m1, m2))
			c1, err1 := encoding.SerializeStructToCBOR(embEm, s)
			fl := s.(*Flat)
			cp, err2 := embEm.Marshal(struct {
				A *int64  `cbor:"1,keyasint"`
				B *string `cbor:"2,keyasint,omitempty"`
				C *[]byte `cbor:"-3,keyasint,omitempty"`
			}{fl.A, fl.B, fl.C})
			var cm1, cm2 map[int]any
			if err1 == nil && err2 == nil && embDm.Unmarshal(c1, &cm1) == nil && embDm.Unmarshal(cp, &cm2) == nil {
				cplain = bit(reflect.DeepEqual(cm1, cm2))
			} else {
				cplain = "0"
			}
		}
		out = append(out, "plain="+plain, "cplain="+cplain)
		// member order = declaration order (outer fields first)
		out = append(out, "keys="+jsonKeys(j1))
		return strings.Join(out, " ")
	})
}

func jsonKeys(j []byte) string {
	dec := json.NewDecoder(bytes.NewReader(j))
	var keys []string
	depth := 0
	expectKey := false
	for {
		t, err := dec.Token()
		if err != nil {
			break
		}
		switch v := t.(type) {
		case json.Delim:
			if v == '{' || v == '[' {
				depth++
				expectKey = v == '{' && depth == 1
			} else {
				depth--
				expectKey = depth == 1
			}
		case string:
			if depth == 1 && expectKey {
				keys = append(keys, v)
				expectKey = false
			} else if depth == 1 {
				expectKey = true
			}
		default:
			if depth == 1 {
				expectKey = true
			}
		}
	}
	return strings.Join(keys, ",")
}

var _ = sort.Strings

func randVal(kind byte, r *rng, allowNil bool) string {
	if allowNil && r.intn(3) == 0 {
		return "_"
	}
	switch kind {
	case 'i':
		vals := []int64{0, 1, -1, 23, 24, 255, 256, -25, 65535, 65536, 1 << 31, -(1 << 31) - 1, 1<<63 - 1, -(1 << 63)}
		return "i" + itoa(vals[r.intn(len(vals))])
	case 's':
		vals := []string{"", "x", "hello", "é世", strings.Repeat("a", 24), strings.Repeat("b", 256)}
		return "s" + hx(vals[r.intn(len(vals))])
	default:
		n := []int{0, 1, 23, 24, 255, 256}[r.intn(6)]
		return "b" + rep(n, byte(r.intn(256)))
	}
}

var shapeKinds = map[string]string{
	"flat": "isbis", "emb1": "isis", "emb2": "iibis", "iface": "iis", "ifacenil": "i", "dup": "iis", "allopt": "isb",
}

// serialisation cases for the embedding-aware codec (what extension profiles marshal through):
// shapes x random values (zero values behind set pointers included) x subsets of set fields
func genSerLines(r *rng, n int, withJSON bool, emit func(string)) {
	names := []string{"flat", "emb1", "emb2", "iface", "ifacenil", "dup", "allopt"}
	for _, name := range names {
		kinds := shapeKinds[name]
		allNil := make([]string, len(kinds))
		for i := range allNil {
			allNil[i] = "_"
		}
		emit("SER " + name + " " + strings.Join(allNil, " "))
		if withJSON {
			emit("SERJ " + name + " " + strings.Join(allNil, " "))
		}
		for i := 0; i < n; i++ {
			vals := make([]string, len(kinds))
			for j := range vals {
				vals[j] = randVal(kinds[j], r, true)
			}
			line := name + " " + strings.Join(vals, " ")
			emit("SER " + line)
			if withJSON {
				emit("SERJ " + line)
			}
		}
	}
}

func genC15(tier string, seed uint64, emit func(string)) {
	r := &rng{s: seed}
	// 1. header: every entry count around the boundaries, plus larger ones
	counts := []int{}
	for n := 0; n <= 40; n++ {
		counts = append(counts, n)
	}
	for n := 250; n <= 260; n++ {
		counts = append(counts, n)
	}
	for n := 65530; n <= 65540; n++ {
		counts = append(counts, n)
	}
	counts = append(counts, 70000)
	if tier == "thorough" {
		for n := 41; n < 70000; n += 97 {
			counts = append(counts, n)
		}
	}
	for _, n := range counts {
		emit("FMAP " + strconv.Itoa(n))
	}
	// 2. shapes x values x every subset of optional fields
	n := 300
	if tier == "thorough" {
		n = 6000
	}
	names := []string{"flat", "emb1", "emb2", "iface", "ifacenil", "dup", "allopt"}
	for _, name := range names {
		kinds := shapeKinds[name]
		// all-nil and all-set first
		allNil := make([]string, len(kinds))
		for i := range allNil {
			allNil[i] = "_"
		}
		emit("SER " + name + " " + strings.Join(allNil, " "))
		emit("SERJ " + name + " " + strings.Join(allNil, " "))
		for i := 0; i < n; i++ {
			vals := make([]string, len(kinds))
			for j := range vals {
				vals[j] = randVal(kinds[j], r, true)
			}
			line := name + " " + strings.Join(vals, " ")
			emit("SER " + line)
			emit("SERJ " + line)
		}
	}
	// 3. populate from hand-assembled maps: missing mandatory keys, duplicates, unknown keys, wrong types, tags, indefinite length
	valOf := map[byte][]cv{
		'i': {cUint(0), cUint(7), cNint(3), cUint(1 << 40), cNull, cText("no"), cBytes([]byte{1}), cFloat64(1), cSimple(5), cTag(2, cBytes([]byte{1}))},
		's': {cText(""), cText("str"), cNull, cUint(1), cBytes([]byte{0x61}), cText("\xff")},
		'b': {cBytes(nil), cBytes([]byte{1, 2, 3}), cNull, cText("x"), cArray(cUint(1), cUint(2)), cUint(9)},
	}
	shapeKeys := map[string][]int64{"flat": {1, 2, -3}, "emb1": {10, 11, 30, 31}, "emb2": {10, 20, 21, 30, 31}, "iface": {10, 30, 31}, "ifacenil": {10}, "dup": {10, 12}, "allopt": {1, 2, 3}}
	shapeKeyKinds := map[string]string{"flat": "isb", "emb1": "isis", "emb2": "iibis", "iface": "iis", "ifacenil": "i", "dup": "is", "allopt": "isb"}
	for _, name := range names {
		keys := shapeKeys[name]
		kk := shapeKeyKinds[name]
		for i := 0; i < n; i++ {
			var ps []kvp
			for j, k := range keys {
				if r.intn(5) == 0 {
					continue // key missing
				}
				alts := valOf[kk[j]]
				v := alts[0]
				if r.intn(3) == 0 {
					v = alts[r.intn(len(alts))]
				} else {
					v = alts[r.intn(2)]
				}
				ps = append(ps, kvp{cInt(k), v})
			}
			if r.intn(6) == 0 {
				ps = append(ps, kvp{cUint(999), cText("unknown")})
			}
			if r.intn(10) == 0 && len(ps) > 0 {
				ps = append(ps, ps[r.intn(len(ps))]) // duplicate key
			}
			for j := len(ps) - 1; j > 0; j-- {
				k := r.intn(j + 1)
				ps[j], ps[k] = ps[k], ps[j]
			}
			var b []byte
			switch r.intn(12) {
			case 0:
				b = cIndefMap(ps...)
			case 1:
				b = cTag(55799, cMap(ps...))
			case 2:
				b = append(cMap(ps...), 0x00)
			default:
				b = cMap(ps...)
			}
			emit("POP " + name + " " + hexTok(b))
		}
	}
	// 4. the reader on hostile / odd headers
	for _, b := range [][]byte{{}, {0xa0}, {0xa0, 0xff}, {0xbf, 0xff}, {0xbf}, {0xc0}, {0xc1, 0xa0}, {0xd9, 0xd9, 0xf7, 0xa0}, {0xd9, 0xd9, 0xf7}, {0xc0, 0xc0, 0xa0},
		{0xba, 0xff, 0xff, 0xff, 0xff}, {0xba, 0x80, 0, 0, 0}, {0xba, 0, 0x10, 0, 0}, {0xb9, 0xff, 0xff}, {0xb8, 0x02, 1, 1, 2, 2}, {0xbb, 0, 0, 0, 0, 0, 0, 0, 1, 1, 1},
		{0xa1, 0x01}, {0xa1}, {0xa2, 0x01, 0x02, 0x01, 0x03}, {0x80}, {0x01}, {0xa1, 0x61, 0x61, 0x01}, {0xa1, 0xe5, 0x01}, {0xbc}, {0xa1, 0x01, 0x9f, 0xff}, {0xa1, 0x01, 0xc2, 0x41, 0x01}} {
		emit("FROM " + hexTok(b))
	}
}
