package main

import (
	"fmt"
	"reflect"
	"sort"
	"strconv"
	"strings"

	"github.com/veraison/psatoken"
)

// PUR <k> <13 claims tokens> <rop>*: read-side calls on a claims-set c, on the
// Evidence e that signed it with key k, and on the Evidence d decoded from the
// token (whose input buffer is overwritten right after decoding).  After every
// call the deep contents of c, e and d are compared with a dump taken before it.
func init() {
	execs["PUR"] = execPur
	props["C18"] = &prop{gen: genC18}
}

// deepDump prints the reachable contents of a value, following pointers and
// interfaces and including unexported fields; addresses are never printed
func deepDump(v reflect.Value, depth int, sb *strings.Builder) {
	if depth > 40 {
		sb.WriteString("<deep>")
		return
	}
	if !v.IsValid() {
		sb.WriteString("<invalid>")
		return
	}
	switch v.Kind() {
	case reflect.Ptr:
		if v.IsNil() {
			sb.WriteString("nil")
			return
		}
		sb.WriteString("&")
		deepDump(v.Elem(), depth+1, sb)
	case reflect.Interface:
		if v.IsNil() {
			sb.WriteString("nil")
			return
		}
		sb.WriteString(v.Elem().Type().String())
		sb.WriteString(":")
		deepDump(v.Elem(), depth+1, sb)
	case reflect.Struct:
		sb.WriteString("{")
		for i := 0; i < v.NumField(); i++ {
			sb.WriteString(v.Type().Field(i).Name)
			sb.WriteString("=")
			deepDump(v.Field(i), depth+1, sb)
			sb.WriteString(";")
		}
		sb.WriteString("}")
	case reflect.Slice:
		if v.IsNil() {
			sb.WriteString("nil[]")
			return
		}
		fallthrough
	case reflect.Array:
		if v.Type().Elem().Kind() == reflect.Uint8 {
			sb.WriteString("h'")
			for i := 0; i < v.Len(); i++ {
				fmt.Fprintf(sb, "%02x", v.Index(i).Uint())
			}
			sb.WriteString("'")
			return
		}
		sb.WriteString("[")
		for i := 0; i < v.Len(); i++ {
			deepDump(v.Index(i), depth+1, sb)
			sb.WriteString(",")
		}
		sb.WriteString("]")
	case reflect.Map:
		if v.IsNil() {
			sb.WriteString("nilmap")
			return
		}
		var items []string
		iter := v.MapRange()
		for iter.Next() {
			var kb, vb strings.Builder
			deepDump(iter.Key(), depth+1, &kb)
			deepDump(iter.Value(), depth+1, &vb)
			items = append(items, kb.String()+":"+vb.String())
		}
		sort.Strings(items)
		sb.WriteString("map{" + strings.Join(items, ",") + "}")
	case reflect.String:
		sb.WriteString(strconv.Quote(v.String()))
	case reflect.Bool:
		sb.WriteString(strconv.FormatBool(v.Bool()))
	case reflect.Int, reflect.Int8, reflect.Int16, reflect.Int32, reflect.Int64:
		sb.WriteString(strconv.FormatInt(v.Int(), 10))
	case reflect.Uint, reflect.Uint8, reflect.Uint16, reflect.Uint32, reflect.Uint64, reflect.Uintptr:
		sb.WriteString(strconv.FormatUint(v.Uint(), 10))
	case reflect.Float32, reflect.Float64:
		sb.WriteString(strconv.FormatFloat(v.Float(), 'g', -1, 64))
	case reflect.Func, reflect.Chan, reflect.UnsafePointer:
		if v.IsNil() {
			sb.WriteString("nilfn")
		} else {
			sb.WriteString("fn")
		}
	default:
		sb.WriteString("<" + v.Kind().String() + ">")
	}
}

func dumpOf(x interface{}) string {
	var sb strings.Builder
	deepDump(reflect.ValueOf(x), 0, &sb)
	return sb.String()
}

func execPur(in string) string {
	f := fields(in)
	k, _ := strconv.Atoi(f[1])
	ctok := f[2 : 2+nClaimTok]
	ops := f[2+nClaimTok:]
	c := parseClaims(ctok)
	e := &psatoken.Evidence{}
	e.Claims = c
	var d *psatoken.Evidence
	haveE := false
	pre := guard(func() string {
		tok, err := e.Sign(mkSigner("g" + strconv.Itoa(k)))
		if err != nil {
			return "nosig"
		}
		haveE = true
		buf := append([]byte{}, tok...)
		dd, err := psatoken.DecodeEvidenceFromCOSE(buf)
		// the caller reuses its buffer
		for i := range buf {
			buf[i] = 0xff
		}
		for i := range tok {
			tok[i] = 0xee
		}
		if err != nil {
			return "sig,nodec"
		}
		d = dd
		return "sig,dec"
	})
	out := []string{pre}
	getters := func(x psatoken.IClaims) string { return strings.Join(obsGetters(x), ",") }
	encC := func(x psatoken.IClaims, validating bool) string {
		var b []byte
		var err error
		if validating {
			b, err = psatoken.ValidateAndEncodeClaimsToCBOR(x)
		} else {
			b, err = psatoken.EncodeClaimsToCBOR(x)
		}
		if err != nil {
			return "err"
		}
		return "ok:" + hexTok(b)
	}
	encJ := func(x psatoken.IClaims, validating bool) string {
		var b []byte
		var err error
		if validating {
			b, err = psatoken.ValidateAndEncodeClaimsToJSON(x)
		} else {
			b, err = psatoken.EncodeClaimsToJSON(x)
		}
		if err != nil {
			return "err"
		}
		return "ok:" + jsonTreeTok(b)
	}
	verify := func(x *psatoken.Evidence, key string) string {
		kk, _ := strconv.Atoi(key)
		if err := x.Verify(theKeys()[kk].pub); err != nil {
			return "err"
		}
		return "ok"
	}
	for _, op := range ops {
		before := [3]string{dumpOf(c), dumpOf(e), dumpOf(d)}
		res := guard(func() string {
			switch {
			case op == "v":
				return errTok(c.Validate())
			case op == "g":
				return getters(c)
			case op == "c":
				return encC(c, false)
			case op == "j":
				return encJ(c, false)
			case op == "vc":
				return encC(c, true)
			case op == "vj":
				return encJ(c, true)
			}
			if op[0] == 'e' {
				if !haveE {
					return "na"
				}
				switch {
				case op[1] == 'V':
					return verify(e, op[2:])
				case op == "ej":
					b, err := e.MarshalJSON()
					if err != nil {
						return "err"
					}
					return "ok:" + jsonTreeTok(b)
				case op == "eg":
					return getters(e.Claims)
				}
			}
			if op[0] == 'd' {
				if d == nil {
					return "na"
				}
				switch {
				case op[1] == 'V':
					return verify(d, op[2:])
				case op == "dg":
					return getters(d.Claims)
				case op == "dv":
					return errTok(d.Claims.Validate())
				case op == "dc":
					return encC(d.Claims, false)
				case op == "dj":
					return encJ(d.Claims, false)
				case op == "dm":
					b, err := d.MarshalJSON()
					if err != nil {
						return "err"
					}
					return "ok:" + jsonTreeTok(b)
				}
			}
			panic("bad op " + op)
		})
		after := [3]string{dumpOf(c), dumpOf(e), dumpOf(d)}
		st := "same"
		if before != after {
			st = "changed:"
			for i, n := range []string{"c", "e", "d"} {
				if before[i] != after[i] {
					st += n
				}
			}
		}
		out = append(out, res+"/"+st)
	}
	return strings.Join(out, " ")
}

func genC18(tier string, seed uint64, emit func(string)) {
	r := &rng{s: seed}
	n := 500
	if tier == "thorough" {
		n = 5000
	}
	cops := []string{"v", "g", "c", "j", "vc", "vj"}
	eops := []string{"eV", "eV", "ej", "eg"}
	dops := []string{"dV", "dV", "dg", "dv", "dc", "dj", "dm"}
	for kind := 1; kind <= 2; kind++ {
		alt := claimAlternatives(kind, r)
		for i := 0; i < n; i++ {
			c := validClaims(kind, r)
			// a third of the claims-sets are invalid in one claim
			if r.intn(3) == 0 {
				for {
					fld := 1 + r.intn(nClaimTok-1)
					if len(alt[fld]) > 0 {
						c[fld] = alt[fld][r.intn(len(alt[fld]))]
						break
					}
				}
				if !claimsTextsUTF8(c) {
					continue
				}
			}
			// a nil element inside the component list (reachable through the non-validating decoders), flag values other than 1
			switch r.intn(12) {
			case 0:
				c[tSwc] = "[nil;" + validSwcTok(r) + ";" + validSwcTok(r) + "]"
			case 1:
				c[tSwc] = "[" + validSwcTok(r) + ";nil]"
			case 2:
				if kind == 1 {
					c[tNosw] = []string{"0", "2", "7"}[r.intn(3)]
				}
			}
			// empty component lists exercise the marshallers' normalisation
			if kind == 1 && r.intn(6) == 0 {
				c[tSwc] = "[]"
				c[tNosw] = "1"
			}
			k := 1 + r.intn(5)
			nops := 2 + r.intn(14)
			var ops []string
			for j := 0; j < nops; j++ {
				var op string
				switch r.intn(3) {
				case 0:
					op = cops[r.intn(len(cops))]
				case 1:
					op = eops[r.intn(len(eops))]
				default:
					op = dops[r.intn(len(dops))]
				}
				if op == "eV" || op == "dV" {
					kk := k
					if r.intn(2) == 0 {
						kk = 1 + r.intn(5)
					}
					op += strconv.Itoa(kk)
				}
				ops = append(ops, op)
				// repeat the same call straight away now and then
				if r.intn(4) == 0 {
					ops = append(ops, op)
				}
			}
			emit("PUR " + strconv.Itoa(k) + " " + c.String() + " " + strings.Join(ops, " "))
		}
	}
}
