package main

import (
	"errors"
	"fmt"
	"strconv"
	"strings"

	"github.com/veraison/psatoken"
)

func init() {
	execs["HIST"] = execHist
	execs["HISTC"] = execHist
	execs["FILT"] = execFilt
	props["C11"] = &prop{gen: genC11}
	props["C13"] = &prop{gen: genC13}
}

func swcList(tok string) []psatoken.ISwComponent {
	if tok == "_" {
		return nil
	}
	out := []psatoken.ISwComponent{}
	for _, it := range unbracket(tok) {
		sc := parseSwc(it)
		if sc == nil {
			panic("nil component passed to a setter is outside the domain")
		}
		out = append(out, sc)
	}
	return out
}

type histState struct {
	c    psatoken.IClaims
	last []psatoken.ISwComponent // the list last passed to SetSoftwareComponents successfully
}

func applyOp(st *histState, op string) string {
	parts := strings.Split(op, ":")
	c := st.c
	return guard(func() string {
		switch parts[0] {
		case "sc":
			v, _ := strconv.ParseInt(parts[1], 10, 32)
			return errTok(c.SetClientID(int32(v)))
		case "sl":
			v, _ := strconv.ParseUint(parts[1], 10, 16)
			return errTok(c.SetSecurityLifeCycle(uint16(v)))
		case "si":
			return errTok(c.SetImplID(parseHexTok(parts[1])))
		case "sb":
			return errTok(c.SetBootSeed(parseHexTok(parts[1])))
		case "sr":
			return errTok(c.SetCertificationReference(string(parseHexTok(parts[1]))))
		case "sn":
			return errTok(c.SetNonce(parseHexTok(parts[1])))
		case "su":
			return errTok(c.SetInstID(parseHexTok(parts[1])))
		case "sv":
			return errTok(c.SetVSI(string(parseHexTok(parts[1]))))
		case "ss":
			l := swcList(parts[1])
			err := c.SetSoftwareComponents(l)
			if err == nil {
				st.last = l
			}
			return errTok(err)
		case "mc":
			idx, _ := strconv.Atoi(parts[1])
			// through the pointer the caller retained if there is one, else through the container
			var target *psatoken.SwComponent
			if idx < len(st.last) {
				target = st.last[idx].(*psatoken.SwComponent)
			} else {
				panic("mc: no retained pointer for index " + parts[1])
			}
			*target = *parseSwc(parts[2])
			return "ok"
		}
		panic("unknown op " + op)
	})
}

func execHist(in string) string {
	f := fields(in)
	var st histState
	var ops []string
	if f[0] == "HISTC" {
		st.c = parseClaims(f[1 : 1+nClaimTok])
		ops = f[1+nClaimTok:]
		// retained pointers: the components currently in the container
		if vals, err := containerValues(st.c); err == nil {
			st.last = vals
		}
	} else {
		switch f[1] {
		case "new1":
			c, err := psatoken.NewClaims(psatoken.Profile1Name)
			if err != nil {
				panic(err)
			}
			st.c = c
		case "new1np":
			st.c = newP1NoProfile()
		case "new2":
			c, err := psatoken.NewClaims(psatoken.Profile2Name)
			if err != nil {
				panic(err)
			}
			st.c = c
		default:
			panic("bad init " + f[1])
		}
		ops = f[2:]
	}
	out := obsGetters(st.c)
	for _, op := range ops {
		out = append(out, applyOp(&st, op))
		out = append(out, obsGetters(st.c)...)
	}
	return strings.Join(out, " ")
}

// a profile-1 claims-set without explicit profile claim, as the decoder
// produces for a token that carries none
func newP1NoProfile() psatoken.IClaims {
	c, err := psatoken.NewClaims(psatoken.Profile1Name)
	if err != nil {
		panic(err)
	}
	c.(*psatoken.P1Claims).Profile = nil
	return c
}

// raw contents of the component container (no validation), nil elements skipped
func containerValues(c psatoken.IClaims) ([]psatoken.ISwComponent, error) {
	var cont psatoken.ISwComponents
	switch t := c.(type) {
	case *psatoken.P1Claims:
		cont = t.SwComponents
	case *psatoken.P2Claims:
		cont = t.SwComponents
	}
	s, ok := cont.(*psatoken.SwComponents[*psatoken.SwComponent])
	if !ok || s == nil {
		return nil, errors.New("no container")
	}
	raw := rawValues(s)
	out := make([]psatoken.ISwComponent, len(raw))
	for i, p := range raw {
		if p == nil {
			return nil, errors.New("nil element")
		}
		out[i] = p
	}
	return out, nil
}

// ---------------------------------------------------------------- FilterError

type uwErr struct{ e error }

func (u *uwErr) Error() string { return "uw(" + u.e.Error() + ")" }
func (u *uwErr) Unwrap() error { return u.e }

type mwErr struct{ es []error }

func (m *mwErr) Error() string   { return fmt.Sprintf("mw(%d)", len(m.es)) }
func (m *mwErr) Unwrap() []error { return m.es }

func buildTree(ts []string) (error, []string) {
	t := ts[0]
	r := ts[1:]
	sent := func(c byte) error {
		switch c {
		case 'o':
			return psatoken.ErrMissingOptional
		case 'm':
			return psatoken.ErrMissingMandatory
		case 'n':
			return psatoken.ErrNotInProfile
		case 'p':
			return psatoken.ErrWrongProfile
		case 's':
			return psatoken.ErrWrongSyntax
		}
		panic("bad sentinel")
	}
	derived := func(c byte) error {
		switch c {
		case 'o':
			return psatoken.ErrOptionalClaimMissing
		case 'm':
			return psatoken.ErrMandatoryFieldMissing
		case 'n':
			return psatoken.ErrClaimNotInProfile
		case 'p':
			return fmt.Errorf("x: %w", psatoken.ErrWrongProfile)
		case 's':
			return fmt.Errorf("%w: y", psatoken.ErrWrongSyntax)
		}
		panic("bad derived")
	}
	many := func(k int, r []string) ([]error, []string) {
		es := make([]error, k)
		for i := 0; i < k; i++ {
			es[i], r = buildTree(r)
		}
		return es, r
	}
	switch t[0] {
	case 'S':
		return sent(t[1]), r
	case 'D':
		return derived(t[1]), r
	case 'O':
		return errors.New("opaque"), r
	case 'V':
		e, r2 := buildTree(r)
		return fmt.Errorf("v: %v", e), r2
	case 'U':
		e, r2 := buildTree(r)
		return &uwErr{e}, r2
	case 'W', 'J', 'M':
		k, _ := strconv.Atoi(t[1:])
		es, r2 := many(k, r)
		switch t[0] {
		case 'W':
			args := make([]any, k)
			for i := range es {
				args[i] = es[i]
			}
			return fmt.Errorf("w"+strings.Repeat(" %w", k), args...), r2
		case 'J':
			if k == 0 {
				return &mwErr{nil}, r2 // errors.Join() is nil; keep a non-nil node with no children
			}
			return errors.Join(es...), r2
		default:
			return &mwErr{es}, r2
		}
	}
	panic("bad tree token " + t)
}

func execFilt(in string) string {
	f := fields(in)
	if len(f) == 2 && f[1] == "n" {
		if psatoken.FilterError(nil, nil) == nil {
			return "nil"
		}
		return "changed"
	}
	e, rest := buildTree(f[1:])
	if len(rest) != 0 {
		panic("trailing tree tokens")
	}
	r := psatoken.FilterError(42, e)
	switch {
	case r == nil:
		return "nil " + errBits(e)
	case r == e:
		return "same " + errBits(e)
	}
	return "changed " + errBits(e)
}

func genTree(r *rng, depth int) []string {
	leaf := func() []string {
		k := r.intn(12)
		switch {
		case k < 5:
			return []string{"S" + string("omnps"[k])}
		case k < 10:
			return []string{"D" + string("omnps"[k-5])}
		}
		return []string{"O"}
	}
	if depth == 0 || r.intn(4) == 0 {
		return leaf()
	}
	switch r.intn(6) {
	case 0:
		return append([]string{"V"}, genTree(r, depth-1)...)
	case 1:
		return append([]string{"U"}, genTree(r, depth-1)...)
	default:
		k := r.intn(4)
		kind := string("WJM"[r.intn(3)])
		if kind == "W" && k == 0 {
			k = 1
		}
		out := []string{kind + strconv.Itoa(k)}
		for i := 0; i < k; i++ {
			out = append(out, genTree(r, depth-1)...)
		}
		return out
	}
}

// ---------------------------------------------------------------- generators

// value classes for each setter
func setterOps(kind int, r *rng) map[string][]string {
	ops := map[string][]string{}
	for n := 0; n <= 80; n++ {
		ops["si"] = append(ops["si"], "si:"+rep(n, 0xa1))
		ops["sb"] = append(ops["sb"], "sb:"+rep(n, 0xb2))
		ops["sn"] = append(ops["sn"], "sn:"+rep(n, 0xc3))
		for _, first := range []string{"01", "00", "02", "ff"} {
			if n == 0 {
				ops["su"] = append(ops["su"], "su:.")
				break
			}
			tok := first
			if n > 1 {
				tok += rep(n-1, 0xd4)
			}
			ops["su"] = append(ops["su"], "su:"+tok)
		}
	}
	for _, v := range []string{"0", "-1", "1", "2147483647", "-2147483648", "77"} {
		ops["sc"] = append(ops["sc"], "sc:"+v)
	}
	for p := 0; p < 8; p++ {
		for _, d := range []int{-1, 0, 1, 0xff, 0x100, 0x42} {
			v := p*0x1000 + d
			if v >= 0 && v < 65536 {
				ops["sl"] = append(ops["sl"], "sl:"+strconv.Itoa(v))
			}
		}
	}
	ops["sl"] = append(ops["sl"], "sl:65535", "sl:32768")
	for _, s := range []string{"", "x", " ", "https://v.example/", "\xff\xfe", "é"} {
		ops["sv"] = append(ops["sv"], "sv:"+hx(s))
	}
	for _, ref := range []string{"1234567890123", "1234567890123-12345"} {
		for _, s := range editNeighbourhood(ref) {
			ops["sr"] = append(ops["sr"], "sr:"+hx(s))
		}
	}
	ops["sr"] = append(ops["sr"], "sr:.", "sr:"+hx("1234567890123\n"), "sr:"+hx("x1234567890123-12345"))
	ops["ss"] = []string{"ss:_", "ss:[]"}
	bad := []string{"_,_,_,_,_", "_," + rep(32, 1) + ",_,_,_", "_,_,_," + rep(32, 1) + ",_", "_," + rep(31, 1) + ",_," + rep(32, 2) + ",_",
		"_," + rep(32, 1) + ",_," + rep(65, 2) + ",_", "_,.,_," + rep(64, 2) + ",_"}
	for n := 1; n <= 4; n++ {
		items := make([]string, n)
		for i := range items {
			items[i] = validSwcTok(r)
		}
		ops["ss"] = append(ops["ss"], "ss:["+strings.Join(items, ";")+"]")
		for pos := 0; pos < n; pos++ {
			for _, b := range bad {
				it2 := append([]string{}, items...)
				it2[pos] = b
				ops["ss"] = append(ops["ss"], "ss:["+strings.Join(it2, ";")+"]")
			}
		}
	}
	for n := 0; n <= 80; n++ {
		ops["ss"] = append(ops["ss"], "ss:[_,"+rep(n, 9)+",_,"+rep(32, 8)+",_]", "ss:[_,"+rep(48, 9)+",_,"+rep(n, 8)+",_]")
	}
	return ops
}

func validOp(kind int, name string, r *rng) string {
	sizes := []int{32, 48, 64}
	switch name {
	case "sc":
		return "sc:" + itoa(int64(int32(r.next())))
	case "sl":
		return "sl:" + strconv.Itoa(r.intn(7)*0x1000+r.intn(256))
	case "si":
		return "si:" + rep(32, byte(r.intn(256)))
	case "sb":
		if kind == 1 {
			return "sb:" + rep(32, byte(r.intn(256)))
		}
		return "sb:" + rep(8+r.intn(25), byte(r.intn(256)))
	case "sr":
		if kind == 1 && r.intn(2) == 0 {
			return "sr:" + hx("0604565272829")
		}
		return "sr:" + hx("0604565272829-10010")
	case "sn":
		return "sn:" + rep(sizes[r.intn(3)], byte(r.intn(256)))
	case "su":
		return "su:01" + rep(32, byte(r.intn(256)))
	case "sv":
		return "sv:" + hx("https://veraison.example/"+strconv.Itoa(r.intn(100)))
	case "ss":
		n := 1 + r.intn(3)
		items := make([]string, n)
		for i := range items {
			items[i] = validSwcTok(r)
		}
		return "ss:[" + strings.Join(items, ";") + "]"
	}
	panic(name)
}

var setterNames = []string{"sc", "sl", "si", "sb", "sr", "sn", "su", "sv", "ss"}

func genHistories(tier string, r *rng, emit func(string), nHist int) {
	inits := []string{"new1", "new1np", "new2"}
	for kind := 1; kind <= 2; kind++ {
		ops := setterOps(kind, r)
		myInits := inits[:2]
		if kind == 2 {
			myInits = inits[2:]
		}
		// 1. every setter x every value class: on a fresh claims-set, and on one where every claim is already set
		for _, init := range myInits {
			var full []string
			for _, n := range setterNames {
				full = append(full, validOp(kind, n, r))
			}
			for _, n := range setterNames {
				for _, op := range ops[n] {
					emit("HIST " + init + " " + op)
					emit("HIST " + init + " " + strings.Join(full, " ") + " " + op)
				}
			}
		}
		// 2. random histories of 1..40 calls, valid and invalid interleaved
		for i := 0; i < nHist; i++ {
			init := myInits[r.intn(len(myInits))]
			n := 1 + r.intn(40)
			var seq []string
			lastSS := 0
			for j := 0; j < n; j++ {
				name := setterNames[r.intn(len(setterNames))]
				var op string
				if r.intn(3) == 0 {
					op = ops[name][r.intn(len(ops[name]))]
				} else {
					op = validOp(kind, name, r)
				}
				seq = append(seq, op)
				if name == "ss" {
					lastSS = 0
					if strings.HasPrefix(op, "ss:[") && !strings.Contains(op[4:], "_,_,_") {
						lastSS = strings.Count(op, ";") + 1
					}
				}
				// occasionally mutate a component through the retained pointer right after a successful ss
				if name == "ss" && lastSS > 0 && r.intn(4) == 0 && isValidSS(op) {
					idx := r.intn(lastSS)
					newc := []string{validSwcTok(r), "_," + rep(31, 1) + ",_," + rep(32, 2) + ",_", "_,_,_," + rep(32, 2) + ",_"}[r.intn(3)]
					seq = append(seq, "mc:"+strconv.Itoa(idx)+":"+newc)
				}
			}
			emit("HIST " + init + " " + strings.Join(seq, " "))
		}
		// 3. setters on arbitrary (possibly invalid, preloaded) claims-sets
		alt := claimAlternatives(kind, r)
		for i := 0; i < nHist/2; i++ {
			c := validClaims(kind, r)
			for j := 0; j < r.intn(3); j++ {
				f := 1 + r.intn(nClaimTok-1)
				if len(alt[f]) > 0 {
					c[f] = alt[f][r.intn(len(alt[f]))]
				}
			}
			if strings.Contains(c[tSwc], "nil") {
				continue
			}
			var seq []string
			for j := 0; j < 1+r.intn(4); j++ {
				name := setterNames[r.intn(len(setterNames))]
				if r.intn(2) == 0 {
					seq = append(seq, ops[name][r.intn(len(ops[name]))])
				} else {
					seq = append(seq, validOp(kind, name, r))
				}
			}
			// set the value that is already stored (same-value setter calls)
			if c[tLc] != "_" && r.intn(3) == 0 {
				seq = append(seq, "sl:"+c[tLc])
			}
			emit("HISTC " + c.String() + " " + strings.Join(seq, " "))
		}
	}
}

// a setter op whose component list is entirely valid (so that it succeeded and pointers are retained)
func isValidSS(op string) bool {
	if !strings.HasPrefix(op, "ss:[") || op == "ss:[]" {
		return false
	}
	for _, it := range unbracket(op[3:]) {
		f := strings.Split(it, ",")
		okLen := func(h string) bool { return len(h) == 64 || len(h) == 96 || len(h) == 128 }
		if len(f) != 5 || !okLen(f[1]) || !okLen(f[3]) {
			return false
		}
	}
	return true
}

func genC11(tier string, seed uint64, emit func(string)) {
	r := &rng{s: seed}
	n := 1500
	if tier == "thorough" {
		n = 12000
	}
	genHistories(tier, r, emit, n)
}

func genC13(tier string, seed uint64, emit func(string)) {
	r := &rng{s: seed}
	// claims-sets wrong in one or several claims: getters and validation bits
	genC01("quick", seed, emit)
	// setters
	genHistories(tier, r, emit, 200)
	// the filter on arbitrary wrap trees
	emit("FILT n")
	n := 5000
	if tier == "thorough" {
		n = 60000
	}
	for i := 0; i < n; i++ {
		emit("FILT " + strings.Join(genTree(r, 1+r.intn(4)), " "))
	}
}
