package main

import (
	"bytes"
	"encoding/json"
	"strings"

	"github.com/veraison/psatoken"
)

func init() {
	execs["RTJ"] = execRTJ
	props["C12"] = &prop{gen: genC12}
}

// JSON text -> one-token tree (ordered members, strings as hex of their UTF-8 bytes)
func jsonTreeTok(data []byte) string {
	dec := json.NewDecoder(bytes.NewReader(data))
	dec.UseNumber()
	var val func() string
	bad := false
	val = func() string {
		if bad {
			return "!"
		}
		t, err := dec.Token()
		if err != nil {
			bad = true
			return "!"
		}
		switch v := t.(type) {
		case json.Delim:
			if v == '{' {
				var items []string
				for !bad && dec.More() {
					kt, err := dec.Token()
					if err != nil {
						bad = true
						return "!"
					}
					k, _ := kt.(string)
					items = append(items, hexTok([]byte(k))+":"+val())
				}
				dec.Token()
				return "{" + strings.Join(items, ",") + "}"
			}
			var items []string
			for !bad && dec.More() {
				items = append(items, val())
			}
			dec.Token()
			return "[" + strings.Join(items, ",") + "]"
		case string:
			return "s" + hexTok([]byte(v))
		case json.Number:
			return "n" + v.String()
		case bool:
			if v {
				return "t"
			}
			return "f"
		case nil:
			return "z"
		}
		return "!"
	}
	r := val()
	if bad {
		return "!"
	}
	return r
}

func execRTJ(in string) string {
	f := fields(in)
	c := parseClaims(f[1:])
	j, err := psatoken.EncodeClaimsToJSON(c)
	if err != nil {
		return "err"
	}
	out := []string{jsonTreeTok(j)}
	c2, err := psatoken.DecodeClaimsFromJSON(append([]byte{}, j...))
	if err != nil {
		out = append(out, "err")
	} else {
		out = append(out, "ok")
		out = append(out, obsGetters(c2)...)
	}
	cross := "cross=err"
	if b1, err := psatoken.EncodeClaimsToCBOR(c); err == nil {
		if c3, err := psatoken.DecodeClaimsFromCBOR(b1); err == nil {
			if j2, err := psatoken.EncodeClaimsToJSON(c3); err == nil {
				if c4, err := psatoken.DecodeClaimsFromJSON(j2); err == nil {
					if b2, err := psatoken.EncodeClaimsToCBOR(c4); err == nil {
						if bytes.Equal(b1, b2) {
							cross = "cross=same"
						} else {
							cross = "cross=differs"
						}
					}
				}
			}
		}
	}
	// implementation-level facts judged directly against the property text
	orig := obsGetters(c)
	ev := "ev=1"
	e := psatoken.Evidence{Claims: c}
	if ej, err := e.MarshalJSON(); err != nil || !bytes.Equal(ej, j) {
		ev = "ev=0"
	}
	if j2, err := psatoken.EncodeClaimsToJSON(c); err != nil || !bytes.Equal(j2, j) {
		ev = "ev=0"
	}
	gate := "gate=1"
	vj, verr := psatoken.ValidateAndEncodeClaimsToJSON(c)
	if (orig[0] == "ok") != (verr == nil) || (verr == nil && !bytes.Equal(vj, j)) {
		gate = "gate=0"
	}
	dv, dverr := psatoken.DecodeAndValidateClaimsFromJSON(append([]byte{}, j...))
	wantOK := c2 != nil && len(out) > 2 && out[2] == "ok"
	if (dverr == nil) != wantOK || (dverr == nil && strings.Join(obsGetters(dv), " ") != strings.Join(out[2:], " ")) {
		gate = "gate=0"
	}
	// the deprecated aliases: DecodeJSONClaims validates, DecodeUnvalidatedJSONClaims does not
	if da, derr := psatoken.DecodeJSONClaims(append([]byte{}, j...)); (derr == nil) != (dverr == nil) ||
		(derr == nil && strings.Join(obsGetters(da), " ") != strings.Join(obsGetters(dv), " ")) {
		gate = "gate=0"
	}
	if du, uerr := psatoken.DecodeUnvalidatedJSONClaims(append([]byte{}, j...)); (uerr == nil) != (c2 != nil) ||
		(uerr == nil && strings.Join(obsGetters(du), " ") != strings.Join(obsGetters(c2), " ")) {
		gate = "gate=0"
	}
	vjTok, dvjTok := "vj=ok", "dvj=ok"
	if verr != nil {
		vjTok = "vj=err"
	}
	if dverr != nil {
		dvjTok = "dvj=err"
	}
	return strings.Join(append(out, cross, vjTok, dvjTok), " ") + " ## orig=" + strings.Join(orig, "|") + " " + ev + " " + gate
}

func genC12(tier string, seed uint64, emit func(string)) {
	r := &rng{s: seed}
	n := 1200
	if tier == "thorough" {
		n = 12000
	}
	texts := []string{"plain", "é世界", "quote\"back\\slash", "ctl\x01\x1f\ttab\nnl", "<html>&amp;", "  ", "\\u0026 literal", "emoji😀", "/slash/", "\x7f"}
	for kind := 1; kind <= 2; kind++ {
		for i := 0; i < n; i++ {
			c := validClaims(kind, r)
			if r.intn(2) == 0 {
				c[tVsi] = hx(texts[r.intn(len(texts))])
			}
			if r.intn(3) == 0 && strings.HasPrefix(c[tSwc], "[") && c[tSwc] != "[]" {
				comps := strings.Split(c[tSwc][1:len(c[tSwc])-1], ";")
				fl := strings.Split(comps[0], ",")
				withEmpty := append([]string{"", ""}, texts...)
				fl[0] = hx(withEmpty[r.intn(len(withEmpty))])
				fl[2] = hx(withEmpty[r.intn(len(withEmpty))])
				fl[4] = hx(withEmpty[r.intn(len(withEmpty))])
				comps[0] = strings.Join(fl, ",")
				c[tSwc] = "[" + strings.Join(comps, ";") + "]"
			}
			emit("RTJ " + c.String())
		}
		// invalid ones too (the model must agree on errors and on what is emitted)
		alt := claimAlternatives(kind, r)
		for i := 0; i < n/4; i++ {
			c := validClaims(kind, r)
			fld := 1 + r.intn(nClaimTok-1)
			if len(alt[fld]) > 0 {
				c[fld] = alt[fld][r.intn(len(alt[fld]))]
			}
			if !claimsTextsUTF8(c) {
				continue
			}
			emit("RTJ " + c.String())
		}
	}
}

func claimsTextsUTF8(c ctoks) bool {
	ok := func(h string) bool {
		if h == "_" || h == "." {
			return true
		}
		return json.Valid([]byte(`"x"`)) && isUTF8(parseHexTok(h))
	}
	if !ok(c[tCert]) || !ok(c[tVsi]) {
		return false
	}
	if c[tKind] == "1" && strings.HasPrefix(c[tProfile], "s") && !ok(c[tProfile][1:]) {
		return false
	}
	if strings.HasPrefix(c[tSwc], "[") && c[tSwc] != "[]" {
		for _, comp := range strings.Split(c[tSwc][1:len(c[tSwc])-1], ";") {
			f := strings.Split(comp, ",")
			if len(f) == 5 && (!ok(f[0]) || !ok(f[2]) || !ok(f[4])) {
				return false
			}
		}
	}
	return true
}

func isUTF8(b []byte) bool {
	return strings.ToValidUTF8(string(b), "�") == string(b)
}
